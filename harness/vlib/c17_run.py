"""
C17 real-code runner: the REAL AsyncTCPNetworkServer (plain / TLS) and AsyncUDPNetworkServer on loopback sockets, inside one
asyncio event loop shared with the scripted clients (so every step is driven by the same loop; the kernel's loopback is the
only asynchronous party).  One call of `run_case(case)` = one server life: start, 2 healthy clients (H1, H2), the faulty
client F, a NEW client N after the fault, shutdown.

Fault injection uses public extension points only:
  * hook positions : a scripted AsyncStreamRequestHandler / AsyncDatagramRequestHandler subclass raises the exception tree
  * "setup"        : the event loop (ours) fails `connect_accepted_socket` for F's peer port with the tree's exception
  * "tls_hs"       : an ssl.SSLContext subclass returns an SSLObject proxy whose do_handshake raises for F's connection
  * real set-up faults: RST right after accept (SO_LINGER 0 close), garbage instead of ClientHello, stalled handshake
    (ssl_handshake_timeout), peer closing in the middle of the ClientHello
  * malformed input (`fault["bad"]`): the faulty client itself sends a packet the protocol cannot parse — alone in a
    segment, in the same segment after / before valid packets, split over two segments, two in a row, while
    on_connection is still running, while the handler waits at a `yield` with a timeout, right before a half-close —
    to a handler that catches the parse error and goes on, re-raises it, or has no `except` at all around its `yield`;
    StreamProtocol (recv) and BufferedStreamProtocol (recv_into) servers; for UDP a malformed datagram, alone or sent
    back-to-back behind a valid one

`case["eager"]`: the same server life on a loop whose task factory is asyncio.eager_task_factory.

Observations are behaviour only (no wall-clock in the output).  Every wait has a generous bound; a bound that expires while
the server is still alive makes the whole case be retried once with 4x longer bounds (2 s, then 8 s) before the timeout is reported as an
observation.
"""
from __future__ import annotations

import asyncio
import contextlib
import json
import logging
import socket
import ssl
import struct
import sys
import warnings
from typing import Any

from vlib import core  # noqa: F401  (sys.path for the repository under test)
from vlib.c14_env import CERT, KEY

from easynetwork.exceptions import (BaseProtocolParseError, ClientClosedError, DatagramProtocolParseError, DeserializeError,
                                    StreamProtocolParseError)
from easynetwork.protocol import BufferedStreamProtocol, DatagramProtocol, StreamProtocol
from easynetwork.serializers.line import StringLineSerializer
from easynetwork.servers.async_tcp import AsyncTCPNetworkServer
from easynetwork.servers.async_udp import AsyncUDPNetworkServer
from easynetwork.servers.handlers import (AsyncDatagramRequestHandler, AsyncStreamRequestHandler, INETClientAttribute)

HOST = "127.0.0.1"


# ----------------------------------------------------------------------------------------------------------------------
# exception alphabet and trees
# ----------------------------------------------------------------------------------------------------------------------
class UserError(Exception):
    """a user-defined Exception subclass"""


class UserBase(BaseException):
    """a user-defined BaseException subclass (outside what the property promises)"""


ALPHABET: dict[str, type[BaseException]] = {
    "Exception": Exception, "ValueError": ValueError, "OSError": OSError, "ConnectionError": ConnectionError,
    "ConnectionResetError": ConnectionResetError, "BrokenPipeError": BrokenPipeError, "TimeoutError": TimeoutError,
    "ClientClosedError": ClientClosedError, "StreamProtocolParseError": StreamProtocolParseError,
    "DatagramProtocolParseError": DatagramProtocolParseError, "SSLError": ssl.SSLError, "SSLEOFError": ssl.SSLEOFError,
    "RuntimeError": RuntimeError, "AssertionError": AssertionError, "LookupError": LookupError, "UserError": UserError,
    "StopAsyncIteration": StopAsyncIteration,
    "BaseException": BaseException, "UserBase": UserBase, "KeyboardInterrupt": KeyboardInterrupt, "SystemExit": SystemExit,
    "CancelledError": asyncio.CancelledError, "GeneratorExit": GeneratorExit,
}
GROUPS = {"ExceptionGroup": ExceptionGroup, "BaseExceptionGroup": BaseExceptionGroup}
EXC_LEAVES = [n for n, c in ALPHABET.items() if issubclass(c, Exception) and n != "StopAsyncIteration"]
BASE_LEAVES = [n for n, c in ALPHABET.items() if not issubclass(c, Exception)]
# leaves the harness injects for real at the boundary (GeneratorExit inside an async generator and a bare BaseException are
# left to the model: CPython gives them special meanings inside generators)
BASE_INJECTED = ["UserBase", "KeyboardInterrupt", "SystemExit", "CancelledError"]
_NAME_OF = {c: n for n, c in ALPHABET.items()}

Tree = Any   # "ClassName" | ["g", Tree, ...]


def leaves(t: Tree) -> list[str]:
    if isinstance(t, str):
        return [t]
    out: list[str] = []
    for c in t[1:]:
        out.extend(leaves(c))
    return out


def is_exception_tree(t: Tree) -> bool:
    return all(x in ALPHABET and issubclass(ALPHABET[x], Exception) for x in leaves(t))


def tree_text(t: Tree) -> str:
    if isinstance(t, str):
        return t
    return "G(" + ",".join(tree_text(c) for c in t[1:]) + ")"


def tree_tokens(t: Tree) -> list[str]:
    """prefix serialisation for the Lean driver: `L:<class>` | `G<n>` followed by n subtrees"""
    if isinstance(t, str):
        return ["L:" + t]
    out = [f"G{len(t) - 1}"]
    for c in t[1:]:
        out.extend(tree_tokens(c))
    return out


def make_exc(t: Tree) -> BaseException:
    if isinstance(t, str):
        cls = ALPHABET[t]
        if cls is StreamProtocolParseError:
            e: BaseException = StreamProtocolParseError(b"", DeserializeError("c17"))
        elif cls is DatagramProtocolParseError:
            e = DatagramProtocolParseError(DeserializeError("c17"))
        elif issubclass(cls, ssl.SSLError):
            e = cls(1, "c17 marker")
        else:
            e = cls("c17 marker")
        e._c17 = True  # type: ignore[attr-defined]
        return e
    g = BaseExceptionGroup("c17 group", [make_exc(c) for c in t[1:]])
    g._c17 = True  # type: ignore[attr-defined]
    return g


def exc_tree_text(e: BaseException | None, only_markers: bool = False) -> str:
    """canonical text of a live exception object (what a filter logged).  `only_markers`: members of a top-level group
    that the harness did not create (errors of the dying server itself) are left out"""
    if e is None:
        return "-"
    if isinstance(e, BaseExceptionGroup):
        members = [x for x in e.exceptions if not only_markers or is_marker(x) or isinstance(x, BaseExceptionGroup)]
        return "G(" + ",".join(exc_tree_text(x) for x in members) + ")"
    n = _NAME_OF.get(type(e))
    if n is None:
        for c in type(e).__mro__:
            if c in _NAME_OF:
                return _NAME_OF[c] + "+"        # an unexpected subclass: visible in the diff
        return type(e).__name__
    return n


def is_marker(e: BaseException) -> bool:
    return bool(getattr(e, "_c17", False))


# ----------------------------------------------------------------------------------------------------------------------
# log capture
# ----------------------------------------------------------------------------------------------------------------------
LOG_KEYS = {
    "Exception occurred during processing of request from %s": "request-error",
    "There have been attempts to do operation on closed client %s": "closed-client",
    "ConnectionError raised in request_handler.on_disconnection()": "disconnect-connerr",
    "Error in client task (during TLS handshake)": "tls-handshake",
    "Error in client task": "client-task",
}


class Capture(logging.Handler):
    def __init__(self) -> None:
        super().__init__(logging.DEBUG)
        self.lines: list[str] = []
        self.info: list[str] = []

    def emit(self, record: logging.LogRecord) -> None:
        msg = record.msg if isinstance(record.msg, str) else repr(record.msg)
        if record.levelno < logging.WARNING:
            self.info.append(msg)
            return
        if set(msg) == {"-"}:
            return
        origin = "server" if record.name == "c17.server" else record.name.rsplit(".", 1)[-1]
        key = LOG_KEYS.get(msg)
        if key is None:
            key = "other:" + "".join(ch if ch.isalnum() else "_" for ch in msg[:40])
        exc = record.exc_info[1] if record.exc_info else None
        self.lines.append(f"log {origin} {record.levelname} {key} exc={exc_tree_text(exc)}")


# ----------------------------------------------------------------------------------------------------------------------
# loop with injectable connect_accepted_socket
# ----------------------------------------------------------------------------------------------------------------------
class Loop(asyncio.SelectorEventLoop):
    setup_fault: dict[int, Tree] = {}
    accepted_ports: list[int] = []      # peer port of every connection the servers of this loop accepted (reset per case)

    async def connect_accepted_socket(self, protocol_factory, sock, **kw):  # type: ignore[override]
        try:
            port = sock.getpeername()[1]
        except OSError:
            port = None
        if port is not None:
            self.accepted_ports.append(port)
        t = self.setup_fault.pop(port, None) if port is not None else None
        if t is not None:
            self.fault_raised = True
            raise make_exc(t)
        return await super().connect_accepted_socket(protocol_factory, sock, **kw)


class _HandshakeFailer:
    """SSLObject proxy: everything is the real object, except that do_handshake raises the scripted exception"""

    def __init__(self, obj: ssl.SSLObject, tree: Tree, plan: "Plan") -> None:
        self.__dict__["_obj"] = obj
        self.__dict__["_tree"] = tree
        self.__dict__["_plan"] = plan

    def __getattr__(self, name: str) -> Any:
        return getattr(self._obj, name)

    def do_handshake(self) -> None:
        self._plan.fault_raised = True
        raise make_exc(self._tree)


class FaultySSLContext(ssl.SSLContext):
    """server-side context; `arm(tree)` makes the NEXT wrap_bio() return a failing SSLObject"""
    _armed: list = []

    def wrap_bio(self, incoming, outgoing, server_side=False, server_hostname=None, session=None):  # type: ignore[override]
        obj = super().wrap_bio(incoming, outgoing, server_side=server_side, server_hostname=server_hostname, session=session)
        if type(self)._armed:
            tree, plan = type(self)._armed.pop()
            return _HandshakeFailer(obj, tree, plan)
        return obj


_srv_ctx: FaultySSLContext | None = None
_cli_ctx: ssl.SSLContext | None = None


def contexts() -> tuple[FaultySSLContext, ssl.SSLContext]:
    global _srv_ctx, _cli_ctx
    if _srv_ctx is None:
        s = FaultySSLContext(ssl.PROTOCOL_TLS_SERVER)
        s.load_cert_chain(CERT, KEY)
        c = ssl.SSLContext(ssl.PROTOCOL_TLS_CLIENT)
        c.check_hostname = False
        c.verify_mode = ssl.CERT_NONE
        _srv_ctx, _cli_ctx = s, c
    assert _cli_ctx is not None
    return _srv_ctx, _cli_ctx


# ----------------------------------------------------------------------------------------------------------------------
# plan shared by the handler and the client script
# ----------------------------------------------------------------------------------------------------------------------
class HarnessTimeout(Exception):
    pass


TIMEOUT = "timeout"
DEAD = "dead"


class _NoConnection(Exception):
    pass


class Plan:
    def __init__(self, case: dict, scale: float) -> None:
        self.case = case
        self.kind: str = case["kind"]
        f = case.get("fault") or {}
        self.pos: str | None = f.get("pos")
        self.tree: Tree = f.get("tree")
        self.k: int = int(f.get("k", 1))
        self.gen: int = int(f.get("gen", 1))
        self.queued: int = int(f.get("queued", 0))      # UDP: datagrams of F queued behind the one whose handling fails
        self.fault_reached = asyncio.Event()
        self.queued_sent = asyncio.Event()
        self.oc_mode: str = case.get("oc", "coro")
        self.who: dict[int, str] = {}
        self.events: list[str] = []        # hook log of every client, in order
        self.gens: dict[str, int] = {}
        self.hold = asyncio.Event()
        self.holding = asyncio.Event()
        self.fault_raised = False
        self.fault_count = 0
        self.sockets: dict[str, Any] = {}
        self.T = 2.0 * scale
        self.timeouts: list[str] = []
        self.serve: asyncio.Future | None = None
        # malformed input sent by F itself (see bad_script)
        self.bad: dict = f.get("bad") or {}
        self.react: str = self.bad.get("react", "reraise")        # catch | reraise | propagate
        self.ytimeout: float | None = 30.0 if self.bad.get("ytimeout") else None
        self.oc_gate = asyncio.Event()
        if not self.bad.get("oc_busy"):
            self.oc_gate.set()
        self.proto: str = case.get("proto", "copy")

    def note_exc(self, who: str) -> None:
        """called from a `finally:` of F's hooks: a parse error propagating through a hook that has no `except` for it"""
        if who == "F" and self.bad and isinstance(sys.exc_info()[1], BaseProtocolParseError):
            self.fault_raised = True

    async def gate(self, who: str) -> None:
        """F's on_connection is kept busy until the harness has sent F's data (`oc_busy`)"""
        if who == "F" and not self.oc_gate.is_set():
            with contextlib.suppress(asyncio.TimeoutError):
                await asyncio.wait_for(self.oc_gate.wait(), self.T)

    async def bounded(self, aw: Any, label: str) -> Any:
        """result of `aw`, or TIMEOUT (bound expired, server alive: recorded) or DEAD (the serve task has ended)"""
        t = asyncio.ensure_future(aw)
        others = {self.serve} if self.serve is not None else set()
        try:
            done, _ = await asyncio.wait({t} | others, timeout=self.T, return_when=asyncio.FIRST_COMPLETED)
            if t not in done and self.serve is not None and self.serve.done():
                done, _ = await asyncio.wait({t}, timeout=0.02)      # what was already in flight
                if t not in done:
                    return DEAD
            if t in done:
                return t.result()
            self.timeouts.append(label)
            return TIMEOUT
        finally:
            if not t.done():
                t.cancel()
                with contextlib.suppress(BaseException):
                    await t

    def name(self, client: Any) -> str:
        try:
            port = client.extra(INETClientAttribute.remote_address).port
        except Exception:
            return "?"
        return self.who.get(port, "?")

    def ev(self, who: str, what: str) -> None:
        self.events.append(f"{who} {what}")

    def should(self, who: str, pos: str, **kw: int) -> bool:
        if who != "F" or self.pos != pos:
            return False
        for key, v in kw.items():
            if getattr(self, key) != v:
                return False
        return True

    def fault(self, thrown: BaseException | None = None) -> BaseException:
        self.fault_raised = True
        self.fault_count += 1
        if self.tree == "@thrown":
            assert thrown is not None
            return thrown
        return make_exc(self.tree)


# ----------------------------------------------------------------------------------------------------------------------
# scripted request handlers
# ----------------------------------------------------------------------------------------------------------------------
class _StreamHandlerBase(AsyncStreamRequestHandler[str, str]):
    def __init__(self, plan: Plan) -> None:
        self.plan = plan

    async def handle(self, client):  # type: ignore[override]
        p = self.plan
        who = p.name(client)
        g = p.gens[who] = p.gens.get(who, 0) + 1
        p.ev(who, f"handle:start g{g}")
        if who == "F":
            p.sockets["F"] = client.extra(INETClientAttribute.socket)
        n = 0
        yt = p.ytimeout if who == "F" else None
        try:
            if p.should(who, "h_pre", gen=g):
                raise p.fault()
            while True:
                if p.react == "propagate" and p.should(who, "h_thrown", gen=g):
                    req = yield yt          # no `except` here: a parse error thrown in propagates out of handle()
                else:
                    try:
                        req = yield yt
                    except BaseProtocolParseError as e:
                        if p.react != "catch" and p.should(who, "h_thrown", gen=g):
                            raise p.fault(e)
                        if who == "F" and p.bad:
                            p.fault_raised = True
                        await client.send_packet("bad")
                        continue
                    except GeneratorExit:
                        if p.should(who, "h_gexit", gen=g):
                            raise p.fault()
                        raise
                n += 1
                if req == "hold":
                    p.holding.set()
                    await p.hold.wait()
                if req == "close-send" and who == "F" and p.tree == "@closed_send":
                    p.fault_raised = True
                    await client.aclose()
                    await client.send_packet("never")
                if p.should(who, "h_post", gen=g, k=n):
                    raise p.fault()
                await client.send_packet(f"pong {req} g{g}")
                if n == 2:
                    return
        finally:
            p.note_exc(who)
            p.ev(who, f"handle:closed g{g}")

    async def on_disconnection(self, client):  # type: ignore[override]
        p = self.plan
        who = p.name(client)
        p.ev(who, "on_disconnection")
        if p.should(who, "od"):
            raise p.fault()


class CoroConnHandler(_StreamHandlerBase):
    async def on_connection(self, client):  # type: ignore[override]
        p = self.plan
        who = p.name(client)
        p.ev(who, "on_connection:start")
        if who == "F":
            p.sockets["F"] = client.extra(INETClientAttribute.socket)
        if p.should(who, "oc_coro"):
            raise p.fault()
        await p.gate(who)
        p.ev(who, "on_connection:done")


class GenConnHandler(_StreamHandlerBase):
    async def on_connection(self, client):  # type: ignore[override]
        p = self.plan
        who = p.name(client)
        p.ev(who, "on_connection:start")
        if who == "F":
            p.sockets["F"] = client.extra(INETClientAttribute.socket)
        if p.should(who, "oc_pre"):
            raise p.fault()
        await p.gate(who)
        yt = p.ytimeout if who == "F" else None
        try:
            while True:
                if p.react == "propagate" and p.should(who, "oc_thrown"):
                    req = yield yt          # no `except`: the parse error propagates out of on_connection()
                    break
                try:
                    req = yield yt
                except BaseProtocolParseError as e:
                    if p.react != "catch" and p.should(who, "oc_thrown"):
                        raise p.fault(e)
                    if who == "F" and p.bad:
                        p.fault_raised = True
                    await client.send_packet("bad")
                    continue
                break
        finally:
            p.note_exc(who)
        if p.should(who, "oc_post"):
            raise p.fault()
        await client.send_packet(f"welcome {req}")
        p.ev(who, "on_connection:done")


class DgramHandler(AsyncDatagramRequestHandler[str, str]):
    def __init__(self, plan: Plan) -> None:
        self.plan = plan

    async def handle(self, client):  # type: ignore[override]
        p = self.plan
        who = p.name(client)
        g = p.gens[who] = p.gens.get(who, 0) + 1
        p.ev(who, f"handle:start g{g}")
        n = 0
        try:
            if p.should(who, "h_pre", gen=g):
                raise p.fault()
            while True:
                if p.react == "propagate" and p.should(who, "h_thrown", gen=g):
                    req = yield None        # no `except`: the parse error propagates out of handle()
                else:
                    try:
                        req = yield None
                    except BaseProtocolParseError as e:
                        if p.react != "catch" and p.should(who, "h_thrown", gen=g):
                            raise p.fault(e)
                        if who == "F" and p.bad:
                            p.fault_raised = True
                        await client.send_packet("bad")
                        continue
                n += 1
                if req == "hold":
                    p.holding.set()
                    await p.hold.wait()
                if req.startswith("slow") and who == "F":
                    # (burst: the next datagram of F, sent back-to-back, is queued while this one is being handled)
                    for _ in range(10):
                        await asyncio.sleep(0)
                if p.should(who, "h_post", gen=g, k=n):
                    if p.queued:
                        # let the harness queue more datagrams of F behind this one, and the server receive them
                        p.fault_reached.set()
                        await p.queued_sent.wait()
                        for _ in range(6 * p.queued + 6):
                            await asyncio.sleep(0)
                        await asyncio.sleep(0.01)
                    raise p.fault()
                await client.send_packet(f"pong {req} g{g}")
                if n == 2:
                    return
        finally:
            p.note_exc(who)
            p.ev(who, f"handle:closed g{g}")


# ----------------------------------------------------------------------------------------------------------------------
# clients
# ----------------------------------------------------------------------------------------------------------------------
def _bound_socket(kind: int) -> socket.socket:
    s = socket.socket(socket.AF_INET, kind)
    s.bind((HOST, 0))
    s.setblocking(False)
    return s


class TcpClient:
    def __init__(self, plan: Plan, name: str, addr: tuple[str, int], tls: bool) -> None:
        self.plan, self.name, self.addr, self.tls = plan, name, addr, tls
        self.sock = _bound_socket(socket.SOCK_STREAM)
        self.port = self.sock.getsockname()[1]
        plan.who[self.port] = name
        self.reader: asyncio.StreamReader | None = None
        self.writer: asyncio.StreamWriter | None = None
        self.answers: list[str] = []

    async def connect_raw(self) -> None:
        r = await self.plan.bounded(asyncio.get_running_loop().sock_connect(self.sock, self.addr), f"{self.name} connect")
        if r is TIMEOUT or r is DEAD:
            raise _NoConnection(r)

    async def connect(self) -> bool:
        """returns False when the connection could not be established (recorded in answers)"""
        try:
            await self.connect_raw()
            kw: dict[str, Any] = {}
            if self.tls:
                kw = {"ssl": contexts()[1], "server_hostname": "localhost", "ssl_handshake_timeout": self.plan.T + 30,
                      "ssl_shutdown_timeout": 1.0}
            r = await self.plan.bounded(asyncio.open_connection(sock=self.sock, **kw), f"{self.name} connect")
            if r is TIMEOUT or r is DEAD:
                raise _NoConnection(r)
            self.reader, self.writer = r
            return True
        except _NoConnection as e:
            self.answers.append("connect-timeout" if e.args[0] is TIMEOUT else "connect-dead")
        except (OSError, ssl.SSLError) as e:
            self.answers.append("connect-failed:" + ("eof" if isinstance(e, (ConnectionError, ssl.SSLEOFError)) else type(e).__name__))
        return False

    def send(self, line: str | bytes) -> None:
        if self.writer is None:
            return
        data = line if isinstance(line, bytes) else line.encode() + b"\n"
        with contextlib.suppress(OSError, RuntimeError):
            self.writer.write(data)

    async def recv(self) -> str:
        if self.reader is None:
            return "closed"
        try:
            line = await self.plan.bounded(self.reader.readline(), f"{self.name} recv")
        except (OSError, ssl.SSLError):
            # asyncio's StreamReader raises the connection error (e.g. the RST the server sends after a handler failure)
            # before looking at its buffer: an answer that was received before the reset is still an answer
            line = self._buffered_line()
            if line is None:
                return "closed"
        if line is TIMEOUT or line is DEAD:
            return line
        if not line:
            return "closed"
        return line.decode(errors="replace").rstrip("\n").replace(" ", "_")

    def _buffered_line(self) -> bytes | None:
        buf = getattr(self.reader, "_buffer", None)
        if not isinstance(buf, bytearray):
            return None
        i = buf.find(b"\n")
        if i < 0:
            return None
        line = bytes(buf[:i + 1])
        del buf[:i + 1]
        return line

    async def ask(self, line: str) -> str:
        self.send(line)
        a = await self.recv()
        self.answers.append(a)
        return a

    async def wait_closed_by_peer(self) -> str:
        """'closed' when the peer closed / reset the connection, 'open' if it is still open after the bound,
        'data:<x>' if something unexpected was received"""
        a = await self.recv()
        if a in (TIMEOUT, DEAD):
            return "open"
        return a if a == "closed" else "data:" + a

    async def close(self) -> None:
        if self.writer is not None:
            with contextlib.suppress(Exception):
                self.writer.close()
            with contextlib.suppress(Exception):
                await asyncio.wait_for(self.writer.wait_closed(), 1.0)
        else:
            self.sock.close()

    def abort(self) -> None:
        if self.writer is not None:
            self.writer.transport.abort()
        else:
            self.sock.close()


class UdpClient:
    def __init__(self, plan: Plan, name: str, addr: tuple[str, int]) -> None:
        self.plan, self.name, self.addr = plan, name, addr
        self.sock = _bound_socket(socket.SOCK_DGRAM)
        self.port = self.sock.getsockname()[1]
        plan.who[self.port] = name
        self.answers: list[str] = []

    def send(self, line: str | bytes) -> None:
        data = line if isinstance(line, bytes) else line.encode()
        with contextlib.suppress(OSError):
            self.sock.sendto(data, self.addr)

    async def recv(self) -> str:
        loop = asyncio.get_running_loop()
        try:
            r = await self.plan.bounded(loop.sock_recvfrom(self.sock, 65536), f"{self.name} recv")
        except OSError:
            return "closed"
        if r is TIMEOUT or r is DEAD:
            return r
        data = r[0]
        return data.decode(errors="replace").replace(" ", "_")

    async def ask(self, line: str) -> str:
        self.send(line)
        a = await self.recv()
        self.answers.append(a)
        return a

    async def close(self) -> None:
        self.sock.close()


async def _poll(cond, bound: float, plan: "Plan | None" = None) -> bool:
    """True when cond() holds; False after the bound (or, with `plan`, once the server has ended: nothing will change)"""
    loop = asyncio.get_running_loop()
    end = loop.time() + bound
    delay = 0.001
    dead_turns = 0
    while not cond():
        if loop.time() > end:
            return False
        if plan is not None and plan.serve is not None and plan.serve.done():
            dead_turns += 1
            if dead_turns > 5:
                return True
        await asyncio.sleep(delay)
        delay = min(delay * 2, 0.05)
    return True


BAD_LINE = b"\xff\xfe\xfd\n"
BAD2_LINE = b"\xfe\xff\n"
BAD_DGRAM = b"\xff\xfe\xfd"
BAD_HOWS_TCP = ("alone", "glued", "glued2", "bad_first", "split", "split_glued", "twobad")
BAD_HOWS_OC = ("alone", "bad_first", "split", "twobad")
BAD_HOWS_UDP = ("alone", "burst")


def bad_script(case: dict) -> tuple[list[str], list[bytes], list[tuple[str, str]]]:
    """What the faulty client sends when the fault is malformed input (`fault["bad"]`):
         head    requests asked one at a time before (each answered before the next is sent)
         final   the byte chunks (one segment / TLS record / datagram each) that carry the malformed packet(s)
         packets everything in sending order as ("v", request text) | ("b", "")
       `v` = number of valid requests the handle() generators receive before the malformed packet."""
    f = case["fault"]
    b = f.get("bad") or {}
    how = b.get("how", "alone")
    v = int(b.get("v", 0))
    gen_mode = case.get("oc", "coro") == "gen" and case["kind"] != "udp"
    head: list[str] = []
    if case["kind"] == "udp":
        burst = how == "burst"
        head = [f"f{i + 1}" for i in range(v - (1 if burst else 0))]
        final = ([f"slow{v}".encode()] if burst else []) + [BAD_DGRAM]
        packets = [("v", h) for h in head] + ([("v", f"slow{v}")] if burst else []) + [("b", "")]
        return head, final, packets
    if f["pos"] == "oc_thrown":
        # the malformed packet reaches the yield of the on_connection() generator
        final = {"alone": [BAD_LINE], "bad_first": [BAD_LINE + b"login-F\n"], "split": [BAD_LINE[:2], BAD_LINE[2:]],
                 "twobad": [BAD_LINE + BAD2_LINE]}[how]
    else:
        glued = how in ("glued", "glued2", "split_glued")
        n_single = v - (1 if glued else 0)
        pre = b""
        if gen_mode:
            if b.get("login_glued") and n_single == 0:
                pre = b"login-F\n"          # the login and what follows arrive in one segment
            else:
                head.append("login-F")
        head += [f"f{i + 1}" for i in range(n_single)]
        valid, nxt = f"f{v}\n".encode(), f"f{v + 1}\n".encode()
        final = {"alone": [pre + BAD_LINE], "glued": [pre + valid + BAD_LINE], "glued2": [pre + valid + BAD_LINE + nxt],
                 "bad_first": [pre + BAD_LINE + nxt], "split": [pre + BAD_LINE[:2], BAD_LINE[2:]],
                 "split_glued": [pre + valid + BAD_LINE[:2], BAD_LINE[2:]], "twobad": [pre + BAD_LINE + BAD2_LINE]}[how]
    packets = [("v", h) for h in head]
    for line in b"".join(final).split(b"\n")[:-1]:
        packets.append(("b", "") if line[:1] in (b"\xff", b"\xfe") else ("v", line.decode()))
    return head, final, packets
HANDSHAKE_TIMEOUT = 0.25       # only for the `tls_stall` fault (the one wall-clock constant of this file; behaviour-only)


def client_hello() -> bytes:
    inc, out = ssl.MemoryBIO(), ssl.MemoryBIO()
    obj = contexts()[1].wrap_bio(inc, out, server_side=False, server_hostname="localhost")
    with contextlib.suppress(ssl.SSLWantReadError):
        obj.do_handshake()
    return out.read()


# ----------------------------------------------------------------------------------------------------------------------
# one server life
# ----------------------------------------------------------------------------------------------------------------------
async def _tcp_session(plan: Plan, cap: Capture) -> list[str]:
    case = plan.case
    tls = plan.kind == "tcp-tls"
    logger = logging.getLogger("c17.server")
    handler = (GenConnHandler if plan.oc_mode == "gen" else CoroConnHandler)(plan)
    kw: dict[str, Any] = {}
    if tls:
        kw = {"ssl": contexts()[0], "ssl_shutdown_timeout": 1.0,
              "ssl_handshake_timeout": HANDSHAKE_TIMEOUT if plan.pos == "tls_stall" else max(30.0, plan.T)}
    protocol: Any = (BufferedStreamProtocol if plan.proto == "buffered" else StreamProtocol)(StringLineSerializer())
    server = AsyncTCPNetworkServer(HOST, 0, protocol, handler, logger=logger, **kw)
    up = asyncio.Event()
    serve = plan.serve = asyncio.ensure_future(server.serve_forever(is_up_event=up))
    lines: list[str] = []
    clients: list[TcpClient] = []
    try:
        await asyncio.wait_for(up.wait(), plan.T + 5)
        addr = (HOST, server.get_addresses()[0].port)
        gen_mode = plan.oc_mode == "gen"

        async def open_healthy(name: str) -> TcpClient:
            c = TcpClient(plan, name, addr, tls)
            clients.append(c)
            if await c.connect() and gen_mode:
                await c.ask(f"login-{name}")
            return c

        sched = case.get("sched", "mid")
        h1 = await open_healthy("H1")
        await h1.ask("a1")
        h2 = await open_healthy("H2")
        await h2.ask("b1")
        if sched != "nohold":
            h2.send("hold")
            if not await _poll(plan.holding.is_set, plan.T, plan):
                plan.timeouts.append("H2 hold")
        if sched == "late":
            await h1.ask("a2")      # H1's first generator ends here: the fault happens while H1 sits in its second one

        # ---- the faulty client
        f = TcpClient(plan, "F", addr, tls)
        clients.append(f)
        lines.extend(await _tcp_fault(plan, f, h1, gen_mode))

        # ---- after the fault
        if sched != "nohold":
            plan.hold.set()
            h2.answers.append(await h2.recv())
        await h1.ask("a3")
        await h2.ask("b3")
        n = await open_healthy("N")
        await n.ask("n1")
        await n.ask("n2")
        await n.ask("n3")
        lines.append("h1 " + " ".join(h1.answers))
        lines.append("h2 " + " ".join(h2.answers))
        lines.append("new " + " ".join(n.answers))
        lines.append(f"serving {int(server.is_serving())}")
        lines.append("servetask " + ("running" if not serve.done() else "done"))
    finally:
        plan.hold.set()
        for c in clients:
            if serve.done():
                c.abort()
            else:
                await c.close()
        lines.extend(await _stop(server, serve, plan))
    return lines


async def _tcp_fault(plan: Plan, f: TcpClient, h1: TcpClient, gen_mode: bool) -> list[str]:
    pos = plan.pos
    loop = asyncio.get_running_loop()
    lines: list[str] = []
    during_sent = False

    def during() -> None:
        nonlocal during_sent
        if not during_sent:
            during_sent = True
            h1.send("during")

    if pos is None:
        # fault-free baseline: F behaves like a healthy client that leaves
        if await f.connect():
            if gen_mode:
                await f.ask("login-F")
            await f.ask("f1")
            during()
            await f.close()
            await _poll(lambda: any(e == "F on_disconnection" for e in plan.events), plan.T, plan)
        h1.answers.append(await h1.recv())
        lines.append("faulty " + " ".join(f.answers))
        return lines

    closed = "n/a"
    if pos == "setup":
        loop.setup_fault[f.port] = plan.tree  # type: ignore[attr-defined]
        try:
            await f.connect_raw()
            during()
            f.reader, f.writer = await asyncio.open_connection(sock=f.sock)
            closed = await f.wait_closed_by_peer()
        except (OSError, _NoConnection) as e:
            closed = "closed" if isinstance(e, OSError) else "open"
        loop.setup_fault.pop(f.port, None)  # type: ignore[attr-defined]
    elif pos == "tls_hs":
        FaultySSLContext._armed.append((plan.tree, plan))
        ok = await f.connect()
        during()
        closed = "closed" if not ok and f.answers[-1] not in ("connect-timeout", "connect-dead") else (await f.wait_closed_by_peer() if ok else "open")
        FaultySSLContext._armed.clear()
    elif pos in ("rst", "tls_garbage", "tls_stall", "tls_close"):
        try:
            await f.connect_raw()
            if pos == "rst":
                f.sock.setsockopt(socket.SOL_SOCKET, socket.SO_LINGER, struct.pack("ii", 1, 0))
                f.sock.close()
                during()
                closed = "closed"
                # give the server the time to run the set-up of that connection: a later client is accepted after it
            elif pos == "tls_garbage":
                during()
                await loop.sock_sendall(f.sock, b"GET / HTTP/1.0\r\n\r\n" * 4)
                f.reader, f.writer = await asyncio.open_connection(sock=f.sock)
                closed = await f.wait_closed_by_peer()
                if closed.startswith("data:"):      # a TLS alert record may precede the close
                    closed = await f.wait_closed_by_peer()
            elif pos == "tls_stall":
                during()
                f.reader, f.writer = await asyncio.open_connection(sock=f.sock)
                closed = await f.wait_closed_by_peer()
            else:
                hello = client_hello()
                await loop.sock_sendall(f.sock, hello[: max(1, len(hello) // 2)])
                during()
                await asyncio.sleep(0)
                f.sock.close()
                closed = "closed"
        except OSError:
            closed = "closed"
        except _NoConnection:
            closed = "open"
    elif plan.bad:
        closed = await _tcp_bad_data(plan, f, during)
    else:
        ok = await f.connect()
        if ok:
            # drive F to the fault position
            steps: list[str | bytes] = []
            if gen_mode:
                if pos == "oc_thrown":
                    steps.append(BAD_LINE)
                elif pos != "oc_pre":
                    steps.append("login-F")
            if pos in ("h_post", "h_thrown", "h_gexit", "od"):
                pre = (plan.gen - 1) * 2 + ((plan.k - 1) if pos == "h_post" else 0)
                if pos in ("h_gexit", "od"):
                    pre = max(pre, 1)
                steps.extend(f"f{i + 1}" for i in range(pre))
                if pos == "h_post":
                    steps.append("close-send" if plan.tree == "@closed_send" else f"f{pre + 1}")
                elif pos == "h_thrown":
                    steps.append(BAD_LINE)
            elif pos == "h_pre" and plan.gen > 1:
                steps.extend(f"f{i + 1}" for i in range((plan.gen - 1) * 2))
            for i, s in enumerate(steps):
                last = i == len(steps) - 1
                f.send(s)
                if last and pos in ("h_post", "h_thrown", "oc_thrown", "oc_post"):
                    break          # no answer expected: the fault fires on this request
                a = await f.recv()
                f.answers.append(a)
                if a in ("closed", "timeout"):
                    break
            during()
            if pos in ("h_gexit", "od"):
                await f.close()
                closed = "closed"
            else:
                closed = await f.wait_closed_by_peer()
        else:
            during()
            closed = "closed" if f.answers[-1] not in ("connect-timeout", "connect-dead") else "open"
    # wait for the server side to be done with F (server-side socket closed), then for H1's in-flight answer
    sock = plan.sockets.get("F")
    if sock is not None:
        if not await _poll(lambda: sock.fileno() == -1, plan.T if closed == "closed" else 0.2, plan):
            plan.timeouts.append("F server-side close")
    h1.answers.append(await h1.recv())
    lines.append("faulty " + " ".join(f.answers))
    lines.append(f"faulty-conn {closed}")
    if sock is not None:
        lines.append(f"faulty-server-socket {'closed' if sock.fileno() == -1 else 'open'}")
    lines.append(f"fault-raised {int(plan.fault_raised or bool(getattr(loop, 'fault_raised', False)))}")
    return lines


async def _tcp_bad_data(plan: Plan, f: TcpClient, during: Any) -> str:
    """F sends malformed input (see bad_script); returns what became of its connection"""
    b = plan.bad
    head, final, packets = bad_script(plan.case)
    if not await f.connect():
        plan.oc_gate.set()
        during()
        return "closed" if f.answers[-1] not in ("connect-timeout", "connect-dead") else "open"
    if head:
        plan.oc_gate.set()          # (oc_busy needs everything in flight before on_connection ends: only without a head)
    for h in head:
        a = await f.ask(h)
        if a in ("closed", TIMEOUT, DEAD):
            break
    for i, chunk in enumerate(final):
        if i:
            # the rest of a split packet goes out once the first part has had every chance to be received alone
            for _ in range(5):
                await asyncio.sleep(0)
            await asyncio.sleep(0.005)
        f.send(chunk)
    halfclose = bool(b.get("halfclose")) and not f.tls
    if halfclose and f.writer is not None:
        with contextlib.suppress(OSError, RuntimeError, NotImplementedError):
            f.writer.write_eof()        # "right before disconnection": FIN follows the malformed packet at once
    if not plan.oc_gate.is_set():
        for _ in range(5):
            await asyncio.sleep(0)
        await asyncio.sleep(0.005)
        plan.oc_gate.set()
    during()
    n_final = len(packets) - len(head)
    if plan.react == "catch" and not halfclose:
        # every packet of the final chunks is answered (valid: pong / welcome, malformed: "bad"), the connection stays open
        for _ in range(n_final):
            a = await f.recv()
            f.answers.append(a)
            if a in ("closed", TIMEOUT, DEAD):
                return "open" if a is TIMEOUT else "closed"
        if plan.pos == "oc_thrown" and b.get("how") != "bad_first":
            await f.ask("login-F")
        await f.ask("fz")           # F is still served
        await f.close()
        await _poll(lambda: any(e == "F on_disconnection" for e in plan.events), plan.T, plan)
        return "closed"
    for _ in range(n_final + 2):
        a = await f.recv()
        if a == "closed":
            return "closed"
        if a in (TIMEOUT, DEAD):
            return "open"
        f.answers.append(a)
    return "open"


async def _udp_session(plan: Plan, cap: Capture) -> list[str]:
    case = plan.case
    logger = logging.getLogger("c17.server")
    server = AsyncUDPNetworkServer(HOST, 0, DatagramProtocol(StringLineSerializer()), DgramHandler(plan), logger=logger)
    up = asyncio.Event()
    serve = plan.serve = asyncio.ensure_future(server.serve_forever(is_up_event=up))
    lines: list[str] = []
    clients: list[UdpClient] = []
    try:
        await asyncio.wait_for(up.wait(), plan.T + 5)
        addr = (HOST, server.get_addresses()[0].port)
        sched = case.get("sched", "mid")
        h1, h2, f = UdpClient(plan, "H1", addr), UdpClient(plan, "H2", addr), UdpClient(plan, "F", addr)
        clients.extend([h1, h2, f])
        await h1.ask("a1")
        await h2.ask("b1")
        if sched != "nohold":
            h2.send("hold")
            if not await _poll(plan.holding.is_set, plan.T, plan):
                plan.timeouts.append("H2 hold")
        if sched == "late":
            await h1.ask("a2")
        pos = plan.pos
        if pos is None:
            await f.ask("f1")
            h1.send("during")
        elif plan.bad:
            head, final, packets = bad_script(case)
            for h in head:
                await f.ask(h)
            for d in final:
                f.send(d)           # back-to-back
            h1.send("during")
            if plan.react == "catch":
                for _ in final:
                    f.answers.append(await f.recv())
            else:
                for _ in final[:-1]:
                    f.answers.append(await f.recv())
                if not await _poll(lambda: plan.fault_raised and any(e.startswith("F handle:closed") and
                                                                  e.endswith(f"g{plan.gen}") for e in plan.events), plan.T, plan):
                    plan.timeouts.append("F fault")
        else:
            pre = (plan.gen - 1) * 2 + ((plan.k - 1) if pos == "h_post" else 0)
            for i in range(pre):
                await f.ask(f"f{i + 1}")
            if pos == "h_thrown":
                # the first datagram of a generator is delivered at its first yield: a malformed one is thrown there
                f.send(BAD_DGRAM)
            else:
                f.send(f"f{pre + 1}")
            if plan.queued and pos == "h_post":
                if not await _poll(plan.fault_reached.is_set, plan.T, plan):
                    plan.timeouts.append("F fault reached")
                for i in range(plan.queued):
                    f.send(f"q{i + 1}")
                plan.queued_sent.set()
            h1.send("during")
            if not await _poll(lambda: plan.fault_raised and any(e.startswith("F handle:closed") and
                                                              e.endswith(f"g{plan.gen}") for e in plan.events), plan.T, plan):
                plan.timeouts.append("F fault")
        h1.answers.append(await h1.recv())
        # datagrams queued behind the failed one are handled by the re-spawned client coroutine (fresh generator)
        if pos == "h_post":
            for _ in range(plan.queued):
                f.answers.append(await f.recv())
        # a later datagram from the faulty address must get a fresh generator
        a = await f.ask("again")
        lines.append("faulty " + " ".join(f.answers))
        fresh = a.startswith("pong_again_g") and a[len("pong_again_g"):].isdigit() and \
            (pos is None or (plan.bad and plan.react == "catch") or int(a[len("pong_again_g"):]) > plan.gen)
        lines.append(f"faulty-fresh {int(fresh)}")
        lines.append(f"fault-raised {int(plan.fault_raised)}")
        if sched != "nohold":
            plan.hold.set()
            h2.answers.append(await h2.recv())
        await h1.ask("a3")
        await h2.ask("b3")
        n = UdpClient(plan, "N", addr)
        clients.append(n)
        await n.ask("n1")
        await n.ask("n2")
        await n.ask("n3")
        lines.append("h1 " + " ".join(h1.answers))
        lines.append("h2 " + " ".join(h2.answers))
        lines.append("new " + " ".join(n.answers))
        lines.append(f"serving {int(server.is_serving())}")
        lines.append("servetask " + ("running" if not serve.done() else "done"))
    finally:
        plan.hold.set()
        for c in clients:
            await c.close()
        lines.extend(await _stop(server, serve, plan))
    return lines


async def _stop(server: Any, serve: asyncio.Future, plan: Plan) -> list[str]:
    out: list[str] = []
    try:
        if not serve.done():
            await asyncio.wait_for(server.shutdown(), plan.T + 5)
        await asyncio.wait_for(server.server_close(), plan.T + 5)
    except asyncio.TimeoutError:
        plan.timeouts.append("shutdown")
    try:
        await asyncio.wait_for(asyncio.shield(serve), plan.T + 5)
        out.append("serve-end clean")
    except asyncio.TimeoutError:
        plan.timeouts.append("serve task")
        serve.cancel()
        out.append("serve-end stuck")
    except asyncio.CancelledError:
        out.append("serve-end cancelled")
    except BaseException as e:  # noqa: BLE001  (what killed the server is the observation)
        out.append("serve-end exc=" + exc_tree_text(e, only_markers=True))
    return out


_loop: Loop | None = None


def _get_loop() -> Loop:
    global _loop
    if _loop is None or _loop.is_closed():
        _loop = Loop()
        _loop.set_exception_handler(lambda loop, ctx: None)
    return _loop


def reset_loop() -> None:
    global _loop
    if _loop is not None and not _loop.is_closed():
        with contextlib.suppress(Exception):
            _loop.run_until_complete(_loop.shutdown_asyncgens())
        _loop.close()
    _loop = None


def _run_once(case: dict, scale: float) -> tuple[list[str], Plan]:
    loop = _get_loop()
    loop.fault_raised = False  # type: ignore[attr-defined]
    loop.setup_fault.clear()
    loop.accepted_ports = []
    asyncio.set_event_loop(loop)
    # `eager`: the event loop creates its tasks with asyncio.eager_task_factory (a configuration the servers support
    # explicitly): the first step of every new task — a per-datagram handler task, a re-spawned client coroutine, an accepted
    # connection's task — runs synchronously inside start_soon() / create_task()
    loop.set_task_factory(asyncio.eager_task_factory if case.get("eager") else None)
    plan = Plan(case, scale)
    cap = Capture()
    loggers = [logging.getLogger("c17.server"), logging.getLogger("easynetwork")]
    saved = [(lg, lg.level, lg.propagate, list(lg.handlers)) for lg in loggers]
    for lg in loggers:
        lg.handlers[:] = [cap]
        lg.setLevel(logging.DEBUG)
        lg.propagate = False
    session = _udp_session if plan.kind == "udp" else _tcp_session
    main = loop.create_task(session(plan, cap))
    interrupts: list[str] = []
    warnings.filterwarnings("ignore", category=RuntimeWarning, message="coroutine .* was never awaited")
    try:
        for _ in range(8):
            try:
                loop.run_until_complete(main)
                break
            except (KeyboardInterrupt, SystemExit) as e:
                if not is_marker(e):
                    raise
                interrupts.append(type(e).__name__)     # our own marker went through the loop: go on running it
                continue
        if not main.done():
            main.cancel()
            with contextlib.suppress(BaseException):
                loop.run_until_complete(main)
            raise core.InfraError("C17: session did not finish")
        try:
            lines = main.result()
        except asyncio.TimeoutError as e:
            raise HarnessTimeout(str(e)) from None
    finally:
        # nothing of this case may survive into the next one
        for _ in range(3):
            pending = [t for t in asyncio.all_tasks(loop) if not t.done()]
            if not pending:
                break
            for t in pending:
                t.cancel()
            try:
                loop.run_until_complete(asyncio.gather(*pending, return_exceptions=True))
            except (KeyboardInterrupt, SystemExit) as e:
                if not is_marker(e):
                    raise
            except BaseException:  # noqa: BLE001
                pass
        for lg, lvl, prop, hs in saved:
            lg.handlers[:] = hs
            lg.setLevel(lvl)
            lg.propagate = prop
        loop.set_task_factory(None)
    out = list(cap.lines) + lines
    f_events = [e[2:] for e in plan.events if e.startswith("F ")]
    out.append("hooks " + (" ".join(x.replace(" ", "_") for x in f_events) if f_events else "-"))
    others = [e for e in plan.events if not e.startswith("F ")]
    bad_pairs = _unbalanced(others)
    out.append(f"healthy-hooks {'ok' if not bad_pairs else 'unbalanced:' + ','.join(bad_pairs)}")
    if interrupts:
        out.append("loop-interrupted " + ",".join(interrupts))
    strays = [p for p in loop.accepted_ports if p not in plan.who]
    if strays:
        # a connection from a source port that belongs to none of this case's clients: another process of this machine
        # (loopback ports are recycled quickly when many checks run at once) talked to our server.  Whatever the server
        # logged about it (a TLS handshake error for plain-text bytes, an unknown client's hooks) is not an observation
        # of this case: run_case() runs the case again
        out.append(f"foreign-connections {len(strays)}")
    return out, plan


def _unbalanced(events: list[str]) -> list[str]:
    """healthy clients: every started generator closed, on_disconnection exactly once per completed on_connection"""
    bad = []
    for who in sorted({e.split()[0] for e in events}):
        ev = [e.split(" ", 1)[1] for e in events if e.split()[0] == who]
        starts = [e for e in ev if e.startswith("handle:start")]
        ends = [e for e in ev if e.startswith("handle:closed")]
        if len(starts) != len(ends):
            bad.append(f"{who}:gens")
        if "on_connection:done" in ev and ev.count("on_disconnection") != 1:
            bad.append(f"{who}:od={ev.count('on_disconnection')}")
    return bad


FOREIGN_RERUNS: list[str] = []       # cases run again because a foreign process connected to the server (evidence file)


def run_case(case: dict) -> list[str]:
    """canonical lines of one case; harness-side timeouts: retry once with longer bounds, then report them; a connection
    from a process that is none of ours (`foreign-connections`): the case is run again (three in a row: InfraError)"""
    last: list[str] = []
    foreign = 0
    for attempt, scale in enumerate((1.0, 4.0, 4.0, 4.0)):
        if attempt >= 2 and not foreign:
            break
        try:
            lines, plan = _run_once(case, scale)
        except HarnessTimeout:
            reset_loop()
            if attempt >= 1:
                raise core.InfraError("C17: the server did not come up (twice)")
            continue
        if any(x.startswith("foreign-connections ") for x in lines):
            foreign += 1
            FOREIGN_RERUNS.append(json.dumps(case, sort_keys=True)[:300])
            if foreign >= 3:
                raise core.InfraError("C17: a process which is none of the harness's clients connected to the server under test, three runs in a row")
            reset_loop()
            last = lines
            continue
        if not plan.timeouts:
            return lines
        last = lines + ["harness-timeouts " + ",".join(t.replace(" ", "_") for t in plan.timeouts)]
        reset_loop()
    return last
