"""
C09 environment — real TLS sessions whose ciphertext stream toward the reader is cut at a chosen byte offset.

  contexts()        real `ssl` contexts with the committed certificate (vlib/c14_certs); OP_IGNORE_UNEXPECTED_EOF cleared on the
                    reader's side unless the case says otherwise (Python >= 3.10 sets it on every new SSLContext)
  Peer              the remote side: an independent stdlib `ssl.SSLObject` over two `MemoryBIO`s driven synchronously
                    (`feed` bytes from the reader, `pump` -> bytes for the reader).  Script: handshake, then one TLS record per
                    entry of `recs` (plaintext derived from the record index), then `unwrap()` (close_notify) if `notify`.
                    It records stream offsets: end of its handshake output, end of every application record, start / end of the
                    close_notify record, and parses the 5-byte TLS record headers of everything it emitted.
  CutTransport      in-memory `AsyncStreamTransport` (EasyNetwork's public ABC) connected to a Peer in lock-step: `recv_into`
                    delivers the peer's stream in PRNG-chosen fragments until `cut` bytes have been delivered, then reports EOF
                    (returns 0) for ever; `send_all` hands the bytes to the peer.  Every call is logged.
  baseline()        offsets of a complete session of a given shape with a plain stdlib reader (no EasyNetwork code involved):
                    the reference the oracle classifies a cut against.  TLS record lengths of a given shape are deterministic
                    (fixed RSA certificate, fixed-size random fields); every run checks this against its own stream.
"""
from __future__ import annotations

import asyncio
import random
import ssl
from typing import Any

from vlib import core  # noqa: F401
from vlib import c14_env as e14
from vlib import c15_env as env

from easynetwork.lowlevel.api_async.transports import abc as tr_abc

CERT, KEY = e14.CERT, e14.KEY
HAS_OPT = hasattr(ssl, "OP_IGNORE_UNEXPECTED_EOF")


def make_context(side: str, tls: str, *, ignore_eof: bool = False) -> ssl.SSLContext:
    """side: "server" | "client";  tls: "1.2" | "1.3" """
    if side == "server":
        ctx = ssl.SSLContext(ssl.PROTOCOL_TLS_SERVER)
        ctx.load_cert_chain(CERT, KEY)
        try:
            ctx.num_tickets = 0
        except Exception:  # pragma: no cover
            pass
    else:
        ctx = ssl.create_default_context(cafile=CERT)
        ctx.check_hostname = True
    if tls == "1.2":
        ctx.maximum_version = ssl.TLSVersion.TLSv1_2
        ctx.options |= ssl.OP_NO_TICKET
    else:
        ctx.minimum_version = ssl.TLSVersion.TLSv1_3
    if HAS_OPT:
        if ignore_eof:
            ctx.options |= ssl.OP_IGNORE_UNEXPECTED_EOF
        else:
            ctx.options &= ~ssl.OP_IGNORE_UNEXPECTED_EOF
    return ctx


def payload(i: int, n: int) -> bytes:
    """plaintext of application record i (n bytes), a function of (i, n) only; never contains a line feed except as the last
    byte of a 6-byte record (so that `[6]` is one complete line for the client tests)"""
    b = bytes(((i * 37 + j * 11 + 1) % 251) + 1 for j in range(n)).replace(b"\n", b"\x0b")
    if n == 6:
        b = b[:5] + b"\n"
    return b


def parse_records(stream: bytes) -> list[tuple[int, int, int]]:
    """TLS record headers: [(content_type, start, end)], the last one may be incomplete (end > len(stream))"""
    out = []
    pos = 0
    while pos + 5 <= len(stream):
        n = int.from_bytes(stream[pos + 3:pos + 5], "big")
        out.append((stream[pos], pos, pos + 5 + n))
        pos += 5 + n
    return out


class Peer:
    """side = the PEER's own role ("server" when the reader under test is a client)."""

    def __init__(self, side: str, tls: str, recs: list[int], notify: bool = True, *, reply_close: bool = True) -> None:
        self.side = side
        self.recs = list(recs)
        self.notify = notify
        self.reply_close = reply_close
        self.inc = ssl.MemoryBIO()
        self.out = ssl.MemoryBIO()
        ctx = make_context(side, tls)
        if side == "server":
            self.obj = ctx.wrap_bio(self.inc, self.out, server_side=True)
        else:
            self.obj = ctx.wrap_bio(self.inc, self.out, server_hostname="localhost")
        self.stream = bytearray()         # everything emitted toward the reader
        self.hs_done = False
        self.hs_end: int | None = None
        self.rec_ends: list[int] = []     # stream offset after application record i
        self.cn_start: int | None = None
        self.cn_end: int | None = None
        self.sent_all = False             # the script is over: nothing more will be emitted unless the reader speaks
        self.unwrap_done = False
        self.got: list[str] = []          # what the peer read from the reader after its own script: "data n" | "close_notify" | "ragged" | "err X"
        self.got_plain = bytearray()
        self.eof_in = False
        self.silent = False               # never read / answer again (close tests)

    # -- input from the reader
    def feed(self, data: bytes) -> None:
        if data:
            self.inc.write(data)

    def feed_eof(self) -> None:
        if not self.eof_in:
            self.eof_in = True
            self.inc.write_eof()

    def _drain(self) -> None:
        if self.out.pending:
            self.stream += self.out.read()

    def pump(self) -> None:
        """advance the script as far as the input allows; appends to self.stream"""
        if self.silent:
            return
        if not self.hs_done:
            try:
                self.obj.do_handshake()
            except ssl.SSLWantReadError:
                self._drain()
                return
            except ssl.SSLError as e:
                self._drain()
                self.got.append("hs-err " + type(e).__name__)
                self.silent = True
                self.sent_all = True
                return
            self._drain()
            self.hs_done = True
            self.hs_end = len(self.stream)
            for i, n in enumerate(self.recs):
                if n:
                    self.obj.write(payload(i, n))
                    self._drain()
                self.rec_ends.append(len(self.stream))
            if self.notify:
                self.cn_start = len(self.stream)
                try:
                    self.obj.unwrap()
                    self.unwrap_done = True
                except ssl.SSLWantReadError:
                    pass
                except ssl.SSLError as e:
                    self.got.append("unwrap-err " + type(e).__name__)
                self._drain()
                self.cn_end = len(self.stream)
            self.sent_all = True
        # after the script: read what the reader says
        self.read_reader()

    def read_reader(self) -> None:
        if self.silent or not self.hs_done:
            return
        for _ in range(10000):
            if self.got and self.got[-1] in ("close_notify", "ragged") or (self.got and self.got[-1].startswith("err ")):
                break
            try:
                if self.notify and not self.unwrap_done:
                    # our close_notify is out; the reader's is awaited
                    try:
                        self.obj.unwrap()
                        self.unwrap_done = True
                        self.got.append("close_notify")
                        break
                    except ssl.SSLWantReadError:
                        break
                d = self.obj.read(65536)
                if d:
                    self.got_plain += d
                    self.got.append(f"data {len(d)}")
                else:
                    self.got.append("close_notify")
                    self._reply()
                    break
            except ssl.SSLWantReadError:
                break
            except ssl.SSLZeroReturnError:
                self.got.append("close_notify")
                self._reply()
                break
            except ssl.SSLEOFError:
                self.got.append("ragged")
                break
            except ssl.SSLError as e:
                self.got.append("err " + type(e).__name__ + ":" + str(getattr(e, "reason", "")))
                break
        self._drain()

    def _reply(self) -> None:
        if self.reply_close and not self.unwrap_done:
            self._drain()
            if self.cn_start is None:
                self.cn_start = len(self.stream)
            try:
                self.obj.unwrap()
                self.unwrap_done = True
            except ssl.SSLError:
                pass
            self._drain()
            if self.cn_end is None:
                self.cn_end = len(self.stream)

    def marks(self) -> dict[str, Any]:
        return {"hs_end": self.hs_end, "rec_ends": list(self.rec_ends), "cn_start": self.cn_start, "cn_end": self.cn_end,
                "total": len(self.stream), "records": parse_records(bytes(self.stream))}


# ------------------------------------------------------------------------------------------------------------------------
# baseline: a complete session of the same shape with a plain stdlib reader
# ------------------------------------------------------------------------------------------------------------------------

_BASE: dict[tuple, dict] = {}


def baseline(role: str, tls: str, recs: list[int], notify: bool = True) -> dict:
    """role = the READER's role.  Returns the peer's marks for a complete session + the header list."""
    key = (role, tls, tuple(recs), notify)
    if key in _BASE:
        return _BASE[key]
    peer = Peer("server" if role == "client" else "client", tls, recs, notify)
    rin, rout = ssl.MemoryBIO(), ssl.MemoryBIO()
    ctx = make_context(role, tls)
    if role == "client":
        r = ctx.wrap_bio(rin, rout, server_hostname="localhost")
    else:
        r = ctx.wrap_bio(rin, rout, server_side=True)
    done = False
    pos = 0
    for _ in range(50):
        if not done:
            try:
                r.do_handshake()
                done = True
            except ssl.SSLWantReadError:
                pass
        if rout.pending:
            peer.feed(rout.read())
        peer.pump()
        if len(peer.stream) > pos:
            rin.write(bytes(peer.stream[pos:]))
            pos = len(peer.stream)
        if done and peer.sent_all:
            break
    if not (done and peer.sent_all):
        raise core.InfraError("C09 baseline session did not complete")
    m = peer.marks()
    m["lens"] = [(t, e - s) for (t, s, e) in m["records"]]
    _BASE[key] = m
    return m


def classify(m: dict, cut: int | None) -> str:
    """class of a cut offset relative to the record structure of the complete stream `m` (from baseline)"""
    total = m["total"]
    if cut is None or cut >= total:
        return "complete"
    bounds = {e for (_, _, e) in m["records"]} | {0}
    at_boundary = cut in bounds
    if cut < m["hs_end"]:
        return "handshake/" + ("start" if cut == 0 else "between" if at_boundary else "inside")
    if m["cn_start"] is not None and cut >= m["cn_start"]:
        return "close_notify/" + ("before" if cut == m["cn_start"] else "inside")
    if m["cn_start"] is None and cut >= total:
        return "complete"
    return "data/" + ("between" if at_boundary else "inside")


MAX_FRAGMENT = 16384


def expected_plain(m: dict, recs: list[int], cut: int | None) -> bytes:
    """plaintext carried by the TLS records that lie completely before the cut (a write of more than 16384 bytes is split by
    OpenSSL into several records; each complete one is delivered)"""
    out = bytearray()
    start = m["hs_end"]
    for i, n in enumerate(recs):
        end = m["rec_ends"][i]
        sub = [r for r in m["records"] if start <= r[1] and r[2] <= end]
        k = 0
        for j, r in enumerate(sub):
            size = max(0, min(MAX_FRAGMENT, n - MAX_FRAGMENT * j))
            if cut is None or r[2] <= cut:
                k += size
        out += payload(i, n)[:k]
        start = end
    return bytes(out)


# ------------------------------------------------------------------------------------------------------------------------
# in-memory transport with a cut
# ------------------------------------------------------------------------------------------------------------------------

class CutTransport(tr_abc.AsyncStreamTransport):
    def __init__(self, peer: Peer, cut: int | None, frag_seed: int, *, max_frag: int = 4096, log: list[str] | None = None,
                 eof_after_peer: bool = True, burst: bool = False, chunks: list[int] | None = None) -> None:
        super().__init__()
        self._be = env.backend()
        self.peer = peer
        self.cut = cut
        self.rng = random.Random(frag_seed)
        self.max_frag = max_frag
        self.delivered = 0
        self.closing = False
        self.closed = False
        self.aclose_calls = 0
        self.sent = bytearray()
        self.sent_chunks: list[bytes] = []
        self.log = log if log is not None else []
        self.eof_reported = 0
        self.eof_after_peer = eof_after_peer      # report EOF once the peer's script is over and everything was delivered
        self.send_error: BaseException | None = None
        self._parked: asyncio.Future | None = None
        # delivery control (close cases with unread data): `burst` = every read of the wrapped transport returns everything that
        # is available (the peer's records written in one burst arrive in ONE transport read); `chunks` = sizes of the successive
        # reads from the end of the peer's handshake flight on (no read crosses that offset), then `burst` / the PRNG again
        self.burst = burst
        self.chunks = list(chunks) if chunks is not None else None

    def backend(self):
        return self._be

    def is_closing(self) -> bool:
        return self.closing

    @property
    def extra_attributes(self):
        return {}

    async def aclose(self) -> None:
        self.aclose_calls += 1
        self.log.append("t aclose")
        self.closing = True
        self.closed = True
        if self._parked is not None and not self._parked.done():
            self._parked.set_exception(OSError(9, "transport closed"))
        self.peer.feed_eof()
        self.peer.pump()
        await asyncio.sleep(0)

    async def send_all(self, data) -> None:
        if self.closing:
            self.log.append("t send closed")
            raise OSError(9, "transport closed")
        data = bytes(data)
        self.log.append(f"t send {len(data)}")
        if self.send_error is not None:
            await asyncio.sleep(0)
            raise self.send_error
        self.sent += data
        self.sent_chunks.append(data)
        self.peer.feed(data)
        await asyncio.sleep(0)

    async def send_eof(self) -> None:
        self.peer.feed_eof()

    def _limit(self) -> int:
        n = len(self.peer.stream)
        return n if self.cut is None else min(n, self.cut)

    async def recv_into(self, buffer) -> int:
        if self.closing:
            self.log.append("t recv closed")
            raise OSError(9, "transport closed")
        self.peer.pump()
        avail = self._limit() - self.delivered
        if avail <= 0:
            ended = (self.cut is not None and self.delivered >= self.cut) or (self.eof_after_peer and self.peer.sent_all)
            if not ended:
                # nothing to deliver and the peer waits for the reader (or stays silent): park until closed / cancelled
                self.log.append("t recv park")
                self._parked = asyncio.get_running_loop().create_future()
                try:
                    await self._parked
                finally:
                    self._parked = None
                raise OSError(9, "transport closed")  # pragma: no cover
            self.eof_reported += 1
            self.log.append("t recv 0")
            await asyncio.sleep(0)
            return 0
        with memoryview(buffer) as mv:
            mv = mv.cast("B") if mv.itemsize != 1 else mv
            n = self._pick(min(avail, mv.nbytes))
            mv[:n] = self.peer.stream[self.delivered:self.delivered + n]
        self.delivered += n
        self.log.append(f"t recv {n}")
        await asyncio.sleep(0)
        return n

    def _pick(self, room: int) -> int:
        """size of the next delivery (1 <= n <= room = min(available, buffer size))"""
        if self.chunks is not None:
            hs_end = self.peer.hs_end
            if hs_end is not None and self.delivered < hs_end:
                room = min(room, hs_end - self.delivered)
            elif hs_end is not None and self.chunks:
                return max(1, min(room, self.chunks.pop(0)))
        if self.burst:
            return room
        hi = min(room, self.max_frag)
        return self.rng.randint(1, hi) if self.rng.random() < 0.8 else hi

    async def recv(self, bufsize: int) -> bytes:
        buf = bytearray(bufsize)
        n = await self.recv_into(buf)
        return bytes(buf[:n])
