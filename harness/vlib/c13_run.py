"""
C13 — deterministic execution of cancel-scope programs on the REAL EasyNetwork asyncio backend.

* `VLoop`: a `SelectorEventLoop` whose clock is a tick counter.  One call of `turn()` = one `_run_once()`
  = one loop turn of the Lean kernel.  Clock policy (mirrored by `Model/CancelScope.lean: Loop.turn`):
    - before a turn: if no handle is ready, jump to the earliest live timer (deadlock if there is none);
    - after every turn the clock advances by one tick (so that a scope which re-delivers its cancellation every
      turn cannot freeze time);
    - timers due at the same tick fire in creation order (CPython leaves this order to `heapq`); the external
      `task.cancel()` timer goes first or last among its ties according to the case (`ext_last`).
* programs: flat list of op lines, nesting by `scope … endscope`, `shield … endshield`, `try … endtry`,
  `trye … endtrye`, `group … child … endchild … endgroup`; statement id = index of its (opening) line.
* operations that can FAIL (real side + oracle only, no Lean counterpart):
    - `fwait k`   await harness future k directly (inside `shield` the future is what `cancel_shielded_await` receives
                  as `to_yield`); future k is resolved by a timer at a scripted tick with a result or with `FutError`,
                  before or after the external cancels of the same tick (case field `futs`: [tick, "ok"|"err", first]);
                  each future is awaited by at most one statement (a cancelled unshielded await cancels the future)
    - `fail`      raise `FutError` (a task-group child that fails makes the group cancel its host task: a one-shot
                  cancellation like an external `task.cancel()`)
    - `join i`    `await Task(child i of the enclosing group).join()` (fails with the child's error, in the loop turn in
                  which the group cancels the host)
    - `trye body` `try: body except FutError: pass`
* checkpoints of the task-group / backend API as the operation at which a cancellation arrives (real side + oracle only):
    - `start body`   `await tg.start(child)` on the innermost enclosing `group`: a blocking operation of the host (one loop
                     turn when nothing interferes); `body` is the new child task's program.  Interrupted, start() cancels
                     the child, waits for it in a cancel-shielded section and re-raises
    - `soon body`    `tg.start_soon(child)` in the middle of the group's body (not a checkpoint; line `spawn`)
    - `pwait kind k` a backend primitive released by the scripted timer k of the case field `futs` ([tick, how, first]):
                     `event` (create_event().wait()), `lock` (create_lock().acquire(), held by the harness until the
                     timer), `cond` (`async with cond: await cond.wait()`, notified by the timer), `threada`
                     (`run_in_thread(f, abandon_on_cancel=True)`), `thread` (`run_in_thread(f)`: a cancel-SHIELDED wait, like
                     `syield`).  The thread pool is a fake executor whose futures the timer resolves (how = ok | err), so the
                     schedule stays deterministic.  A primitive that is already released is logged `imm` (no suspension).
    - `sleepu d`     `await backend.sleep_until(now + d)`;  `forever`  `await backend.sleep_forever()`
    - `twait i` / `joinc i`   `Task(child i).wait()` / `.join_or_cancel()` (the latter cancels the child when interrupted)
    - `tryf body finally cleanup`   `try: body finally: cleanup` (clean-up code, typically shielded, running while a
                     CancelledError is on its way out: what TaskGroup.start() does internally)
* the trace: canonical text lines, virtual ticks only.  `gcancel g t` = the asyncio.TaskGroup of `group` g cancelled its
  host task (a child failed): observed through a pass-through wrapper of asyncio.TaskGroup._on_task_done.
  `gjoin g t cc` = the body of group g ended normally, TaskGroup.__aexit__ starts waiting for the children (`gout` follows).
"""
from __future__ import annotations

import asyncio
import concurrent.futures
import heapq
import math
import threading
import warnings
from asyncio import events
from typing import Any

from . import core  # noqa: F401  (sets sys.path for the repository under test)


# start() / start_soon() on a task group that is shutting down raise before the child coroutine is ever scheduled
warnings.filterwarnings("ignore", message="coroutine .* was never awaited", category=RuntimeWarning)


class Deadlock(Exception):
    pass


# Observation only: the moment an asyncio.TaskGroup cancels its host task (a child failed).  It happens in the done
# callback of the child, one loop turn after the child's last step, before or after the host's own step of that turn;
# the oracle needs the exact position (was the host inside a shielded section then?).
_GROUP_REC: dict[int, Any] = {}
_orig_on_task_done = asyncio.TaskGroup._on_task_done


def _on_task_done(self, task):  # type: ignore[no-untyped-def]
    before = self._parent_cancel_requested
    _orig_on_task_done(self, task)
    rec = _GROUP_REC.get(id(self))
    if rec is not None and not before and self._parent_cancel_requested:
        rec()


asyncio.TaskGroup._on_task_done = _on_task_done  # type: ignore[method-assign]


class _SeqTimer(events.TimerHandle):
    __slots__ = ("_vseq",)

    def __lt__(self, other):  # heapq only uses <
        if isinstance(other, _SeqTimer):
            return (self._when, self._vseq) < (other._when, other._vseq)
        return NotImplemented


class VLoop(asyncio.SelectorEventLoop):
    def __init__(self) -> None:
        super().__init__()
        self._vnow = 0
        self._vseq = 0
        self._clock_resolution = 0.5
        self.turns = 0

    def time(self) -> float:
        return float(self._vnow)

    def call_at(self, when, callback, *args, context=None, _prio=0):
        self._check_closed()
        timer = _SeqTimer(when, callback, args, self, context)
        self._vseq += 1
        timer._vseq = (_prio, self._vseq)
        heapq.heappush(self._scheduled, timer)
        timer._scheduled = True
        return timer

    def turn(self) -> None:
        while self._scheduled and self._scheduled[0]._cancelled:
            self._timer_cancelled_count -= 1
            h = heapq.heappop(self._scheduled)
            h._scheduled = False
        if any(h._cancelled for h in self._ready):
            # cancelled handles are skipped by _run_once anyway; dropping them here keeps "nothing ready" exact
            live = [h for h in self._ready if not h._cancelled]
            self._ready.clear()
            self._ready.extend(live)
        if not self._ready:
            if not self._scheduled:
                raise Deadlock()
            self._vnow = max(self._vnow, int(self._scheduled[0]._when))
        self._run_once()
        self._vnow += 1
        self.turns += 1

    def live_handles(self) -> list[Any]:
        return [h for h in list(self._ready) + list(self._scheduled) if not h._cancelled]


class _Running:
    def __init__(self, loop: VLoop) -> None:
        self.loop = loop

    def __enter__(self):
        self.loop._check_closed()
        self.loop._thread_id = threading.get_ident()
        events._set_running_loop(self.loop)
        return self.loop

    def __exit__(self, *a):
        self.loop._thread_id = None
        events._set_running_loop(None)


# ------------------------------------------------------------------------------------------------
# program text
# ------------------------------------------------------------------------------------------------

OPEN = {"scope": "endscope", "shield": "endshield", "try": "endtry", "trye": "endtrye", "group": "endgroup",
        "child": "endchild", "start": "endstart", "soon": "endsoon", "tryf": "endtryf"}
CHILD_BLOCKS = ("child", "start", "soon")        # blocks whose body is the program of a NEW task
SHIELDED_PRIMS = ("thread",)                      # `pwait` kinds that wait inside cancel_shielded_await


def is_shielded_op(w: list[str]) -> bool:
    """operations that are cancel-shielded by themselves (they must complete; a cancellation is postponed)"""
    return w[0] == "syield" or (w[0] == "pwait" and w[1] in SHIELDED_PRIMS)


def split_finally(kids: list[Any]) -> tuple[list[Any], list[Any]]:
    """children of a `tryf` node -> (body, cleanup): the marker line `finally` separates them"""
    for i, k in enumerate(kids):
        if k[1][0] == "finally":
            return kids[:i], kids[i + 1:]
    return kids, []


class _Grp(list):
    """asyncio tasks of the `child` blocks of a task group, in order (targets of `join i`), plus the group itself"""
    tg: Any = None


class _FakeExecutor(concurrent.futures.ThreadPoolExecutor):
    """`loop.run_in_executor(None, f)` without threads: submit() hands out a concurrent future that the scripted timer
    of the primitive resolves (from the loop thread; asyncio forwards it with call_soon_threadsafe = next loop turn)"""

    def __init__(self) -> None:
        super().__init__(max_workers=1)
        self.pending: dict[int, concurrent.futures.Future] = {}
        self.resolved: dict[int, str] = {}

    def submit(self, fn, /, *args, **kwargs):  # type: ignore[override]
        k = fn.args[0].k          # fn = functools.partial(ctx.run, func, *args)  (AsyncIOBackend.run_in_thread)
        f: concurrent.futures.Future = concurrent.futures.Future()
        if k in self.resolved:
            self._set(f, self.resolved[k])
        else:
            self.pending[k] = f
        return f

    @staticmethod
    def _set(f: concurrent.futures.Future, how: str) -> None:
        if how == "err":
            f.set_exception(FutError())
        else:
            f.set_result(None)

    def resolve(self, k: int, how: str) -> bool:
        self.resolved[k] = how
        f = self.pending.pop(k, None)
        if f is not None and not f.done():
            self._set(f, how)
            return True
        return False


class Prim:
    """one scripted primitive of a `pwait kind k` statement (the kind is fixed by the statement that uses it)"""

    def __init__(self, kind: str, k: int, backend, executor: _FakeExecutor) -> None:
        self.kind, self.k = kind, k
        self.released = False
        self.executor = executor
        self.obj: Any = None
        if kind == "event":
            self.obj = backend.create_event()
        elif kind == "lock":
            self.obj = backend.create_lock()
            _drive(self.obj.acquire())            # held by the harness until the timer fires
        elif kind == "cond":
            self.obj = backend.create_condition_var()

    def release(self, how: str) -> bool:
        """the scripted timer: returns whether somebody / something was waiting"""
        self.released = True
        if self.kind == "event":
            self.obj.set()
            return True
        if self.kind == "lock":
            self.obj.release()
            return True
        if self.kind == "cond":
            _drive(self.obj.acquire())
            try:
                self.obj.notify_all()
            finally:
                self.obj.release()
            return True
        return self.executor.resolve(self.k, how)


def _drive(coro) -> None:
    """run a coroutine that must not suspend (asyncio.Lock.acquire() on a free lock)"""
    try:
        coro.send(None)
    except StopIteration:
        return
    coro.close()
    raise RuntimeError("harness: lock was not free")


class FutError(Exception):
    """the error a harness future / a `fail` statement ends with"""


def parse(lines: list[str]) -> list[Any]:
    """flat lines -> tree: each node = (id, [words], children)"""
    pos = 0

    def block(closer: str | None) -> list[Any]:
        nonlocal pos
        out = []
        while pos < len(lines):
            w = lines[pos].split()
            if closer is not None and w[0] == closer:
                pos += 1
                return out
            if w[0] in OPEN.values():
                raise ValueError(f"unexpected {w[0]} at {pos}")
            sid = pos
            pos += 1
            if w[0] in OPEN:
                out.append((sid, w, block(OPEN[w[0]])))
            else:
                out.append((sid, w, []))
        if closer is not None:
            raise ValueError(f"missing {closer}")
        return out

    return block(None)


def _cls(e: BaseException | None) -> str:
    if e is None:
        return "ok"
    if isinstance(e, asyncio.CancelledError):
        return "cancel"
    if isinstance(e, TimeoutError):
        return "timeout"
    if isinstance(e, FutError):
        return "ferr"
    if isinstance(e, RuntimeError) and ("is shutting down" in str(e) or "is finished" in str(e)):
        return "gdown"      # asyncio.TaskGroup.create_task() on a group that is aborting (a child failed / host cancelled)
    if isinstance(e, BaseExceptionGroup):
        kinds = sorted({_cls(x) for x in e.exceptions})
        return "group[" + ",".join(kinds) + "]"
    return "error:" + type(e).__name__


class Runner:
    def __init__(self, loop: VLoop, backend, out: list[str]) -> None:
        self.loop = loop
        self.backend = backend
        self.out = out
        self.ext_calls = 0
        self.futs: list[asyncio.Future] = []
        self.executor = _FakeExecutor()
        self.prims: dict[int, Prim] = {}
        self.fired: dict[int, str] = {}      # scripted timers that have fired already: k -> how

    def prim(self, kind: str, k: int) -> Prim:
        if k not in self.prims:
            self.prims[k] = Prim(kind, k, self.backend, self.executor)
            if k in self.fired:
                self.prims[k].release(self.fired[k])
        return self.prims[k]

    def now(self) -> int:
        return self.loop._vnow

    def scope_handles(self, scope) -> int:
        ident = f"Cancelled by cancel scope {id(scope):x}"
        n = 0
        for h in self.loop.live_handles():
            cb = getattr(h, "_callback", None)
            if getattr(cb, "__self__", None) is scope:
                n += 1
            elif any(a == ident for a in (h._args or ())):
                n += 1
        return n

    async def block(self, stmts, scopes: list, children: list | None = None) -> None:
        for st in stmts:
            await self.stmt(st, scopes, children)

    def _cc(self, scopes: list) -> str:
        return "".join("1" if s.cancel_called() else "0" for s in reversed(scopes)) or "-"

    async def _blocking(self, sid: int, scopes: list, aw, inner_cancelled=None) -> None:
        self.out.append(f"blk {sid} {self.now()} {self._cc(scopes)}")
        try:
            await aw
        except asyncio.CancelledError:
            if inner_cancelled is not None and inner_cancelled():
                # the awaited thing itself ended cancelled (join() of a child the group aborted): not an interruption
                self.out.append(f"icancel {sid} {self.now()}")
            else:
                self.out.append(f"exc {sid} {self.now()}")
            raise
        except Exception as e:
            # the operation's own failure (harness future, join() of a child that failed), not an interruption
            self.out.append(f"err {sid} {self.now()} {_cls(e)}")
            raise
        self.out.append(f"ret {sid} {self.now()}")

    async def _immediate(self, sid: int, fut) -> None:
        # awaiting something already done does not suspend: not a blocking operation, not a checkpoint
        bad = (not fut.cancelled()) and fut.exception() is not None
        self.out.append(f"imm {sid} {self.now()} {'cancel' if fut.cancelled() else 'err' if bad else 'ok'}")
        await fut

    async def stmt(self, st, scopes: list, children: list | None = None) -> None:
        sid, w, kids = st
        b = self.backend
        op = w[0]
        if op == "sleep":
            await self._blocking(sid, scopes, b.sleep(int(w[1])))
        elif op == "yield":
            await self._blocking(sid, scopes, b.coro_yield())
        elif op == "syield":
            await self._blocking(sid, scopes, b.cancel_shielded_coro_yield())
        elif op == "cancel":
            scopes[-1 - int(w[1])].cancel()
            self.out.append(f"do {sid} {self.now()}")
        elif op == "resched":
            d = math.inf if w[2] == "inf" else b.current_time() + int(w[2])
            scopes[-1 - int(w[1])].reschedule(d)
            self.out.append(f"do {sid} {self.now()}")
        elif op == "scope":
            await self.scope(sid, w, kids, scopes, children)
        elif op == "shield":
            self.out.append(f"sin {sid} {self.now()}")
            try:
                # the shielded body runs in the same task; scopes opened outside stay visible to cancel/resched
                await b.ignore_cancellation(self.block(kids, scopes, children))
            except BaseException as e:
                self.out.append(f"sout {sid} {self.now()} {_cls(e)}")
                raise
            self.out.append(f"sout {sid} {self.now()} ok")
        elif op == "try":
            try:
                await self.block(kids, scopes, children)
            except asyncio.CancelledError:
                self.out.append(f"swallow {sid} {self.now()}")
        elif op == "trye":
            try:
                await self.block(kids, scopes, children)
            except FutError:
                self.out.append(f"caught {sid} {self.now()}")
        elif op == "fwait":
            fut = self.futs[int(w[1])]
            if fut.done():
                await self._immediate(sid, fut)
            else:
                await self._blocking(sid, scopes, fut)
        elif op == "fail":
            self.out.append(f"raise {sid} {self.now()}")
            raise FutError()
        elif op == "join":
            from easynetwork.lowlevel.api_async.backend._asyncio.tasks import Task

            ct = children[int(w[1])]
            if ct.done():
                await self._immediate(sid, ct)
            else:
                await self._blocking(sid, scopes, Task(ct).join(), ct.cancelled)
        elif op == "group":
            await self.group(sid, kids, scopes)
        elif op == "start":
            if children is None or children.tg is None:
                raise ValueError("start outside a task group")
            await self._blocking(sid, scopes, children.tg.start(self.child, st))
        elif op == "soon":
            if children is None or children.tg is None:
                raise ValueError("soon outside a task group")
            try:
                children.tg.start_soon(self.child, st)
            except RuntimeError as e:
                self.out.append(f"err {sid} {self.now()} {_cls(e)}")
                raise
            self.out.append(f"spawn {sid} {self.now()}")
        elif op == "pwait":
            await self.pwait(sid, w[1], int(w[2]), scopes)
        elif op == "sleepu":
            await self._blocking(sid, scopes, b.sleep_until(b.current_time() + int(w[1])))
        elif op == "forever":
            await self._blocking(sid, scopes, b.sleep_forever())
        elif op in ("twait", "joinc"):
            from easynetwork.lowlevel.api_async.backend._asyncio.tasks import Task

            ct = children[int(w[1])]
            if ct.done():
                if op == "twait":
                    self.out.append(f"imm {sid} {self.now()} ok")
                else:
                    await self._immediate(sid, ct)
            elif op == "twait":
                await self._blocking(sid, scopes, Task(ct).wait())
            else:
                await self._blocking(sid, scopes, Task(ct).join_or_cancel(), ct.cancelled)
        elif op == "tryf":
            body, cleanup = split_finally(kids)
            try:
                await self.block(body, scopes, children)
            finally:
                self.out.append(f"fin {sid} {self.now()}")
                await self.block(cleanup, scopes, children)
        else:
            raise ValueError(f"bad op {w}")

    async def pwait(self, sid: int, kind: str, k: int, scopes: list) -> None:
        b = self.backend
        pr = self.prim(kind, k)
        if kind == "event":
            if pr.obj.is_set():
                self.out.append(f"imm {sid} {self.now()} ok")
            await self._maybe(sid, scopes, pr.obj.wait(), pr.obj.is_set())
        elif kind == "lock":
            free = not pr.obj.locked()
            if free:
                self.out.append(f"imm {sid} {self.now()} ok")
            await self._maybe(sid, scopes, pr.obj.acquire(), free)
            pr.obj.release()
        elif kind == "cond":
            if pr.released:
                # the notification came before the wait: nothing to wait for (a real program would test its predicate)
                self.out.append(f"imm {sid} {self.now()} ok")
                return

            async def cond_wait() -> None:
                async with pr.obj:
                    await pr.obj.wait()

            await self._blocking(sid, scopes, cond_wait())
        elif kind in ("thread", "threada"):
            def work() -> None:        # never runs: the fake executor resolves the future from the script
                return None

            work.k = k  # type: ignore[attr-defined]
            await self._blocking(sid, scopes, b.run_in_thread(work, abandon_on_cancel=(kind == "threada")))
        else:
            raise ValueError(f"bad primitive {kind}")

    async def _maybe(self, sid: int, scopes: list, aw, immediate: bool) -> None:
        if immediate:
            await aw
        else:
            await self._blocking(sid, scopes, aw)

    async def scope(self, sid: int, w: list[str], kids, scopes: list, children: list | None = None) -> None:
        b = self.backend
        kind, dl, pre = w[1], w[2], w[3] == "1"
        delay = math.inf if dl == "inf" else int(dl)
        task = asyncio.current_task()
        if kind == "t":
            cm = b.timeout(delay)
            scope = cm.scope
        else:
            cm = scope = b.move_on_after(delay)
        if pre:
            scope.cancel()
        reached = "ok"
        try:
            with cm:
                self.out.append(f"enter {sid} {self.now()} {task.cancelling()}")
                try:
                    await self.block(kids, scopes + [scope], children)
                except BaseException as e:
                    reached = _cls(e)
                    raise
        except BaseException as e:
            self.out.append(self._exit_line(sid, scope, scopes, task, reached, _cls(e)))
            raise
        self.out.append(self._exit_line(sid, scope, scopes, task, reached, "ok"))

    def _exit_line(self, sid, scope, scopes, task, reached, out) -> str:
        return (f"exit {sid} {self.now()} in={reached} out={out} called={int(scope.cancel_called())} "
                f"caught={int(scope.cancelled_caught())} cancelling={task.cancelling()} handles={self.scope_handles(scope)} "
                f"pc={self._cc(scopes)}")

    async def group(self, sid: int, kids, scopes: list) -> None:
        # children = the `child` blocks, started in order with start_soon; the other statements form the body
        b = self.backend
        self.out.append(f"gin {sid} {self.now()}")
        try:
            async with b.create_task_group() as tg:
                children = _Grp()        # asyncio tasks of the `child` blocks, in order (for `join i`)
                children.tg = tg
                atg = getattr(tg, "_TaskGroup__asyncio_tg", None)
                if atg is not None:
                    _GROUP_REC[id(atg)] = lambda: self.out.append(f"gcancel {sid} {self.now()}")
                for k in kids:
                    if k[1][0] == "child":
                        before = asyncio.all_tasks(self.loop)
                        tg.start_soon(self.child, k)
                        children.extend(asyncio.all_tasks(self.loop) - before)
                await self.block([k for k in kids if k[1][0] != "child"], scopes, children)
                # the body is over: TaskGroup.__aexit__ now waits for the children (a checkpoint iff some are pending)
                self.out.append(f"gjoin {sid} {self.now()} {self._cc(scopes)}")
        except BaseException as e:
            self.out.append(f"gout {sid} {self.now()} {_cls(e)}")
            raise
        self.out.append(f"gout {sid} {self.now()} ok")

    async def child(self, st) -> None:
        sid, w, kids = st
        task = asyncio.current_task()
        self.out.append(f"cin {sid} {self.now()}")
        try:
            await self.block(kids, [])       # (a child task has no group of its own: `start`/`join` refer to none)
        except BaseException as e:
            self.out.append(f"cout {sid} {self.now()} {_cls(e)} {task.cancelling()}")
            raise
        self.out.append(f"cout {sid} {self.now()} ok {task.cancelling()}")


def run_program(lines: list[str], ext: list[int], ext_last: bool = False, max_turns: int = 3000,
                futs: list | None = None) -> list[str]:
    from easynetwork.lowlevel.api_async.backend._asyncio.backend import AsyncIOBackend

    tree = parse(lines)
    out: list[str] = []
    loop = VLoop()
    try:
        with _Running(loop):
            backend = AsyncIOBackend()
            r = Runner(loop, backend, out)
            loop._default_executor = r.executor      # run_in_thread() -> loop.run_in_executor(None, …): no real thread
            prim_keys = {int(ln.split()[2]) for ln in lines if ln.startswith("pwait ")}
            task = loop.create_task(r.block(tree, []))

            def ext_cancel() -> None:
                out.append(f"ext {loop._vnow} {int(task.done())}")
                task.cancel()

            def resolve(k: int, how: str) -> None:
                if k in prim_keys:
                    r.fired[k] = how
                    pr = r.prims.get(k)
                    out.append(f"fut {k} {loop._vnow} {how} {int(pr.release(how)) if pr is not None else 0}")
                    return
                f = r.futs[k]
                out.append(f"fut {k} {loop._vnow} {how} {int(not f.done())}")
                if not f.done():
                    if how == "err":
                        f.set_exception(FutError())
                        f.exception()      # mark retrieved: no "never retrieved" noise if nobody awaits it
                    else:
                        f.set_result(None)

            for k, (t, how, first) in enumerate(futs or []):
                f = loop.create_future()
                r.futs.append(f)
                # before (-2) or after (+2) every external cancel of the same tick: same loop turn either way
                loop.call_at(t, resolve, k, how, _prio=-2 if first else 2)

            for t in ext:
                loop.call_at(t, ext_cancel, _prio=1 if ext_last else -1)
            try:
                while not task.done():
                    if loop.turns >= max_turns:
                        out.append("overrun")
                        break
                    loop.turn()
            except Deadlock:
                out.append(f"deadlock {loop._vnow}")
            if task.done():
                if task.cancelled():
                    res = "cancel"
                else:
                    res = _cls(task.exception())
                # handles still alive that belong to the scope machinery (anything but the external timers)
                left = [h for h in loop.live_handles() if getattr(h, "_callback", None) not in (ext_cancel, resolve)]
                names = sorted(n for n in (_hname(h) for h in left) if n.startswith("cs."))
                out.append(f"end {loop._vnow} {res} cancelling={task.cancelling()} left={','.join(names) or '-'}")
            else:
                task.cancel()
                for _ in range(50):
                    if task.done():
                        break
                    try:
                        loop.turn()
                    except Deadlock:
                        break
                if task.done() and not task.cancelled():
                    task.exception()
    finally:
        _GROUP_REC.clear()
        try:
            # drain silently
            loop._ready.clear()
            loop._scheduled.clear()
        finally:
            loop.close()
    return list(out)      # (a copy: coroutines of a run that hung are closed at garbage collection and would append to it)


def _hname(h) -> str:
    cb = getattr(h, "_callback", None)
    n = getattr(cb, "__qualname__", None) or getattr(cb, "__name__", None) or type(cb).__name__
    return n.replace("_CancelScope__", "").replace("CancelScope.", "cs.")
