"""
C13 — deterministic execution of cancel-scope programs on the REAL EasyNetwork asyncio backend.

* `VLoop`: a `SelectorEventLoop` whose clock is a tick counter.  One call of `turn()` = one `_run_once()`
  = one loop turn of the Lean kernel.  Clock policy (mirrored by `Model/CancelScope.lean: Loop.turn`):
    - before a turn: if no handle is ready, jump to the earliest live timer (deadlock if there is none);
    - after every turn the clock advances by one tick (so that a scope which re-delivers its cancellation every
      turn cannot freeze time);
    - timers due at the same tick fire in creation order (CPython leaves this order to `heapq`); the external
      `task.cancel()` timer goes first or last among its ties according to the case (`ext_last`).
* programs: flat list of op lines, nesting by `scope … endscope`, `shield … endshield`, `try … endtry`,
  `trye … endtrye`, `group … child … endchild … endgroup`; statement id = index of its (opening) line.
* operations that can FAIL (real side + oracle only, no Lean counterpart):
    - `fwait k`   await harness future k directly (inside `shield` the future is what `cancel_shielded_await` receives
                  as `to_yield`); future k is resolved by a timer at a scripted tick with a result or with `FutError`,
                  before or after the external cancels of the same tick (case field `futs`: [tick, "ok"|"err", first]);
                  each future is awaited by at most one statement (a cancelled unshielded await cancels the future)
    - `fail`      raise `FutError` (a task-group child that fails makes the group cancel its host task: a one-shot
                  cancellation like an external `task.cancel()`)
    - `join i`    `await Task(child i of the enclosing group).join()` (fails with the child's error, in the loop turn in
                  which the group cancels the host)
    - `trye body` `try: body except FutError: pass`
* the trace: canonical text lines, virtual ticks only.
"""
from __future__ import annotations

import asyncio
import heapq
import math
import threading
from asyncio import events
from typing import Any

from . import core  # noqa: F401  (sets sys.path for the repository under test)


class Deadlock(Exception):
    pass


class _SeqTimer(events.TimerHandle):
    __slots__ = ("_vseq",)

    def __lt__(self, other):  # heapq only uses <
        if isinstance(other, _SeqTimer):
            return (self._when, self._vseq) < (other._when, other._vseq)
        return NotImplemented


class VLoop(asyncio.SelectorEventLoop):
    def __init__(self) -> None:
        super().__init__()
        self._vnow = 0
        self._vseq = 0
        self._clock_resolution = 0.5
        self.turns = 0

    def time(self) -> float:
        return float(self._vnow)

    def call_at(self, when, callback, *args, context=None, _prio=0):
        self._check_closed()
        timer = _SeqTimer(when, callback, args, self, context)
        self._vseq += 1
        timer._vseq = (_prio, self._vseq)
        heapq.heappush(self._scheduled, timer)
        timer._scheduled = True
        return timer

    def turn(self) -> None:
        while self._scheduled and self._scheduled[0]._cancelled:
            self._timer_cancelled_count -= 1
            h = heapq.heappop(self._scheduled)
            h._scheduled = False
        if any(h._cancelled for h in self._ready):
            # cancelled handles are skipped by _run_once anyway; dropping them here keeps "nothing ready" exact
            live = [h for h in self._ready if not h._cancelled]
            self._ready.clear()
            self._ready.extend(live)
        if not self._ready:
            if not self._scheduled:
                raise Deadlock()
            self._vnow = max(self._vnow, int(self._scheduled[0]._when))
        self._run_once()
        self._vnow += 1
        self.turns += 1

    def live_handles(self) -> list[Any]:
        return [h for h in list(self._ready) + list(self._scheduled) if not h._cancelled]


class _Running:
    def __init__(self, loop: VLoop) -> None:
        self.loop = loop

    def __enter__(self):
        self.loop._check_closed()
        self.loop._thread_id = threading.get_ident()
        events._set_running_loop(self.loop)
        return self.loop

    def __exit__(self, *a):
        self.loop._thread_id = None
        events._set_running_loop(None)


# ------------------------------------------------------------------------------------------------
# program text
# ------------------------------------------------------------------------------------------------

OPEN = {"scope": "endscope", "shield": "endshield", "try": "endtry", "trye": "endtrye", "group": "endgroup",
        "child": "endchild"}


class FutError(Exception):
    """the error a harness future / a `fail` statement ends with"""


def parse(lines: list[str]) -> list[Any]:
    """flat lines -> tree: each node = (id, [words], children)"""
    pos = 0

    def block(closer: str | None) -> list[Any]:
        nonlocal pos
        out = []
        while pos < len(lines):
            w = lines[pos].split()
            if closer is not None and w[0] == closer:
                pos += 1
                return out
            if w[0] in OPEN.values():
                raise ValueError(f"unexpected {w[0]} at {pos}")
            sid = pos
            pos += 1
            if w[0] in OPEN:
                out.append((sid, w, block(OPEN[w[0]])))
            else:
                out.append((sid, w, []))
        if closer is not None:
            raise ValueError(f"missing {closer}")
        return out

    return block(None)


def _cls(e: BaseException | None) -> str:
    if e is None:
        return "ok"
    if isinstance(e, asyncio.CancelledError):
        return "cancel"
    if isinstance(e, TimeoutError):
        return "timeout"
    if isinstance(e, FutError):
        return "ferr"
    if isinstance(e, BaseExceptionGroup):
        kinds = sorted({_cls(x) for x in e.exceptions})
        return "group[" + ",".join(kinds) + "]"
    return "error:" + type(e).__name__


class Runner:
    def __init__(self, loop: VLoop, backend, out: list[str]) -> None:
        self.loop = loop
        self.backend = backend
        self.out = out
        self.ext_calls = 0
        self.futs: list[asyncio.Future] = []

    def now(self) -> int:
        return self.loop._vnow

    def scope_handles(self, scope) -> int:
        ident = f"Cancelled by cancel scope {id(scope):x}"
        n = 0
        for h in self.loop.live_handles():
            cb = getattr(h, "_callback", None)
            if getattr(cb, "__self__", None) is scope:
                n += 1
            elif any(a == ident for a in (h._args or ())):
                n += 1
        return n

    async def block(self, stmts, scopes: list, children: list | None = None) -> None:
        for st in stmts:
            await self.stmt(st, scopes, children)

    def _cc(self, scopes: list) -> str:
        return "".join("1" if s.cancel_called() else "0" for s in reversed(scopes)) or "-"

    async def _blocking(self, sid: int, scopes: list, aw, inner_cancelled=None) -> None:
        self.out.append(f"blk {sid} {self.now()} {self._cc(scopes)}")
        try:
            await aw
        except asyncio.CancelledError:
            if inner_cancelled is not None and inner_cancelled():
                # the awaited thing itself ended cancelled (join() of a child the group aborted): not an interruption
                self.out.append(f"icancel {sid} {self.now()}")
            else:
                self.out.append(f"exc {sid} {self.now()}")
            raise
        except Exception as e:
            # the operation's own failure (harness future, join() of a child that failed), not an interruption
            self.out.append(f"err {sid} {self.now()} {_cls(e)}")
            raise
        self.out.append(f"ret {sid} {self.now()}")

    async def _immediate(self, sid: int, fut) -> None:
        # awaiting something already done does not suspend: not a blocking operation, not a checkpoint
        bad = (not fut.cancelled()) and fut.exception() is not None
        self.out.append(f"imm {sid} {self.now()} {'cancel' if fut.cancelled() else 'err' if bad else 'ok'}")
        await fut

    async def stmt(self, st, scopes: list, children: list | None = None) -> None:
        sid, w, kids = st
        b = self.backend
        op = w[0]
        if op == "sleep":
            await self._blocking(sid, scopes, b.sleep(int(w[1])))
        elif op == "yield":
            await self._blocking(sid, scopes, b.coro_yield())
        elif op == "syield":
            await self._blocking(sid, scopes, b.cancel_shielded_coro_yield())
        elif op == "cancel":
            scopes[-1 - int(w[1])].cancel()
            self.out.append(f"do {sid} {self.now()}")
        elif op == "resched":
            d = math.inf if w[2] == "inf" else b.current_time() + int(w[2])
            scopes[-1 - int(w[1])].reschedule(d)
            self.out.append(f"do {sid} {self.now()}")
        elif op == "scope":
            await self.scope(sid, w, kids, scopes, children)
        elif op == "shield":
            self.out.append(f"sin {sid} {self.now()}")
            try:
                # the shielded body runs in the same task; scopes opened outside stay visible to cancel/resched
                await b.ignore_cancellation(self.block(kids, scopes, children))
            except BaseException as e:
                self.out.append(f"sout {sid} {self.now()} {_cls(e)}")
                raise
            self.out.append(f"sout {sid} {self.now()} ok")
        elif op == "try":
            try:
                await self.block(kids, scopes, children)
            except asyncio.CancelledError:
                self.out.append(f"swallow {sid} {self.now()}")
        elif op == "trye":
            try:
                await self.block(kids, scopes, children)
            except FutError:
                self.out.append(f"caught {sid} {self.now()}")
        elif op == "fwait":
            fut = self.futs[int(w[1])]
            if fut.done():
                await self._immediate(sid, fut)
            else:
                await self._blocking(sid, scopes, fut)
        elif op == "fail":
            self.out.append(f"raise {sid} {self.now()}")
            raise FutError()
        elif op == "join":
            from easynetwork.lowlevel.api_async.backend._asyncio.tasks import Task

            ct = children[int(w[1])]
            if ct.done():
                await self._immediate(sid, ct)
            else:
                await self._blocking(sid, scopes, Task(ct).join(), ct.cancelled)
        elif op == "group":
            await self.group(sid, kids, scopes)
        else:
            raise ValueError(f"bad op {w}")

    async def scope(self, sid: int, w: list[str], kids, scopes: list, children: list | None = None) -> None:
        b = self.backend
        kind, dl, pre = w[1], w[2], w[3] == "1"
        delay = math.inf if dl == "inf" else int(dl)
        task = asyncio.current_task()
        if kind == "t":
            cm = b.timeout(delay)
            scope = cm.scope
        else:
            cm = scope = b.move_on_after(delay)
        if pre:
            scope.cancel()
        reached = "ok"
        try:
            with cm:
                self.out.append(f"enter {sid} {self.now()} {task.cancelling()}")
                try:
                    await self.block(kids, scopes + [scope], children)
                except BaseException as e:
                    reached = _cls(e)
                    raise
        except BaseException as e:
            self.out.append(self._exit_line(sid, scope, scopes, task, reached, _cls(e)))
            raise
        self.out.append(self._exit_line(sid, scope, scopes, task, reached, "ok"))

    def _exit_line(self, sid, scope, scopes, task, reached, out) -> str:
        return (f"exit {sid} {self.now()} in={reached} out={out} called={int(scope.cancel_called())} "
                f"caught={int(scope.cancelled_caught())} cancelling={task.cancelling()} handles={self.scope_handles(scope)} "
                f"pc={self._cc(scopes)}")

    async def group(self, sid: int, kids, scopes: list) -> None:
        # children = the `child` blocks, started in order with start_soon; the other statements form the body
        b = self.backend
        self.out.append(f"gin {sid} {self.now()}")
        try:
            async with b.create_task_group() as tg:
                children: list = []      # asyncio tasks of the `child` blocks, in order (for `join i`)
                for k in kids:
                    if k[1][0] == "child":
                        before = asyncio.all_tasks(self.loop)
                        tg.start_soon(self.child, k)
                        children.extend(asyncio.all_tasks(self.loop) - before)
                await self.block([k for k in kids if k[1][0] != "child"], scopes, children)
        except BaseException as e:
            self.out.append(f"gout {sid} {self.now()} {_cls(e)}")
            raise
        self.out.append(f"gout {sid} {self.now()} ok")

    async def child(self, st) -> None:
        sid, w, kids = st
        task = asyncio.current_task()
        self.out.append(f"cin {sid} {self.now()}")
        try:
            await self.block(kids, [])
        except BaseException as e:
            self.out.append(f"cout {sid} {self.now()} {_cls(e)} {task.cancelling()}")
            raise
        self.out.append(f"cout {sid} {self.now()} ok {task.cancelling()}")


def run_program(lines: list[str], ext: list[int], ext_last: bool = False, max_turns: int = 3000,
                futs: list | None = None) -> list[str]:
    from easynetwork.lowlevel.api_async.backend._asyncio.backend import AsyncIOBackend

    tree = parse(lines)
    out: list[str] = []
    loop = VLoop()
    try:
        with _Running(loop):
            backend = AsyncIOBackend()
            r = Runner(loop, backend, out)
            task = loop.create_task(r.block(tree, []))

            def ext_cancel() -> None:
                out.append(f"ext {loop._vnow} {int(task.done())}")
                task.cancel()

            def resolve(k: int, how: str) -> None:
                f = r.futs[k]
                out.append(f"fut {k} {loop._vnow} {how} {int(not f.done())}")
                if not f.done():
                    if how == "err":
                        f.set_exception(FutError())
                        f.exception()      # mark retrieved: no "never retrieved" noise if nobody awaits it
                    else:
                        f.set_result(None)

            for k, (t, how, first) in enumerate(futs or []):
                f = loop.create_future()
                r.futs.append(f)
                # before (-2) or after (+2) every external cancel of the same tick: same loop turn either way
                loop.call_at(t, resolve, k, how, _prio=-2 if first else 2)

            for t in ext:
                loop.call_at(t, ext_cancel, _prio=1 if ext_last else -1)
            try:
                while not task.done():
                    if loop.turns >= max_turns:
                        out.append("overrun")
                        break
                    loop.turn()
            except Deadlock:
                out.append(f"deadlock {loop._vnow}")
            if task.done():
                if task.cancelled():
                    res = "cancel"
                else:
                    res = _cls(task.exception())
                # handles still alive that belong to the scope machinery (anything but the external timers)
                left = [h for h in loop.live_handles() if getattr(h, "_callback", None) not in (ext_cancel, resolve)]
                names = sorted(n for n in (_hname(h) for h in left) if n.startswith("cs."))
                out.append(f"end {loop._vnow} {res} cancelling={task.cancelling()} left={','.join(names) or '-'}")
            else:
                task.cancel()
                for _ in range(50):
                    if task.done():
                        break
                    try:
                        loop.turn()
                    except Deadlock:
                        break
                if task.done() and not task.cancelled():
                    task.exception()
    finally:
        try:
            # drain silently
            loop._ready.clear()
            loop._scheduled.clear()
        finally:
            loop.close()
    return out


def _hname(h) -> str:
    cb = getattr(h, "_callback", None)
    n = getattr(cb, "__qualname__", None) or getattr(cb, "__name__", None) or type(cb).__name__
    return n.replace("_CancelScope__", "").replace("CancelScope.", "cs.")
