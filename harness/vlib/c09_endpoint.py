"""
C09 — the layers ABOVE the TLS transports: what does a READER THAT READS AGAIN get after a truncated TLS stream?

The other case kinds observe the transport (`recv()` / `recv_into()`: first terminal result + two more calls).  An application
does not read there: it reads packets from an endpoint or a client, and those layers keep state of their own between two calls
(an end-of-stream flag, a consumer holding a partial packet, an error conversion, an iterator, a receive lock handed from one
task / thread to the next).  Here the reader is

  layer "ep"      AsyncStreamEndpoint / StreamEndpoint                    (lowlevel/api_{async,sync}/endpoints/stream.py)
  layer "rx"      AsyncStreamReceiverEndpoint / StreamReceiverEndpoint
  layer "client"  AsyncTCPNetworkClient / TCPNetworkClient  (ssl=<a context> or ssl=True: the library builds the context)

over the REAL TLS transport (tr "async": AsyncTLSStreamTransport over c09_env.CutTransport in lock-step with an independent
stdlib peer, virtual-time loop, the asynchronous client gets the in-memory transport from a harness backend whose
`create_tcp_connection()` returns it; tr "sync": SSLStreamTransport over a socketpair — clients: a loopback TCP connection — with
the feeder thread of c09_sync), with `StreamProtocol` (`transport.recv()` path) or `BufferedStreamProtocol` (`recv_into()` path).
The peer writes one TLS record per entry of `recs`; the plaintext stream is cut into packets by the serializer ("line": a 6-byte
record is one complete line, any other size is a piece of a line; "fixed:<n>": packets of n bytes) — so a record carries 0..k
complete packets plus possibly an incomplete one, and the cut falls with or without partial packet data in the consumer.

case = {"kind": "endpoint", "tr": "async"|"sync", "layer": "ep"|"rx"|"client", "proto": "stream"|"buffered",
        "ser": "line"|"fixed:<n>", "role": "client"|"server" (clients: "client"), "tls": "1.2"|"1.3", "recs": [sizes],
        "notify": bool, "cut": offset|None, "sc": true|false|null (null = parameter OMITTED; clients only),
        "ctx": "own"|"default" (clients: ssl=<harness context> | ssl=True), "mrs": max_recv_size, "again": k (reads after the
        first terminal result), "how": "recv" (recv_packet() again and again) | "handoff" (a SECOND task / thread makes the later
        reads after the first reader failed and ended) | "race" (clients: two tasks / threads read at the same time: the second
        one waits for the receive lock and takes over) | "iter" (clients: iter_received_packets(); after the iterator ended:
        the same iterator again, new iterators, finally recv_packet()), "frag": seed, "max_frag": n}

lines   hs ok | hs exc:<Class>
        ctl <signature>             what the SAME configuration reports at a CLEAN end-of-stream (control session: nothing cut,
                                    the peer's close_notify delivered completely); ctl-marks … = the control stream's offsets
        p <hex>                     a packet;   late-p <hex>  a packet after a terminal result
        t <signature>               a terminal result (not a packet): signature = Class(errno,message) <- cause/context chain
        bit-before / bit-after      (ctx default) OP_IGNORE_UNEXPECTED_EOF on the context the constructor built
        close ok | close exc:<Class>
No wall-clock criterion: blocking calls have the 40 s limit of c09_sync, its expiry is an `infra-timeout` line (retried, then an
infrastructure error), never a verdict.
"""
from __future__ import annotations

import asyncio
import math
import os
import re
import socket
import ssl
import threading
from typing import Any

from vlib import core
from vlib import c09_env as e9
from vlib import c09_sync as s9
from vlib import c15_env as env
from vlib import sers

from easynetwork.lowlevel.api_async.backend._asyncio.backend import AsyncIOBackend
from easynetwork.lowlevel.api_async.endpoints.stream import AsyncStreamEndpoint, AsyncStreamReceiverEndpoint
from easynetwork.lowlevel.api_async.transports.tls import AsyncTLSStreamTransport
from easynetwork.lowlevel.api_sync.endpoints.stream import StreamEndpoint, StreamReceiverEndpoint
from easynetwork.lowlevel.api_sync.transports.socket import SSLStreamTransport
from easynetwork.lowlevel.socket import INETSocketAttribute
from easynetwork.protocol import BufferedStreamProtocol, StreamProtocol

LIMIT = s9.LIMIT
OPT = getattr(ssl, "OP_IGNORE_UNEXPECTED_EOF", 0)


# ------------------------------------------------------------------------------------------------------------------------
# packets
# ------------------------------------------------------------------------------------------------------------------------

def _fixed(ser: str) -> int | None:
    return int(ser.split(":", 1)[1]) if ser.startswith("fixed:") else None


def make_protocol(case: dict):
    n = _fixed(case.get("ser", "line"))
    s = sers.RawFixed(n) if n else sers.RawAutoSep(b"\n")
    return BufferedStreamProtocol(s) if case.get("proto", "stream") == "buffered" else StreamProtocol(s)


def split_packets(ser: str, plain: bytes) -> tuple[list[bytes], bytes]:
    """(complete packets, incomplete rest) of a plaintext prefix — harness-side framing, independent of the library"""
    n = _fixed(ser)
    if n:
        k = len(plain) // n
        return [plain[i * n:(i + 1) * n] for i in range(k)], plain[k * n:]
    parts = plain.split(b"\n")
    return parts[:-1], parts[-1]


def _peer_side(role: str) -> str:
    return "server" if role == "client" else "client"


# ------------------------------------------------------------------------------------------------------------------------
# exception signatures
# ------------------------------------------------------------------------------------------------------------------------

_ADDR = re.compile(r"0x[0-9a-fA-F]+")


def _one(e: BaseException) -> str:
    msg = _ADDR.sub("0x?", str(e)).replace("\n", " ")
    return f"{type(e).__name__}({getattr(e, 'errno', None)},{msg})"


def signature(e: BaseException) -> str:
    """class, errno, message of the exception and of everything on its __cause__ / __context__ chain"""
    out = []
    seen = 0
    cur: BaseException | None = e
    while cur is not None and seen < 8:
        out.append(_one(cur))
        cur = cur.__cause__ or (None if cur.__suppress_context__ else cur.__context__)
        seen += 1
    return " <- ".join(out)


def has_tls_error(sig: str) -> bool:
    return any(part.startswith("SSL") for part in sig.split(" <- "))


def _head(sig: str) -> str:
    """outermost exception of a signature, the iterator's StopIteration / StopAsyncIteration wrapper left aside"""
    parts = sig.split(" <- ")
    if len(parts) > 1 and parts[0].startswith(("StopIteration(", "StopAsyncIteration(")):
        parts = parts[1:]
    return parts[0]


# ------------------------------------------------------------------------------------------------------------------------
# contexts
# ------------------------------------------------------------------------------------------------------------------------

class _Patch:
    """`ssl.create_default_context` replaced, in this process only, by a wrapper that calls the original, adds the committed test
    CA, turns OP_IGNORE_UNEXPECTED_EOF ON (the adversarial default: what CPython documents for new contexts) and remembers the
    object: the constructor's own logic then runs unchanged on it (same device as vlib/c09_client)"""

    def __enter__(self):
        self.orig = ssl.create_default_context
        self.made: list[tuple[ssl.SSLContext, int]] = []
        # (load_default_certs() of the original reads the system CA bundle, 30 ms per call: point OpenSSL's default verify paths
        #  at the test CA for the duration of the constructor call)
        self.env = {k: os.environ.get(k) for k in ("SSL_CERT_FILE", "SSL_CERT_DIR")}
        os.environ["SSL_CERT_FILE"] = e9.CERT
        os.environ["SSL_CERT_DIR"] = "/nonexistent"

        def create_default_context(*a, **kw):
            ctx = self.orig(*a, **kw)
            ctx.load_verify_locations(e9.CERT)
            if OPT:
                ctx.options |= OPT
            self.made.append((ctx, int(ctx.options)))
            return ctx

        ssl.create_default_context = create_default_context  # type: ignore[assignment]
        return self

    def __exit__(self, *a):
        ssl.create_default_context = self.orig  # type: ignore[assignment]
        for k, v in self.env.items():
            if v is None:
                os.environ.pop(k, None)
            else:
                os.environ[k] = v


def _bit_lines(made: list[tuple[ssl.SSLContext, int]]) -> list[str]:
    out = [f"ctx-created {len(made)}"]
    if made:
        ctx, before = made[0]
        out += [f"bit-before {int(bool(before & OPT))}", f"bit-after {int(bool(int(ctx.options) & OPT))}"]
    return out


def _sc_kw(case: dict, name: str) -> dict[str, Any]:
    sc = case.get("sc", True)
    return {} if sc is None else {name: bool(sc)}


# ------------------------------------------------------------------------------------------------------------------------
# asynchronous side (virtual-time loop, in-memory transport)
# ------------------------------------------------------------------------------------------------------------------------

class QuietPeer(e9.Peer):
    """(in-process peers share the thread's OpenSSL error queue with the code under test: see c09_listen)"""

    def pump(self) -> None:
        try:
            super().pump()
        finally:
            if self.hs_done or self.silent:
                _clear_err()

    def read_reader(self) -> None:
        try:
            super().read_reader()
        finally:
            _clear_err()


def _clear_err() -> None:
    from vlib import c09_listen as l9
    l9.clear_openssl_error_queue()


class SockCut(e9.CutTransport):
    """CutTransport that also answers the socket attributes the high-level client asks for (a real, unconnected AF_INET socket
    object: the client only looks at its family and sets two options on it)"""

    def __init__(self, *a, **kw) -> None:
        super().__init__(*a, **kw)
        self.sock = socket.socket(socket.AF_INET, socket.SOCK_STREAM)

    @property
    def extra_attributes(self):
        s = self.sock
        return {INETSocketAttribute.socket: lambda: s, INETSocketAttribute.family: lambda: s.family,
                INETSocketAttribute.sockname: lambda: ("127.0.0.1", 40000), INETSocketAttribute.peername: lambda: ("127.0.0.1", 443)}


class MemBackend(AsyncIOBackend):
    """the asyncio backend with ONE difference: `create_tcp_connection()` hands out the prepared in-memory transport"""

    def __init__(self, transport: SockCut) -> None:
        super().__init__()
        self._mem = transport
        self.connects = 0

    async def create_tcp_connection(self, host, port, *, local_address=None, happy_eyeballs_delay=None):
        self.connects += 1
        await asyncio.sleep(0)
        return self._mem


def _kw_role(role: str) -> dict[str, Any]:
    return {"server_hostname": "localhost"} if role == "client" else {"server_side": True}


def _run_async(case: dict, cut) -> tuple[list[str], dict]:
    role, tls, recs = case["role"], case["tls"], list(case["recs"])
    layer = case["layer"]
    sc = case.get("sc", True)
    again = int(case.get("again", 2))
    how = case.get("how", "recv")
    mrs = int(case.get("mrs", 4096))
    _clear_err()
    peer = QuietPeer(_peer_side(role), tls, recs, bool(case.get("notify", True)))
    t = SockCut(peer, cut, int(case.get("frag", 0)), max_frag=int(case.get("max_frag", 4096)))
    lines: list[str] = []
    made: list[tuple[ssl.SSLContext, int]] = []

    async def main() -> None:
        closer = None
        if layer == "client":
            from easynetwork.clients.async_tcp import AsyncTCPNetworkClient
            ctx_arg: Any = e9.make_context("client", tls) if case.get("ctx", "own") == "own" else True
            with _Patch() as patch:
                try:
                    client = AsyncTCPNetworkClient(("localhost", 443), make_protocol(case), ssl=ctx_arg,
                                                   server_hostname="localhost", ssl_handshake_timeout=60.0, ssl_shutdown_timeout=5.0,
                                                   max_recv_size=mrs, backend=MemBackend(t), **_sc_kw(case, "ssl_standard_compatible"))
                finally:
                    made.extend(patch.made)
            try:
                await client.wait_connected()
            except Exception as e:  # noqa: BLE001
                lines.append("hs exc:" + type(e).__name__)
                lines.append(f"inner-closed {int(t.closed)}")
                await client.aclose()
                return
            reader: Any = client
            closer = client.aclose
        else:
            try:
                tls_tr = await AsyncTLSStreamTransport.wrap(t, e9.make_context(role, tls), standard_compatible=sc is None or bool(sc),
                                                            handshake_timeout=60.0, shutdown_timeout=5.0, **_kw_role(role))
            except Exception as e:  # noqa: BLE001
                lines.append("hs exc:" + type(e).__name__)
                lines.append(f"inner-closed {int(t.closed)}")
                return
            if layer == "rx":
                reader = AsyncStreamReceiverEndpoint(tls_tr, make_protocol(case), mrs)
            else:
                reader = AsyncStreamEndpoint(tls_tr, make_protocol(case), mrs)
            closer = reader.aclose
        lines.append("hs ok")
        state = {"term": 0}

        def note(kind_: str, v: Any) -> None:
            if kind_ == "p":
                lines.append(("late-p " if state["term"] else "p ") + core.hexs(bytes(v)))
            else:
                state["term"] += 1
                lines.append("t " + v)

        async def one() -> bool:
            """one recv_packet(); True = a packet"""
            try:
                p = await reader.recv_packet()
            except Exception as e:  # noqa: BLE001
                note("t", signature(e))
                return False
            note("p", p)
            return True

        async def until_terminal(n_term: int, budget: int = 100000) -> None:
            got = 0
            for _ in range(budget):
                if got >= n_term:
                    return
                if not await one():
                    got += 1

        if how == "recv":
            await until_terminal(1 + again)
        elif how == "handoff":
            # the first reader fails and ENDS; a second task takes over and makes the later reads
            await asyncio.create_task(until_terminal(1))
            await asyncio.create_task(until_terminal(again))
        elif how == "race":
            # two tasks call recv_packet() at the same time: the second one waits for the receive lock (or is refused: the
            # endpoints have no lock, only a guard) and goes on when the first one's call has failed
            a = asyncio.create_task(until_terminal(1 + again // 2))
            b = asyncio.create_task(until_terminal(again - again // 2 + 1))
            await asyncio.gather(a, b)
        elif how == "iter":
            it = reader.iter_received_packets(timeout=None)
            for i in range(100000):
                if state["term"] >= again:
                    break
                if state["term"] and state["term"] % 2 == 0:
                    it = reader.iter_received_packets(timeout=None)     # a NEW iterator (the loop restarted)
                try:
                    p = await it.__anext__()
                except StopAsyncIteration as e:
                    note("t", signature(e))
                except Exception as e:  # noqa: BLE001
                    note("t", signature(e))
                else:
                    note("p", p)
            await until_terminal(1)                                      # and a plain recv_packet() at the end
        try:
            await closer()
            lines.append("close ok")
        except Exception as e:  # noqa: BLE001
            lines.append("close exc:" + type(e).__name__)

    try:
        out, _loop = env.run(main, max_turns=int(case.get("max_turns", 60000)))
    except env.Stuck as e:
        lines.append("hang " + str(e))
        out = ("ok", None)
    finally:
        t.sock.close()
    if out[0] == "exc":
        lines.append("main-exc " + type(out[1]).__name__ + ": " + str(out[1])[:200])
    if layer == "client" and case.get("ctx", "own") == "default":
        lines[0:0] = _bit_lines(made)
    m = peer.marks()
    aux = {"marks": m}
    return lines, aux


# ------------------------------------------------------------------------------------------------------------------------
# blocking side (threads, real sockets)
# ------------------------------------------------------------------------------------------------------------------------

class _Timeout(Exception):
    pass


def _loopback(peer: e9.Peer, cut, frag: int):
    """loopback listener; the accepted connection is served by the feeder of c09_sync (forwards at most `cut` bytes of the
    peer's stream, then shutdown(SHUT_WR))"""
    lst = socket.socket(socket.AF_INET, socket.SOCK_STREAM)
    lst.bind(("127.0.0.1", 0))
    lst.listen(1)
    lst.settimeout(LIMIT)
    box: dict[str, Any] = {}

    def run() -> None:
        try:
            conn, _ = lst.accept()
        except OSError as e:
            box["problem"] = f"accept {type(e).__name__}"
            return
        finally:
            lst.close()
        fd = s9.Feeder(conn, peer, cut, frag)
        box["fd"] = fd
        fd.run()
        if fd.problem:
            box["problem"] = fd.problem

    th = threading.Thread(target=run, daemon=True)
    th.start()
    box["thread"] = th
    box["lst"] = lst
    return lst.getsockname()[1], box


def _run_sync(case: dict, cut) -> tuple[list[str], dict]:
    role, tls, recs = case["role"], case["tls"], list(case["recs"])
    layer = case["layer"]
    sc = case.get("sc", True)
    again = int(case.get("again", 2))
    how = case.get("how", "recv")
    mrs = int(case.get("mrs", 4096))
    frag = int(case.get("frag", 0))
    peer = e9.Peer(_peer_side(role), tls, recs, bool(case.get("notify", True)))
    lines: list[str] = []
    made: list[tuple[ssl.SSLContext, int]] = []
    reader: Any = None
    join: list[Any] = []
    raw: socket.socket | None = None
    try:
        if layer == "client":
            from easynetwork.clients.tcp import TCPNetworkClient
            port, box = _loopback(peer, cut, frag)
            join.append(box)
            ctx: Any = e9.make_context("client", tls) if case.get("ctx", "own") == "own" else True
            with _Patch() as patch:
                try:
                    reader = TCPNetworkClient(("127.0.0.1", port), make_protocol(case), ssl=ctx, server_hostname="localhost",
                                              connect_timeout=LIMIT, ssl_handshake_timeout=LIMIT, ssl_shutdown_timeout=LIMIT,
                                              max_recv_size=mrs, **_sc_kw(case, "ssl_standard_compatible"))
                except TimeoutError:
                    return ["infra-timeout client connect"], {}
                except Exception as e:  # noqa: BLE001
                    lines.append("hs exc:" + type(e).__name__)
                finally:
                    made.extend(patch.made)
        else:
            a, b = socket.socketpair()
            raw = a
            fd = s9.Feeder(b, peer, cut, frag)
            fd.start()
            join.append(fd)
            try:
                tr = SSLStreamTransport(a, e9.make_context(role, tls), math.inf, standard_compatible=sc is None or bool(sc),
                                        handshake_timeout=LIMIT, shutdown_timeout=LIMIT, **_kw_role(role))
            except TimeoutError:
                return ["infra-timeout handshake"], {}
            except Exception as e:  # noqa: BLE001
                lines.append("hs exc:" + type(e).__name__)
                lines.append(f"inner-closed {int(a.fileno() < 0)}")
                tr = None
            if tr is not None:
                raw = None
                reader = (StreamReceiverEndpoint if layer == "rx" else StreamEndpoint)(tr, make_protocol(case), mrs)
        if reader is not None:
            lines.append("hs ok")
            lock = threading.Lock()
            state = {"term": 0}

            def note(kind_: str, v: Any, out: list[str]) -> None:
                with lock:
                    if kind_ == "p":
                        out.append(("late-p " if state["term"] else "p ") + core.hexs(bytes(v)))
                    else:
                        state["term"] += 1
                        out.append("t " + v)

            def one(out: list[str], poll: bool = False) -> bool:
                """one recv_packet(); `poll`: with timeout=0 (only AFTER a terminal result: the stream has ended, nothing can
                make the call wait, and a TimeoutError would be a result like any other)"""
                try:
                    p = reader.recv_packet(timeout=0 if poll else LIMIT)
                except TimeoutError as e:
                    if not poll:
                        raise _Timeout("recv_packet") from e
                    note("t", signature(e), out)
                    return False
                except Exception as e:  # noqa: BLE001
                    note("t", signature(e), out)
                    return False
                note("p", p, out)
                return True

            def until_terminal(n_term: int, out: list[str], poll_later: bool = False) -> None:
                got = 0
                for _ in range(100000):
                    if got >= n_term:
                        return
                    if not one(out, poll=poll_later and got > 0 and got % 2 == 1):
                        got += 1

            def in_thread(n_term: int) -> tuple[threading.Thread, list[str], list[str]]:
                out: list[str] = []
                problem: list[str] = []

                def body() -> None:
                    try:
                        until_terminal(n_term, out)
                    except _Timeout as e:
                        problem.append("infra-timeout " + str(e))
                    except BaseException as e:  # noqa: BLE001
                        problem.append(f"harness-exc reader thread {type(e).__name__}: {e}")

                th = threading.Thread(target=body, daemon=True)
                th.start()
                return th, out, problem

            def finish(items) -> bool:
                ok = True
                for th, out, problem in items:
                    th.join(3 * LIMIT)
                    if th.is_alive():
                        lines.append("infra-timeout reader-thread-alive")
                        ok = False
                    lines.extend(out)
                    lines.extend(problem)
                return ok

            try:
                if how == "recv":
                    # (every other read after the first terminal result polls: timeout=0)
                    until_terminal(1 + again, lines, poll_later=True)
                elif how == "handoff":
                    # the first reader (this thread) fails and stops; ANOTHER thread makes the later reads
                    until_terminal(1, lines)
                    finish([in_thread(again)])
                elif how == "race":
                    # two threads call recv_packet() at the same time: one waits for the receive lock and goes on when the
                    # other one's call has failed
                    finish([in_thread(1 + again // 2), in_thread(again - again // 2 + 1)])
                elif how == "iter":
                    it = reader.iter_received_packets(timeout=LIMIT)
                    for _ in range(100000):
                        if state["term"] >= again:
                            break
                        if state["term"] and state["term"] % 2 == 0:
                            it = reader.iter_received_packets(timeout=LIMIT)
                        try:
                            p = next(it)
                        except StopIteration as e:
                            if isinstance(e.__cause__, TimeoutError):
                                raise _Timeout("iter_received_packets") from e
                            note("t", signature(e), lines)
                        except Exception as e:  # noqa: BLE001
                            note("t", signature(e), lines)
                        else:
                            note("p", p, lines)
                    until_terminal(1, lines)
            except _Timeout as e:
                return ["infra-timeout " + str(e)], {}
            try:
                reader.close()
                lines.append("close ok")
            except Exception as e:  # noqa: BLE001
                lines.append("close exc:" + type(e).__name__)
    finally:
        try:
            if reader is not None:
                reader.close()
        except Exception:  # noqa: BLE001
            pass
        if raw is not None:
            try:
                raw.close()
            except OSError:
                pass
        for j in join:
            if isinstance(j, dict):
                j["thread"].join(LIMIT)
                if j["thread"].is_alive() or j.get("problem"):
                    lines.append("infra-timeout " + str(j.get("problem") or "server-thread-alive"))
            else:
                j.join(LIMIT)
                if j.is_alive() or j.problem:
                    lines.append("infra-timeout " + (j.problem or "feeder-alive"))
    if layer == "client" and case.get("ctx", "own") == "default":
        lines[0:0] = _bit_lines(made)
    return lines, {"marks": peer.marks()}


# ------------------------------------------------------------------------------------------------------------------------
# control session + entry point
# ------------------------------------------------------------------------------------------------------------------------

_CTL: dict[str, tuple[list[str], str]] = {}
_CTL_KEYS = ("tr", "layer", "proto", "ser", "role", "tls", "recs", "sc", "ctx", "mrs", "how")


def _marks_text(m: dict) -> str:
    return (f"hs_end={m['hs_end']} rec_ends={','.join(map(str, m['rec_ends'])) or '-'} cn_start={m['cn_start']} "
            f"cn_end={m['cn_end']} total={m['total']}")


def control(case: dict) -> tuple[list[str], str]:
    """(signatures of the clean end-of-stream report, offsets of the complete stream) of the SAME configuration: nothing cut, the
    peer's close_notify delivered completely.  `race` / `handoff` read with recv_packet(): their control is the `recv` one; the
    `iter` pattern has two reports: the iterator's (first terminal result) and recv_packet()'s (the last one)."""
    c = {k: case.get(k) for k in _CTL_KEYS if k in case}
    if c.get("how") in ("handoff", "race", None):
        c["how"] = "recv"
    key = repr(sorted(c.items(), key=lambda kv: kv[0]))
    hit = _CTL.get(key)
    if hit is not None:
        return hit
    cc = {**c, "kind": "endpoint", "cut": None, "notify": True, "again": 2, "frag": 0, "max_frag": 4096}
    for _ in range(3):
        lines, aux = (_run_async if cc.get("tr", "async") == "async" else _run_sync)(cc, None)
        if not any(ln.startswith("infra-timeout") for ln in lines):
            break
    else:
        raise core.InfraError("C09 endpoint control session: harness time limit hit repeatedly")
    term = [ln[2:] for ln in lines if ln.startswith("t ")]
    if "hs ok" not in lines or not term or any(ln.startswith(("hang", "main-exc", "harness-exc")) for ln in lines):
        out = (["FAILED " + "; ".join(lines[:6])], "-")
    else:
        out = ([term[0]] + ([term[-1]] if term[-1] != term[0] and cc["how"] == "iter" else []), _marks_text(aux["marks"]))
    _CTL[key] = out
    return out


def run_endpoint(case: dict) -> tuple[list[str], dict[str, Any]]:
    sigs, marks = control(case)
    lines, _aux = (_run_async if case.get("tr", "async") == "async" else _run_sync)(case, case.get("cut"))
    if any(ln.startswith("infra-timeout") for ln in lines):
        return lines, {}
    return [f"ctl {s}" for s in sigs] + [f"ctl-marks {marks}"] + lines, {}


# ------------------------------------------------------------------------------------------------------------------------
# oracle
# ------------------------------------------------------------------------------------------------------------------------

LAYER_NAME = {("async", "ep"): "AsyncStreamEndpoint", ("async", "rx"): "AsyncStreamReceiverEndpoint",
              ("async", "client"): "AsyncTCPNetworkClient", ("sync", "ep"): "StreamEndpoint",
              ("sync", "rx"): "StreamReceiverEndpoint", ("sync", "client"): "TCPNetworkClient"}


def _f(real: list[str], key: str) -> str | None:
    return next((ln[len(key) + 1:] for ln in real if ln.startswith(key + " ")), None)


def marks_of(real: list[str]) -> dict | None:
    ln = _f(real, "ctl-marks")
    if not ln or ln == "-":
        return None
    try:
        d = dict(tok.split("=", 1) for tok in ln.split())
        return {"hs_end": int(d["hs_end"]), "rec_ends": [int(x) for x in d["rec_ends"].split(",") if x != "-"],
                "cn_start": int(d["cn_start"]), "cn_end": int(d["cn_end"]), "total": int(d["total"])}
    except (KeyError, ValueError):
        return None


def classify(m: dict, case: dict) -> str:
    cut = case.get("cut")
    notify = bool(case.get("notify", True))
    end = m["cn_end"] if notify else m["cn_start"]
    if cut is None or cut >= end:
        return "complete" if notify else "no-close_notify"
    if cut < m["hs_end"]:
        return "handshake"
    if cut >= m["cn_start"]:
        return "close_notify/" + ("before" if cut == m["cn_start"] else "inside")
    return "data/" + ("between" if cut in [m["hs_end"]] + m["rec_ends"] else "inside")


def expected_plain(m: dict, case: dict) -> bytes:
    cut = case.get("cut")
    out = bytearray()
    for i, n in enumerate(case["recs"]):
        if cut is None or m["rec_ends"][i] <= cut:
            out += e9.payload(i, n)
    return bytes(out)


def where_of(case: dict, cls: str) -> str:
    sc = case.get("sc", True)
    name = LAYER_NAME[(case.get("tr", "async"), case["layer"])]
    extra = f" ssl={'True (library-built context)' if case.get('ctx') == 'default' else '<context>'}" if case["layer"] == "client" else ""
    return (f"{name}{extra} over the {'asynchronous' if case.get('tr', 'async') == 'async' else 'blocking'} TLS transport, "
            f"{'BufferedStreamProtocol (recv_into)' if case.get('proto') == 'buffered' else 'StreamProtocol (recv)'}, "
            f"{case['role']} TLS{case['tls']} records {list(case['recs'])} {case.get('ser', 'line')} max_recv_size={case.get('mrs', 4096)} "
            f"standard_compatible={'omitted' if sc is None else bool(sc)} cut={case.get('cut')} ({cls}) reads: {case.get('how', 'recv')}")


def oracle(case: dict, real: list[str]) -> str | None:
    """The property, per layer.  *Clean end-of-stream report* of a layer := what the SAME configuration reports in the control
    session (nothing cut, the peer's close_notify delivered completely): class, errno, message and the whole __cause__ /
    __context__ chain — `ConnectionAbortedError(ECONNABORTED, "… (end-of-stream)")` of the endpoints, the clients' converted
    error with that one as its cause, `StopIteration` / `StopAsyncIteration` carrying it for `iter_received_packets()`.
      standard-compatible (True or omitted), no complete close_notify:
          EVERY terminal result — the first one and every later read, from the same or another task / thread, through
          recv_packet() or a restarted iterator — is an exception that is NOT the clean report; for the clients (they convert
          the error) the TLS error is on the chain of the first one, and no later one may be the clean report (ClientClosedError
          and the like are "another error": fine);
      standard_compatible=False: an abrupt end IS an end-of-stream: every terminal result equals the clean report;
      complete close_notify: the first terminal result equals the clean report, and no later one carries a TLS error;
      always: the packets handed out are exactly the complete packets of the complete records before the cut, none after a
          terminal result; a cut inside the handshake: wrap() / the constructor / wait_connected() raises;
      ssl=True: the context the constructor built has OP_IGNORE_UNEXPECTED_EOF cleared (whatever the mode)."""
    ctl = [ln[4:] for ln in real if ln.startswith("ctl ")]
    m = marks_of(real)
    if not ctl or ctl[0].startswith("FAILED") or m is None:
        return f"unexpected failure: the control session (nothing cut) did not reach a clean end-of-stream: {ctl}"
    cls = classify(m, case)
    where = where_of(case, cls)
    sc = case.get("sc", True)
    sc_on = sc is None or bool(sc)
    if case["layer"] == "client" and case.get("ctx") == "default":
        if _f(real, "ctx-created") != "1":
            return f"{where}: expected exactly one create_default_context() call, saw {_f(real, 'ctx-created')}"
        why = _behaviour(case, real, ctl, m, cls, where, sc_on)
        if why:
            return why + ("  [the context the constructor built still has OP_IGNORE_UNEXPECTED_EOF set]"
                          if OPT and _f(real, "bit-after") != "0" else "")
        if OPT and _f(real, "bit-after") != "0":
            return f"{where}: the default context still has OP_IGNORE_UNEXPECTED_EOF set after the constructor"
        return None
    return _behaviour(case, real, ctl, m, cls, where, sc_on)


def _behaviour(case: dict, real: list[str], ctl: list[str], m: dict, cls: str, where: str, sc_on: bool) -> str | None:
    hs = _f(real, "hs")
    if hs is None:
        return f"{where}: no handshake outcome observed"
    if cls == "handshake":
        if hs == "ok":
            return f"{where}: the stream ended inside the handshake but the connection was reported established"
        if _f(real, "inner-closed") == "0":
            return f"{where}: handshake failed but the wrapped transport was left open"
        return None
    if hs != "ok":
        return f"{where}: the peer's handshake flight was delivered completely but the handshake failed ({hs})"
    got = [ln[2:] for ln in real if ln.startswith("p ")]
    late = [ln for ln in real if ln.startswith("late-p ")]
    term = [ln[2:] for ln in real if ln.startswith("t ")]
    exp, rest = split_packets(case.get("ser", "line"), expected_plain(m, case))
    exp_hex = [core.hexs(p) for p in exp]
    if late:
        return f"{where}: a packet was delivered after a terminal result ({late[0]}; results: {_short(term)})"
    if (sorted(got) != sorted(exp_hex)) if case.get("how") == "race" else (got != exp_hex):
        return (f"{where}: the packets handed out differ from the complete packets of the complete records before the cut "
                f"({len(got)} vs {len(exp_hex)}: {got[:4]} vs {exp_hex[:4]})")
    need = 1 + int(case.get("again", 2))
    if len(term) < need:
        return f"{where}: fewer than {need} terminal results observed: {_short(term)}"
    buffered = f"{len(rest)} byte(s) of an incomplete packet in the consumer" if rest else "consumer empty"
    if cls == "complete":
        if term[0] not in ctl:
            return (f"{where}: the peer's close_notify was delivered completely but the reader's first report {term[0]!r} is not "
                    f"the clean end-of-stream report {ctl!r}")
        bad = [i for i, t in enumerate(term) if has_tls_error(t)]
        if bad:
            return f"{where}: complete close_notify but read #{bad[0] + 1} reports a TLS error ({_short(term)})"
        return None
    if sc_on:
        bad = [i for i, t in enumerate(term) if t in ctl]
        if bad:
            i = bad[0]
            return (f"{where}: the stream was cut without the peer's complete close_notify ({buffered}), but read #{i + 1} "
                    f"{'(the first report)' if i == 0 else f'({i} read(s) after the first report {term[0]!r})'} reports exactly "
                    f"what this layer reports at a CLEAN end-of-stream: {term[i]!r} (all terminal results: {_short(term)})")
        if case["layer"] == "client":
            # the clients convert the error (ConnectionAbortedError either way): what tells a truncation from the peer's clean
            # close is the TLS error on the chain.  First report: it must be there.  Later reads: a report with the clean
            # report's own class / errno / message and no TLS error behind it is a clean report in disguise (a different
            # error - ClientClosedError, ... - is "another error": fine)
            if not has_tls_error(term[0]):
                return (f"{where}: the connection was cut without close_notify; the first report {term[0]!r} carries no TLS error "
                        f"on its __cause__/__context__ chain (clean report: {ctl!r})")
            heads = {_head(c) for c in ctl}
            bad = [i for i, t in enumerate(term) if not has_tls_error(t) and _head(t) in heads]
            if bad:
                i = bad[0]
                return (f"{where}: the connection was cut without close_notify ({buffered}); read #{i + 1} reports {term[i]!r}: the "
                        f"class, errno and message of the clean end-of-stream report ({ctl!r}) and no TLS error on its "
                        f"__cause__/__context__ chain (first report: {term[0]!r})")
        return None
    bad = [i for i, t in enumerate(term) if t not in ctl]
    if bad:
        return (f"{where}: standard_compatible=False: an abrupt end must be reported as an end-of-stream ({ctl!r}), read "
                f"#{bad[0] + 1} reports {term[bad[0]]!r}")
    return None


def _short(term: list[str]) -> list[str]:
    return [t if len(t) < 90 else t[:87] + "..." for t in term]


# ------------------------------------------------------------------------------------------------------------------------
# classification, shrinking, keys
# ------------------------------------------------------------------------------------------------------------------------

def _sc_txt(case: dict) -> str:
    sc = case.get("sc", True)
    return "omitted" if sc is None else str(int(bool(sc)))


def class_key(case: dict, real: list[str]) -> str:
    m = marks_of(real)
    cls = classify(m, case) if m else "?"
    buf = ""
    if m and cls not in ("handshake", "?"):
        _, rest = split_packets(case.get("ser", "line"), expected_plain(m, case))
        buf = "/partial-packet-buffered" if rest else "/consumer-empty"
    return (f"endpoint/{case.get('tr', 'async')}/{case['layer']}{'+default-ctx' if case.get('ctx') == 'default' else ''}/"
            f"{case.get('proto', 'stream')}/{cls}{buf}/sc={_sc_txt(case)}/{case.get('how', 'recv')}")


def known_key(case: dict, real: list[str], why: str) -> str:
    m = marks_of(real)
    cls = classify(m, case).split("/")[0] if m else "?"
    return (f"kind=endpoint,tr={case.get('tr', 'async')},layer={case['layer']},ctx={case.get('ctx', 'own')},"
            f"proto={case.get('proto', 'stream')},class={cls},sc={_sc_txt(case)},how={case.get('how', 'recv')}")


def shrink(case: dict):
    # (layer, path, mode and read pattern are part of the failure signature: they are kept)
    for k, v in (("frag", 0), ("max_frag", 4096), ("again", 2), ("mrs", 4096)):
        if case.get(k, v) != v and not (k == "again" and case.get("again", 2) < 2):
            yield {**case, k: v}
    recs = list(case["recs"])
    cut = case.get("cut")
    if cut is not None and len(recs) > 1:
        m = e9.baseline(case["role"], case["tls"], recs, bool(case.get("notify", True)))
        if cut <= m["rec_ends"][-2]:
            yield {**case, "recs": recs[:-1]}


# ------------------------------------------------------------------------------------------------------------------------
# generation
# ------------------------------------------------------------------------------------------------------------------------

SHAPES = [("client", "1.3"), ("server", "1.2"), ("client", "1.2"), ("server", "1.3")]
# record layouts: (serializer, record sizes) — complete packets only / an incomplete trailing packet / a packet split over two
# records / nothing but a piece of a packet / several packets per record
LAYOUTS = [("line", [6, 6]), ("line", [6, 6, 3]), ("line", [5, 6, 6]), ("line", [3]), ("fixed:4", [8, 4]), ("fixed:4", [5, 17]),
           ("fixed:4", [2]), ("fixed:8", [8, 24, 5]), ("fixed:1", [3]), ("fixed:300", [100, 200, 300, 7])]


def _case(rng, tr: str, layer: str, proto: str, ser: str, role: str, tls: str, recs: list[int], cut, sc, **kw) -> dict:
    c = {"kind": "endpoint", "tr": tr, "layer": layer, "proto": proto, "ser": ser, "role": role, "tls": tls, "recs": list(recs),
         "notify": True, "cut": cut, "sc": sc, "mrs": rng.choice((1, 3, 7, 64, 4096, 65536)), "again": rng.choice((2, 3, 4)),
         "how": "recv", "frag": rng.randrange(1 << 30), "max_frag": rng.choices((2, 7, 64, 4096), weights=(1, 2, 5, 12))[0]}
    if layer == "client":
        c["ctx"] = "own"
    c.update(kw)
    return c


def _hows(layer: str) -> tuple[str, ...]:
    return ("recv", "handoff", "race", "iter") if layer == "client" else ("recv", "handoff")


def _structured(m: dict, rng, n_more: int) -> list[int]:
    """offsets after the handshake: every record boundary and its neighbours, every offset of the close_notify, the end"""
    s = set(range(m["cn_start"] - 1, m["cn_end"]))
    for b in [m["hs_end"]] + m["rec_ends"]:
        for d in (-1, 0, 1, 5, 6):
            s.add(b + d)
    s = {x for x in s if m["hs_end"] <= x < m["cn_end"]}
    rest = [x for x in range(m["hs_end"], m["cn_end"]) if x not in s]
    rng.shuffle(rest)
    s.update(rest[:n_more])
    return sorted(s)


def cases(rng, tier: str, boost: int) -> list[dict]:
    out: list[dict] = []
    thorough = tier != "quick"
    # ---- asynchronous side -----------------------------------------------------------------------------------------------
    combos = [(layer, proto) for layer in ("ep", "rx", "client") for proto in ("stream", "buffered")]
    # quick: the every-offset sweep for one StreamProtocol and one BufferedStreamProtocol combination (the seed picks the
    # layers), the structured offsets (record boundaries +-, EVERY close_notify offset) for the four others; thorough: all six
    sweep = set(combos) if thorough else {(rng.choice(("ep", "rx", "client")), "stream"), (rng.choice(("ep", "rx", "client")), "buffered")}
    for layer, proto in combos:
        for _once in (0,):
            lay = list(LAYOUTS)
            rng.shuffle(lay)
            # (1) EVERY offset after the handshake of one session (thorough: of three) x standard-compatible, the reader
            #     reads again 2..4 times; the read pattern, max_recv_size and fragmentation are drawn per case
            for ser, recs in lay[:(3 if thorough else 1)]:
                role, tls = ("client", rng.choice(("1.2", "1.3"))) if layer == "client" else rng.choice(SHAPES)
                m = e9.baseline(role, tls, recs, True)
                offs = list(range(m["hs_end"], m["cn_end"])) if (layer, proto) in sweep else _structured(m, rng, 6)
                if not thorough and len(offs) > 160:
                    offs = _structured(m, rng, 100)     # (long records: the structured offsets + 100 offsets inside the records)
                for cut in offs:
                    for sc in ((True, None) if layer == "client" and (thorough or cut % 2) else (True,)):
                        out.append(_case(rng, "async", layer, proto, ser, role, tls, recs, cut, sc, how=rng.choice(_hows(layer))))
                    if thorough or rng.random() < 0.15:
                        out.append(_case(rng, "async", layer, proto, ser, role, tls, recs, cut, False, how=rng.choice(_hows(layer))))
            # (2) structured offsets of every other layout (record boundaries +-, every close_notify offset) x every read pattern
            for ser, recs in (lay[3:] if thorough else lay[1:3]):
                role, tls = ("client", rng.choice(("1.2", "1.3"))) if layer == "client" else rng.choice(SHAPES)
                m = e9.baseline(role, tls, recs, True)
                offs = _structured(m, rng, 10 if thorough else 0)
                if not thorough:
                    keep = {m["hs_end"], m["rec_ends"][-1], m["cn_start"] + 1, m["cn_end"] - 1}
                    rng.shuffle(offs)
                    offs = sorted(set(offs[:6 * boost]) | keep)
                for cut in offs + [None, m["cn_end"]]:
                    for sc in ((True, None, False) if layer == "client" else (True, False)):
                        if sc is False and not thorough and rng.random() < 0.5 and cut is not None:
                            continue
                        out.append(_case(rng, "async", layer, proto, ser, role, tls, recs, cut, sc, how=rng.choice(_hows(layer))))
                # a peer that never sends close_notify: the end of its stream is a truncation too
                m2 = e9.baseline(role, tls, recs, False)
                for cut in (None, m2["rec_ends"][-1]):
                    for how in _hows(layer):
                        out.append(_case(rng, "async", layer, proto, ser, role, tls, recs, cut, True, notify=False, how=how))
                    out.append(_case(rng, "async", layer, proto, ser, role, tls, recs, cut, False, notify=False))
            # (3) the library-built context (ssl=True) x mode omitted / True / False x every read pattern
            if layer == "client":
                for tls in (("1.3", "1.2") if thorough else (rng.choice(("1.3", "1.2")),)):
                    ser, recs = rng.choice(LAYOUTS[:6])
                    m = e9.baseline("client", tls, recs, True)
                    offs = [m["hs_end"], m["rec_ends"][0] - 1, m["rec_ends"][-1], m["cn_start"] + 1, m["cn_end"] - 1, m["cn_end"], None]
                    offs += rng.sample(range(m["hs_end"], m["cn_end"]), 8 if thorough else 3)
                    for cut in offs:
                        for sc in (None, True, False):
                            out.append(_case(rng, "async", layer, proto, ser, "client", tls, recs, cut, sc, ctx="default",
                                             how=rng.choice(_hows(layer))))
                    for sc in (None, True, False):
                        out.append(_case(rng, "async", layer, proto, ser, "client", tls, recs, None, sc, ctx="default", notify=False,
                                         how=rng.choice(_hows(layer))))
            # (4) cuts inside the handshake (the constructor / wait_connected() / wrap() must raise)
            role, tls = ("client", "1.3") if layer == "client" else rng.choice(SHAPES)
            m = e9.baseline(role, tls, [6], True)
            for cut in sorted({0, 1, 5, m["hs_end"] - 1} | set(rng.sample(range(m["hs_end"]), 3))):
                out.append(_case(rng, "async", layer, proto, "line", role, tls, [6], cut, rng.choice((True, False)),
                                 **({"ctx": rng.choice(("own", "default"))} if layer == "client" else {})))
    # ---- blocking side (threads + real sockets: a structured sample) -----------------------------------------------------
    for layer in ("ep", "rx", "client"):
        for proto in ("stream", "buffered"):
            lay = list(LAYOUTS[:8])
            rng.shuffle(lay)
            for ser, recs in lay[:(4 if thorough else 2)]:
                role, tls = ("client", rng.choice(("1.2", "1.3"))) if layer == "client" else rng.choice(SHAPES)
                m = e9.baseline(role, tls, recs, True)
                offs = _structured(m, rng, 10 if thorough else 0)
                if not thorough:
                    keep = {m["hs_end"], m["rec_ends"][-1], m["cn_start"] + 1, m["cn_end"] - 1}
                    rng.shuffle(offs)
                    offs = sorted(set(offs[:(5 if layer == "client" else 8) * boost]) | keep)
                for cut in offs + [None]:
                    for sc in ((True, None, False) if layer == "client" else (True, False)):
                        if sc is False and not thorough and rng.random() < 0.6 and cut is not None:
                            continue
                        out.append(_case(rng, "sync", layer, proto, ser, role, tls, recs, cut, sc, how=rng.choice(_hows(layer)),
                                         mrs=rng.choice((3, 64, 4096, 65536))))
                m2 = e9.baseline(role, tls, recs, False)
                for sc in (True, False):
                    out.append(_case(rng, "sync", layer, proto, ser, role, tls, recs, None, sc, notify=False,
                                     how=rng.choice(_hows(layer)), mrs=rng.choice((3, 64, 4096, 65536))))
                    out.append(_case(rng, "sync", layer, proto, ser, role, tls, recs, m2["rec_ends"][-1], sc, notify=False,
                                     how=rng.choice(_hows(layer)), mrs=rng.choice((3, 64, 4096, 65536))))
            if layer == "client":
                tls = rng.choice(("1.3", "1.2"))
                ser, recs = rng.choice(LAYOUTS[:6])
                m = e9.baseline("client", tls, recs, True)
                offs = [m["hs_end"], m["rec_ends"][-1], m["cn_start"] + 1, m["cn_end"] - 1, None]
                offs += rng.sample(range(m["hs_end"], m["cn_end"]), 6 if thorough else 2)
                for cut in offs:
                    for sc in (None, True, False):
                        out.append(_case(rng, "sync", layer, proto, ser, "client", tls, recs, cut, sc, ctx="default",
                                         how=rng.choice(_hows(layer)), mrs=rng.choice((3, 64, 4096, 65536))))
                for sc in (None, True, False):
                    out.append(_case(rng, "sync", layer, proto, ser, "client", tls, recs, None, sc, ctx="default", notify=False,
                                     how=rng.choice(_hows(layer)), mrs=4096))
            role, tls = ("client", "1.3") if layer == "client" else rng.choice(SHAPES)
            m = e9.baseline(role, tls, [6], True)
            for cut in (0, rng.randrange(1, m["hs_end"]), m["hs_end"] - 1):
                out.append(_case(rng, "sync", layer, proto, "line", role, tls, [6], cut, True,
                                 **({"ctx": rng.choice(("own", "default"))} if layer == "client" else {})))
    return out
