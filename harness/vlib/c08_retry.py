"""
C08, blocking variant, DIRECTION FLIPS inside one operation (kind "retry", oracle only, no threads, no wall-clock).

The real SSLStreamTransport (its own constructor, _try_ssl_method and the inherited SelectorBaseTransport._retry) runs over a
SCRIPTED SSL socket (handed out by a duck-typed ssl context: `wrap_socket` is the only thing the transport asks of it) and a
SCRIPTED selector (the documented `selector_factory` parameter).  One case = a list of operations; each operation has the
list of answers the SSL object gives at its successive calls:

    wantr | wantw | sysc     SSLWantReadError / SSLWantWriteError / SSLSyscallError (treated as want-read by the library)
    ok                       the call succeeds (handshake, unwrap: returns; recv: returns the scripted bytes; send: accepts `n`)
    eof | zeroret | reset    end of the operation with an EOF / error

so a single `_retry()` call sees the wanted direction change (wantr, wantw, wantr, ok = the server-side handshake whose
certificate flight overflows the send buffer; recv that must write: renegotiation / key update / TLS 1.3 tickets; send that
must read).  The WORLD behind the selector is the deadlock-prone one of a peer that is itself waiting for us:

    * the descriptor becomes readable ONLY when the SSL object's last answer was want-read (the peer answers what we ask);
    * it is writable whenever asked (the send buffer drains);

a `select()` for an event that cannot happen in that world returns nothing after its timeout (virtual: at once); with no
timeout (retry_interval = inf and timeout = inf, both documented) it would never return: reported as `deadlock`.

    call <op> -> <answer>            every call of the SSL object's method
    select R|W fd=ok|BAD t=inf|fin -> ready|none
    ret <op> ok[ <value>] | raise <Exc>
    deadlock <text>

Oracle (props/c08.py): no deadlock; an operation whose script ends with `ok` returns normally with the scripted value (a
TimeoutError although the descriptor was ready for what the SSL object asked is a transfer that did not complete); bytes
returned by recv == bytes the SSL object produced, bytes accepted by send == bytes written; the wait is on the transport's own
descriptor.
"""
from __future__ import annotations

import math
import selectors
import socket
import ssl
import time
from typing import Any

from vlib import core

from easynetwork.lowlevel.api_sync.transports.socket import SSLStreamTransport

_MK = {"wantr": lambda: ssl.SSLWantReadError(ssl.SSL_ERROR_WANT_READ, "want read"),
       "wantw": lambda: ssl.SSLWantWriteError(ssl.SSL_ERROR_WANT_WRITE, "want write"),
       "sysc": lambda: ssl.SSLSyscallError(ssl.SSL_ERROR_SYSCALL, "syscall"),
       "zeroret": lambda: ssl.SSLZeroReturnError(ssl.SSL_ERROR_ZERO_RETURN, "closed"),
       "eof": lambda: ssl.SSLEOFError(ssl.SSL_ERROR_EOF, "eof"),
       "reset": lambda: ConnectionResetError(104, "reset")}

MAX_CALLS = 200


class _Deadlock(BaseException):
    pass


class _Runaway(BaseException):
    pass


class World:
    def __init__(self, fd: int) -> None:
        self.fd = fd
        self.lines: list[str] = []
        self.want: str | None = None            # direction of the LAST answer of the SSL object ("R" / "W" / None)
        self.op = "-"
        self.answers: list = []
        self.calls = 0
        self.unsatisfied = 0

    def start(self, op: str, answers: list) -> None:
        self.op, self.answers, self.want = op, list(answers), None

    def answer(self, produce):
        self.calls += 1
        if self.calls > MAX_CALLS:
            raise _Runaway()
        a = self.answers.pop(0) if self.answers else "wantr"     # a script that is exhausted keeps asking for input
        name = a if isinstance(a, str) else a[0]
        self.lines.append(f"call {self.op} -> {name}")
        if name in ("wantr", "sysc"):
            self.want = "R"
            raise _MK[name]()
        if name == "wantw":
            self.want = "W"
            raise _MK[name]()
        self.want = None
        if name == "ok":
            return produce(a)
        raise _MK[name]()


class ScriptedSSLSocket:
    """what ssl_context.wrap_socket() returns: the SSL object of the scripted world (the real socket only lends its fd)"""

    def __init__(self, sock: socket.socket, world: World, **kw: Any) -> None:
        self._sock, self._w = sock, world
        self.wrap_args = kw
        self.context = None
        self.family, self.type = sock.family, sock.type
        self.recv_data = b""
        self.accepted = bytearray()

    def fileno(self) -> int:
        return self._sock.fileno()

    def setblocking(self, flag: bool) -> None:
        self._sock.setblocking(flag)

    def getsockname(self):
        return self._sock.getsockname()

    def getpeername(self):
        return self._sock.getpeername()

    def do_handshake(self) -> None:
        return self._w.answer(lambda a: None)

    def unwrap(self):
        return self._w.answer(lambda a: self._sock)

    def recv(self, bufsize: int, flags: int = 0) -> bytes:
        def produce(a):
            d = self.recv_data[:bufsize]
            self.recv_data = self.recv_data[len(d):]
            return d
        return self._w.answer(produce)

    def recv_into(self, buffer, nbytes: int = 0, flags: int = 0) -> int:
        def produce(a):
            with memoryview(buffer) as m:
                d = self.recv_data[:m.nbytes]
                m.cast("B")[:len(d)] = d
            self.recv_data = self.recv_data[len(d):]
            return len(d)
        return self._w.answer(produce)

    def send(self, data, flags: int = 0) -> int:
        def produce(a):
            n = a[1] if not isinstance(a, str) else len(data)
            n = min(n, len(data))
            self.accepted += bytes(data[:n])
            return n
        return self._w.answer(produce)

    def shutdown(self, how: int) -> None:
        try:
            self._sock.shutdown(how)
        except OSError:
            pass

    def close(self) -> None:
        self._sock.close()


class ScriptedContext:
    """the only thing SSLStreamTransport asks of its ssl_context is wrap_socket()"""

    def __init__(self, world: World) -> None:
        self.world = world
        self.made: ScriptedSSLSocket | None = None

    def wrap_socket(self, sock, **kw):
        self.made = ScriptedSSLSocket(sock, self.world, **kw)
        return self.made


def selector_factory(world: World):
    class ScriptedSelector(selectors.BaseSelector):
        def __init__(self) -> None:
            self._reg: tuple[int, int] | None = None

        def register(self, fileobj, events, data=None):
            if not isinstance(fileobj, int) or fileobj < 0:
                raise ValueError("bad descriptor")
            self._reg = (fileobj, events)
            return selectors.SelectorKey(fileobj, fileobj, events, data)

        def unregister(self, fileobj):
            self._reg = None

        def get_map(self):
            return {}

        def close(self) -> None:
            self._reg = None

        def select(self, timeout=None):
            assert self._reg is not None
            fd, ev = self._reg
            ev_s = {selectors.EVENT_READ: "R", selectors.EVENT_WRITE: "W",
                    selectors.EVENT_READ | selectors.EVENT_WRITE: "RW"}.get(ev, str(ev))
            fd_ok = fd == world.fd
            ready = fd_ok and (("W" in ev_s) or ("R" in ev_s and world.want == "R"))
            t = "inf" if timeout is None or timeout == math.inf else "fin"
            world.lines.append(f"select {ev_s} fd={'ok' if fd_ok else 'BAD'} t={t} -> {'ready' if ready else 'none'}")
            if ready:
                return [(selectors.SelectorKey(fd, fd, ev, None), ev)]
            world.unsatisfied += 1
            if t == "inf":
                world.lines.append(f"deadlock the transport waits for {ev_s} on its descriptor without a timeout while the SSL "
                                   f"object asked for {world.want or 'nothing'}: the peer is waiting for us, nothing can wake it")
                raise _Deadlock()
            return []

    return ScriptedSelector


def _num(x) -> float:
    return math.inf if x == "inf" else float(x)


def run_retry(case: dict) -> list[str]:
    a_sock, b_sock = socket.socketpair()
    world = World(a_sock.fileno())
    ctx = ScriptedContext(world)
    tr = None
    t0 = time.monotonic()
    timeouts = 0
    try:
        ri = _num(case.get("retry_interval", "inf"))
        world.start("handshake", case.get("handshake") or ["ok"])
        try:
            tr = SSLStreamTransport(a_sock, ctx, ri, server_side=bool(case.get("server", True)),   # type: ignore[arg-type]
                                    server_hostname=None if case.get("server", True) else "localhost",
                                    handshake_timeout=_num(case.get("hs_timeout", "inf")),
                                    shutdown_timeout=_num(case.get("close_timeout", "inf")),
                                    standard_compatible=bool(case.get("compat", True)),
                                    selector_factory=selector_factory(world))
            world.lines.append("ret handshake ok")
        except (_Deadlock, _Runaway) as e:
            world.lines.append(f"ret handshake raise {type(e).__name__[1:]}")
            return world.lines
        except TimeoutError:
            timeouts += 1
            world.lines.append("ret handshake raise TimeoutError")
            return world.lines
        except Exception as e:  # noqa: BLE001
            world.lines.append(f"ret handshake raise {type(e).__name__}")
            return world.lines
        s = ctx.made
        assert s is not None
        for i, op in enumerate(case.get("ops") or []):
            what, arg, answers = op["op"], op.get("arg", 0), op.get("answers") or ["ok"]
            tmo = _num(op.get("timeout", "inf"))
            world.start(what, answers)
            try:
                if what in ("recv", "recv_into"):
                    s.recv_data = bytes.fromhex(op.get("data", ""))
                    if what == "recv":
                        d = tr.recv(arg, tmo)
                    else:
                        buf = bytearray(arg)
                        n = tr.recv_into(buf, tmo)
                        d = bytes(buf[:n])
                    out = "ok " + core.hexs(d)
                elif what in ("send", "send_all", "send_iter"):
                    data = bytes((i * 37 + k) % 251 for k in range(arg))
                    s.accepted = bytearray()
                    if what == "send":
                        n = tr.send(data, tmo)
                        out = f"ok {n} accepted-is-prefix={int(data[:n] == bytes(s.accepted))}"
                    else:
                        if what == "send_all":
                            tr.send_all(data, tmo)
                        else:
                            k = max(1, len(data) // 3)
                            tr.send_all_from_iterable([data[:k], b"", data[k:]], tmo)
                        out = f"ok all accepted-is-written={int(data == bytes(s.accepted))}"
                elif what == "close":
                    tr.close()
                    out = "ok closed=" + str(int(tr.is_closed()))
                else:
                    out = "harness-exc unknown op"
                world.lines.append(f"ret {what} {out}")
            except (_Deadlock, _Runaway) as e:
                world.lines.append(f"ret {what} raise {type(e).__name__[1:]}")
                break
            except TimeoutError:
                timeouts += 1
                world.lines.append(f"ret {what} raise TimeoutError")
            except Exception as e:  # noqa: BLE001
                world.lines.append(f"ret {what} raise {type(e).__name__}")
        return world.lines
    finally:
        if timeouts and not world.unsatisfied and time.monotonic() - t0 > 10.0:
            raise core.InfraError("C08 retry case: a finite timeout expired in real time (machine load?)")
        for sk in (a_sock, b_sock):
            try:
                sk.close()
            except OSError:
                pass


_ENDS_OK = {"handshake", "recv", "recv_into", "send", "send_all", "send_iter", "close"}


def problem(case: dict, real: list[str]) -> str | None:
    for ln in real:
        if ln.startswith("deadlock "):
            return "deadlock: " + ln[9:]
        if ln.startswith("ret ") and ln.endswith("raise Runaway"):
            return f"{ln.split()[1]}: more than {MAX_CALLS} calls of the SSL object for one scripted operation (busy loop)"
        if ln.startswith("select ") and "fd=BAD" in ln:
            return "the transport waits on a file descriptor that is not its socket: " + ln
        if "harness-exc" in ln:
            return ln
    # what each operation must have returned
    rets = [ln for ln in real if ln.startswith("ret ")]
    specs = [("handshake", case.get("handshake") or ["ok"], None)] + [
        (op["op"], op.get("answers") or ["ok"], op) for op in (case.get("ops") or [])]
    for (what, answers, op), ret in zip(specs, rets):
        last = answers[-1] if answers else "wantr"
        last = last if isinstance(last, str) else last[0]
        w = ret.split()
        if what == "close":
            if w[2] != "ok" or w[3] != "closed=1":
                return f"close() did not leave the transport closed: {ret}"
            continue
        if last == "ok" or what == "send_all" or what == "send_iter":
            ends_ok = all((a if isinstance(a, str) else a[0]) in ("ok", "wantr", "wantw", "sysc") for a in answers)
            if ends_ok and w[2] != "ok":
                return (f"{what} did not complete ({ret[4:]}) although the descriptor was ready each time for what the SSL "
                        f"object asked ({' '.join(a if isinstance(a, str) else a[0] for a in answers)})")
            if w[2] == "ok":
                if what in ("recv", "recv_into"):
                    exp = bytes.fromhex(op.get("data", ""))[:op.get("arg", 0)]
                    if ret != f"ret {what} ok " + core.hexs(exp):
                        return f"{what} returned {w[3] if len(w) > 3 else '-'} but the SSL object produced {core.hexs(exp)}"
                if what in ("send", "send_all", "send_iter") and ret.endswith("=0"):
                    return f"{what}: bytes accepted by the SSL object are not the bytes written ({ret})"
    return None


def class_key(case: dict, real: list[str]) -> str | None:
    flips = set()
    prev = None
    for ln in real:
        if ln.startswith("call "):
            a = ln.split()[-1]
            d = "R" if a in ("wantr", "sysc") else "W" if a == "wantw" else None
            if prev and d and d != prev:
                flips.add(ln.split()[1] + ":" + prev + d)
            prev = d
        elif ln.startswith("ret "):
            prev = None
    if not flips:
        return None
    ri = "inf" if case.get("retry_interval", "inf") == "inf" else "fin"
    rw = sorted(f.split(":")[0] for f in flips if f.endswith(":RW"))
    return f"retry/{ri}/" + (f"RW/{rw[0]}" if rw else "WR-only")


# ---------------------------------------------------------------------------------------------- generation
def _answers(rng, op: str) -> list:
    n = rng.choice([0, 1, 2, 2, 3, 3, 4, 6])
    first = rng.choice(["wantr", "wantw"] if op in ("recv", "recv_into", "handshake", "close") else ["wantw", "wantr"])
    out = []
    cur = first
    for _ in range(n):
        out.append("sysc" if cur == "wantr" and rng.random() < 0.1 else cur)
        if rng.random() < 0.6:
            cur = "wantw" if cur == "wantr" else "wantr"
    return out


def gen_retry(rng, n: int) -> dict:
    ri = rng.choice(["inf", "inf", 0.01, 60.0])
    big = rng.choice(["inf", 3600.0])

    def tmo():
        # timeout <= retry_interval: a wait that is not satisfied is the end of the operation (TimeoutError)
        if ri == 60.0 and rng.random() < 0.5:
            return rng.choice([30.0, 60.0])
        return big
    case: dict[str, Any] = {"kind": "retry", "seed": n, "retry_interval": ri, "server": rng.random() < 0.6,
                            "compat": rng.random() < 0.7, "hs_timeout": tmo(), "close_timeout": tmo(),
                            "handshake": _answers(rng, "handshake") + ["ok"], "ops": []}
    for _ in range(rng.randint(0, 4)):
        what = rng.choice(["recv", "recv_into", "send", "send_all", "send_iter"])
        op: dict[str, Any] = {"op": what, "timeout": tmo()}
        if what in ("recv", "recv_into"):
            op["arg"] = rng.choice([1, 5, 64])
            op["data"] = bytes(rng.randrange(256) for _ in range(rng.choice([1, 3, 5, 80]))).hex()
            op["answers"] = _answers(rng, what) + ["ok"]
        elif what == "send":
            op["arg"] = rng.choice([1, 10, 100])
            op["answers"] = _answers(rng, what) + [["ok", rng.choice([1, 7, 100])]]
        else:
            op["arg"] = rng.choice([1, 10, 100])
            ans: list = []
            left = op["arg"]
            while left > 0:
                k = rng.choice([1, 3, left, left])
                k = min(k, left)
                ans += _answers(rng, what) + [["ok", k]]
                left -= k
            op["answers"] = ans
        case["ops"].append(op)
    if rng.random() < 0.6:
        case["ops"].append({"op": "close", "answers": _answers(rng, "close") + [rng.choice(["ok", "ok", "zeroret", "reset"])]})
    return case


def shrink_retry(case: dict):
    ops = case.get("ops") or []
    for i in range(len(ops)):
        yield {**case, "ops": ops[:i] + ops[i + 1:]}

    def cut(answers: list):
        for j in range(len(answers) - 1):
            yield answers[:j] + answers[j + 1:]
    for a in cut(case.get("handshake") or ["ok"]):
        yield {**case, "handshake": a}
    for i, op in enumerate(ops):
        if op["op"] in ("send_all", "send_iter"):
            continue                                   # the answers carry the byte counts: keep them consistent
        for a in cut(op.get("answers") or ["ok"]):
            yield {**case, "ops": ops[:i] + [{**op, "answers": a}] + ops[i + 1:]}
