"""
C15 layer "tie": the REAL stream server (AsyncTCPNetworkServer, or the low-level AsyncStreamServer over the backend's TCP
listener) on a REAL loopback socket, i.e. over the asyncio stream adapter (`StreamReaderBufferedProtocol`), driven TURN BY
TURN on a virtual clock (vlib/c10_vloop.VLoop: one `turn()` = one `_run_once` = ready handles, then the I/O callbacks of
what `select(0)` reports, then the timers now due - CPython's own order), for the clause

    "the request handler receives each request exactly once and in order ... and a yielded timeout raises TimeoutError in
     the handler only if no complete request arrived in time"

in the part of the schedule space the in-memory layers exclude by construction: request bytes that become readable in the
SAME loop iteration as the deadline of the yielded timeout (the reader callback hands the bytes to the parked receive, then
the timer cancels it before the task wakes up), one / two / three iterations before it, or after it - for whole requests
and for every part of a request sent in pieces.

case = {"layer": "tie", "path": "copy"|"buffered", "server": "tcp"|"low", "timeouts": [T, ...] (seconds or null; yield #j
        of the connection uses timeouts[j % len]), "per_gen": n (events per handle() generator, 0 = one generator for ever),
        "max_recv": n, "resp": bool (the handler answers every request),
        "eof_off": o | null (the peer's FIN is part of the schedule of the LAST request, at offset max(o, its last piece)),
        "reqs": [{"cuts": [n1, ...] (sizes of all pieces but the last), "offs": [o1, ...] (one per piece, non-decreasing:
                  the piece becomes readable |o| iterations before (o < 0) / in (o == 0) / o iterations after (o > 0) the
                  iteration in which the timer of the current yield fires), "bad": bool (a frame the serializer rejects)}]}

TLS twin (`"tls": true`, optional `"tls_max": "1.2"|"1.3"`): the same servers with `ssl=ctx` (AsyncTCPNetworkServer) / behind
the library's `AsyncTLSListener` (AsyncStreamServer), the peer a real `ssl.SSLObject` (memory BIOs) over the loopback socket,
the handshake stepped turn by turn.  A piece is then what the peer WRITES: one TLS record per piece; with `"rec": true` on a
request the whole request is ONE record and the pieces are slices of its ciphertext (`cuts` in ciphertext bytes: 1..5 = inside
the record header): the deadline of the yielded timeout passes while the server holds a partial record.  The peer's FIN is
close_notify + FIN.  What is exercised on top of the plain cases: `AsyncTLSStreamTransport._retry_ssl_method()` cancelled by
the timeout's scope while it refills the read BIO from the socket adapter, then used again.

The driver is synchronous code: between two turns it writes to the peer socket (and waits until the kernel reports the
bytes on the server-side descriptor: FIONREAD), sets the clock to the deadline, reads what the handler recorded.  Nothing
runs between two turns, nothing depends on wall-clock time; waits that involve the kernel or the resolver thread are bounded
(5 s) and raise InfraError when missed.
"""
from __future__ import annotations

import asyncio
import contextlib
import fcntl
import logging
import select
import socket
import ssl
import struct
import termios
import time
from typing import Any

from vlib import core
from vlib.c10_vloop import VLoop

from easynetwork.exceptions import StreamProtocolParseError
from easynetwork.lowlevel.api_async.backend._asyncio.backend import AsyncIOBackend
from easynetwork.lowlevel.api_async.servers.stream import AsyncStreamServer
from easynetwork.lowlevel.socket import INETSocketAttribute
from easynetwork.protocol import BufferedStreamProtocol, StreamProtocol
from easynetwork.serializers.line import StringLineSerializer
from easynetwork.servers.async_tcp import AsyncTCPNetworkServer
from easynetwork.servers.handlers import AsyncStreamRequestHandler

HOST = "127.0.0.1"
IO_BOUND = 5.0
GRACE_DEADLINES = 3
FIN = object()          # pseudo piece: the peer shuts its sending side down
BAD = b"\xe9\xfe"


def payload(i: int, req: dict) -> bytes:
    if req.get("bad"):
        return BAD + b"%d" % i
    return (f"r{i}-" + "abcdefghijklmnopqrstuvwxyz"[: int(req.get("size", 8))]).encode()


def expected(case: dict) -> list[str]:
    return ["parse" if r.get("bad") else "req:" + payload(i, r).decode() for i, r in enumerate(case["reqs"])]


class Recorder:
    """what the handler generators observed, and where the connection currently is"""

    def __init__(self, case: dict) -> None:
        self.case = case
        self.events: list[str] = []
        self.yields = 0
        self.waiting: Any = "-"          # the timeout of the yield the generator is suspended at ("-" = not at a yield)
        self.gen_started = 0
        self.gen_ended: dict[int, int] = {}
        self.sock: Any = None
        self.disc = 0
        self.connected = False
        self.peer_port: int | None = None   # only the connection of the driver's own peer counts (another process may have
        self.strangers = 0                  # been given this port before and still knock on it)

    def mine(self, client: Any) -> bool:
        try:
            return int(client.extra(INETSocketAttribute.peername)[1]) == self.peer_port
        except Exception:  # noqa: BLE001
            return False

    async def stranger(self):
        self.strangers += 1
        while True:
            try:
                yield None
            except GeneratorExit:
                raise
            except BaseException:  # noqa: BLE001
                pass

    def timeout_for(self) -> float | None:
        ts = self.case.get("timeouts") or [None]
        return ts[self.yields % len(ts)]

    async def generator(self, client: Any, low: bool = False):
        if low and not self.mine(client):
            async for _ in self.stranger():
                yield _
            return
        k = self.gen_started
        self.gen_started += 1
        self.events.append(f"gen{k}:start")
        per_gen = 0 if low else int(self.case.get("per_gen", 0))
        if low:
            self.sock = client.extra(INETSocketAttribute.socket)
            self.connected = True
        n = 0
        try:
            while per_gen == 0 or n < per_gen:
                t = self.timeout_for()
                self.yields += 1
                self.waiting = t
                try:
                    req = yield t
                except TimeoutError:
                    self.waiting = "-"
                    self.events.append("timeout")
                    n += 1
                    continue
                except StreamProtocolParseError:
                    self.waiting = "-"
                    self.events.append("parse")
                    n += 1
                    continue
                except GeneratorExit:
                    raise
                except Exception as e:  # noqa: BLE001
                    self.waiting = "-"
                    self.events.append("err:" + type(e).__name__)
                    n += 1
                    if isinstance(e, OSError):
                        # a connection error (never on the unchanged library: the peer leaves with a FIN): a handler that went
                        # on asking would be thrown the same error again, without a checkpoint, for ever
                        return
                    continue
                self.waiting = "-"
                self.events.append(f"req:{req}")
                n += 1
                if self.case.get("resp"):
                    with contextlib.suppress(Exception):
                        await client.send_packet("ok " + str(req))
        finally:
            self.waiting = "-"
            self.gen_ended[k] = self.gen_ended.get(k, 0) + 1
            self.events.append(f"gen{k}:end")
            if low:
                self.disc += 1


class Handler(AsyncStreamRequestHandler[str, str]):
    def __init__(self, rec: Recorder) -> None:
        self.rec = rec

    async def on_connection(self, client) -> None:  # type: ignore[override]
        if self.rec.mine(client):
            self.rec.sock = client.extra(INETSocketAttribute.socket)
            self.rec.connected = True

    def handle(self, client):  # type: ignore[override]
        return self.rec.generator(client) if self.rec.mine(client) else self.rec.stranger()

    async def on_disconnection(self, client) -> None:  # type: ignore[override]
        if self.rec.mine(client):
            self.rec.disc += 1


def fionread(fd: int) -> int:
    return struct.unpack("i", fcntl.ioctl(fd, termios.FIONREAD, struct.pack("i", 0)))[0]


class Driver:
    def __init__(self, case: dict) -> None:
        self.case = case
        self.loop = VLoop()
        self.rec = Recorder(case)
        self.lines: list[str] = []
        self.fin_sent = False
        self.tls = bool(case.get("tls"))
        self.p_obj: Any = None
        self.p_in: Any = None
        self.p_out: Any = None
        self.send_failed: str | None = None

    # ---- TLS peer
    def tls_handshake(self, peer: socket.socket) -> None:
        """the peer's side of the handshake, the server stepped turn by turn in between (nothing blocks)"""
        from vlib import c15_tls
        self.p_in, self.p_out = ssl.MemoryBIO(), ssl.MemoryBIO()
        self.p_obj = c15_tls.client_context(self.case.get("tls_max", "1.3")).wrap_bio(
            self.p_in, self.p_out, server_side=False, server_hostname="localhost")
        peer.setblocking(False)
        t0 = time.monotonic()
        done = False
        while not done:
            try:
                self.p_obj.do_handshake()
                done = True
            except ssl.SSLWantReadError:
                pass
            out = self.p_out.read()
            if out:
                peer.setblocking(True)
                peer.settimeout(IO_BOUND)
                peer.sendall(out)
                peer.setblocking(False)
            if done:
                break
            # the server's answer
            while True:
                self.loop.turn()
                try:
                    d = peer.recv(65536)
                except BlockingIOError:
                    d = None
                if d:
                    self.p_in.write(d)
                    break
                if d == b"":
                    raise core.InfraError(f"C15 tie: the server hung up during the TLS handshake: {self.case}")
                if time.monotonic() - t0 > IO_BOUND:
                    raise core.InfraError(f"C15 tie: the TLS handshake did not complete within {IO_BOUND}s: {self.case}")
                if self.loop.turns % 20 == 0:
                    time.sleep(0.0002)
        peer.setblocking(True)
        peer.settimeout(IO_BOUND)

    def encrypt(self, data: bytes) -> bytes:
        self.p_obj.write(data)
        return self.p_out.read()

    # ---- stepping
    def spin(self, cond, label: str) -> None:
        t0 = time.monotonic()
        n = 0
        while not cond():
            self.loop.turn()
            n += 1
            if n % 20 == 0:
                time.sleep(0.0002)
            if time.monotonic() - t0 > IO_BOUND:
                raise core.InfraError(f"C15 tie: {label} did not happen within {IO_BOUND}s: {self.case}")

    def quiesce(self, limit: int = 600) -> bool:
        """turns until two consecutive turns leave nothing runnable (the clock does not move: no timer fires)"""
        idle = n = 0
        while idle < 2:
            self.loop.turn()
            n += 1
            idle = idle + 1 if not self.loop._ready else 0
            if n > limit:
                return False
        return True

    def next_deadline(self) -> float | None:
        ws = [h._when for h in self.loop._scheduled if not h._cancelled]
        return min(ws) if ws else None

    def send(self, peer: socket.socket, data: Any) -> None:
        """the bytes are in the server socket's receive queue when this returns"""
        fd = self.rec.sock.fileno()
        if self.send_failed is not None:
            return
        if data is FIN:
            try:
                if self.tls:
                    try:
                        self.p_obj.unwrap()
                    except ssl.SSLError:        # (WantRead: our close_notify is in the BIO, the server's has not come yet)
                        pass
                    peer.sendall(self.p_out.read())
                peer.shutdown(socket.SHUT_WR)
            except OSError as e:
                self.send_failed = type(e).__name__
                return
            self.fin_sent = True
            if fd != -1:
                po = select.poll()
                po.register(fd, select.POLLRDHUP)
                if not po.poll(IO_BOUND * 1000):
                    raise core.InfraError(f"C15 tie: the peer's FIN did not arrive within {IO_BOUND}s")
            return
        before = fionread(fd) if fd != -1 else 0
        try:
            peer.sendall(data)
        except OSError as e:
            # the server has dropped the connection (never on the unchanged library: the peer is the one that leaves)
            self.send_failed = type(e).__name__
            return
        if fd == -1:
            return
        t0 = time.monotonic()
        while fionread(fd) < before + len(data):
            if time.monotonic() - t0 > IO_BOUND:
                raise core.InfraError(f"C15 tie: {len(data)} bytes sent on loopback did not arrive within {IO_BOUND}s")
            time.sleep(0.0001)

    # ---- the session
    async def _serve(self, up: asyncio.Event, box: dict) -> None:
        case = self.case
        proto: Any = (BufferedStreamProtocol if case.get("path") == "buffered" else StreamProtocol)(StringLineSerializer())
        max_recv = int(case.get("max_recv", 16384))
        if case.get("server", "tcp") == "tcp":
            kw: dict[str, Any] = {}
            if self.tls:
                from vlib import c15_tls
                kw["ssl"] = c15_tls.server_context()
            server = AsyncTCPNetworkServer(HOST, 0, proto, Handler(self.rec), backend=AsyncIOBackend(),
                                           log_client_connection=False, max_recv_size=max_recv, **kw)
            box["server"] = server
            box["port"] = lambda: server.get_addresses()[0].port
            await server.serve_forever(is_up_event=up)
        else:
            be = AsyncIOBackend()
            (lst,) = await be.create_tcp_listeners(HOST, 0, 8)
            if self.tls:
                from vlib import c15_tls
                lst = c15_tls.wrap_listener(lst)        # the library's AsyncTLSListener
            low = AsyncStreamServer(lst, proto, max_recv)
            box["low"] = low
            port = lst.extra(INETSocketAttribute.sockname)[1]
            box["port"] = lambda: port
            rec = self.rec

            def handler(client):
                # (the low-level server takes ONE generator per connection: the shape's generator, never restarted)
                return rec.generator(client, low=True)

            up.set()
            await low.serve(handler)

    def run(self) -> list[str]:
        loop, rec, case = self.loop, self.rec, self.case
        asyncio.set_event_loop(loop)
        peer: socket.socket | None = None
        box: dict[str, Any] = {}
        up = asyncio.Event()
        serve = loop.create_task(self._serve(up, box))
        try:
            self.spin(lambda: up.is_set() or serve.done(), "server start")
            if serve.done():
                raise core.InfraError(f"C15 tie: the server did not come up: {serve!r}")
            peer = socket.socket(socket.AF_INET, socket.SOCK_STREAM)
            peer.settimeout(IO_BOUND)
            peer.bind((HOST, 0))
            rec.peer_port = peer.getsockname()[1]
            peer.connect((HOST, box["port"]()))
            peer.setsockopt(socket.IPPROTO_TCP, socket.TCP_NODELAY, 1)
            if self.tls:
                self.tls_handshake(peer)
            self.spin(lambda: rec.connected and rec.waiting != "-", "the connection's first yield")
            for i, req in enumerate(case["reqs"]):
                self.play(peer, i, req)
            # the peer hangs up: everything still undelivered must come out, then the generator is closed
            mark = len(rec.events)
            if not self.fin_sent:
                self.send(peer, FIN)
                if not self.fin_sent:
                    with contextlib.suppress(OSError):
                        peer.shutdown(socket.SHUT_WR)
            if self.send_failed is not None:
                self.lines.append(f"send-failed {self.send_failed}")
            self.spin(lambda: rec.disc > 0 or serve.done(), "the end of the connection after the peer's EOF")
            self.quiesce()
            self.lines.append("end events=" + ",".join(rec.events[mark:]))
        finally:
            if peer is not None:
                peer.close()
            self.stop(serve, box)
        self.lines.append("all " + ",".join(e for e in rec.events if not e.startswith("gen")))
        self.lines.append(f"gens started={rec.gen_started} ended=" + ",".join(f"{k}:{v}" for k, v in sorted(rec.gen_ended.items())))
        self.lines.append(f"disc {rec.disc}")
        return self.lines

    def play(self, peer: socket.socket, i: int, req: dict) -> None:
        loop, rec = self.loop, self.rec
        if not self.quiesce():
            self.lines.append(f"round {i} busy-loop")
        data = payload(i, req) + b"\n"
        cuts = [int(c) for c in req.get("cuts", [])]
        offs = [int(o) for o in req.get("offs", [0])]
        pieces, pos = [], 0
        for c in cuts:
            c = max(1, min(c, len(data) - pos - 1))
            pieces.append(data[pos:pos + c])
            pos += c
        pieces.append(data[pos:])
        if self.tls and self.send_failed is None:
            try:
                if req.get("rec"):
                    # ONE record; the pieces are slices of its ciphertext
                    ct = self.encrypt(data)
                    sl, pos = [], 0
                    for c in cuts:
                        c = max(1, min(c, len(ct) - pos - 1))
                        sl.append(ct[pos:pos + c])
                        pos += c
                    sl.append(ct[pos:])
                    pieces = sl
                else:
                    pieces = [self.encrypt(x) for x in pieces]       # one record per piece
            except ssl.SSLError as e:
                self.send_failed = type(e).__name__
        offs = (offs + [offs[-1]] * len(pieces))[:len(pieces)]
        if self.case.get("eof_off") is not None and i == len(self.case["reqs"]) - 1:
            # the peer hangs up right behind its last request: the FIN is one more "piece" of the schedule
            pieces.append(FIN)
            offs.append(max(int(self.case["eof_off"]), offs[-1]))
        mark = len(rec.events)
        t = rec.waiting
        deadline = self.next_deadline() if t not in ("-", None) else None
        info = f"T={t} offs={','.join(map(str, offs))} sizes={','.join('fin' if x is FIN else str(len(x)) for x in pieces)}"
        want = expected(self.case)[i]
        if deadline is None:
            # no timer armed (yield None, or the generator is between two yields): the pieces one iteration apart
            for piece in pieces:
                self.send(peer, piece)
                loop.turn()
        else:
            for off in range(min(offs + [0]), max(offs + [0]) + 1):
                if off == 0:
                    loop._vnow = max(loop._vnow, deadline)      # the timer is due in the coming iteration
                for piece, o in zip(pieces, offs):
                    if o == off:
                        self.send(peer, piece)
                loop.turn()
        self.quiesce()
        # a request whose bytes are all there must come out without the clock moving; if it did not, let further deadlines
        # expire (the handler may be waiting with a timeout again) before giving up on it
        grace = 0
        while want not in rec.events[mark:] and grace < GRACE_DEADLINES:
            d = self.next_deadline()
            if d is None:
                break
            grace += 1
            loop._vnow = max(loop._vnow, d)
            loop.turn()
            self.quiesce()
        ev = [e for e in rec.events[mark:] if not e.startswith("gen")]
        self.lines.append(f"round {i} {info} grace={grace} events=" + ",".join(ev))

    def stop(self, serve: asyncio.Task, box: dict) -> None:
        loop = self.loop
        try:
            closer = None
            if "server" in box:
                async def down():
                    await box["server"].shutdown()
                    await box["server"].server_close()
                closer = loop.create_task(down())
            elif "low" in box:
                closer = loop.create_task(box["low"].aclose())
            t0 = time.monotonic()
            while not serve.done() and time.monotonic() - t0 < IO_BOUND:
                loop.turn()
                if closer is not None and closer.done() and not serve.done() and "low" in box:
                    serve.cancel()
            if not serve.done():
                serve.cancel()
                self.lines.append("serve-end stuck")
            else:
                self.lines.append("serve-end clean")
            for _ in range(5):
                loop.turn()
            for t in (serve, closer):
                if t is not None and t.done() and not t.cancelled():
                    t.exception()
        finally:
            ex = getattr(loop, "_default_executor", None)
            if ex is not None:
                ex.shutdown(wait=True)          # (the resolver's worker thread is idle by now)
            loop.shutdown()
            asyncio.set_event_loop(None)


def run_real(case: dict) -> tuple[list[str], dict]:
    logging.getLogger("easynetwork").setLevel(logging.CRITICAL)
    return Driver(case).run(), {"written": b""}


# ----------------------------------------------------------------------------------------------------------------------
# oracle / generation
# ----------------------------------------------------------------------------------------------------------------------
def describe(case: dict) -> str:
    srv = "AsyncTCPNetworkServer" if case.get("server", "tcp") == "tcp" else "AsyncStreamServer"
    if case.get("tls"):
        srv += ("(ssl=ctx)" if case.get("server", "tcp") == "tcp" else " behind AsyncTLSListener") + f" [TLS {case.get('tls_max', '1.3')}]"
    proto = "BufferedStreamProtocol (recv_into)" if case.get("path") == "buffered" else "StreamProtocol (recv)"
    return f"{srv} on loopback, {proto}, handler yielding timeouts {case.get('timeouts')}"


def oracle(case: dict, real: list[str]) -> str | None:
    for ln in real:
        if ln.startswith("harness-exc"):
            return "unexpected failure: " + ln
    what = describe(case)
    want = expected(case)
    allv = next((ln[4:] for ln in real if ln.startswith("all ")), None)
    if allv is None:
        return f"{what}: no result"
    got_all = [e for e in allv.split(",") if e]
    got = [e for e in got_all if e != "timeout"]
    # 1. each request exactly once, in order (a malformed one as a parse error at its position); nothing else is thrown
    dropped = next((ln for ln in real if ln.startswith("send-failed ")), None)
    if got != want or dropped:
        if got == want:
            return (f"{what}: the server dropped the connection while the peer was still sending ({dropped}); all events: {got_all}; "
                    + "; ".join(ln for ln in real if ln.startswith("round ")))
        k = next((j for j in range(max(len(got), len(want))) if j >= len(got) or j >= len(want) or got[j] != want[j]), 0)
        # which round carried the tie?
        rounds = [ln for ln in real if ln.startswith("round ")]
        detail = rounds[min(k, len(rounds) - 1)] if rounds else ""
        return (f"{what}: the handler saw {got}, the peer sent {want} (first difference at #{k}; "
                f"{detail}; all events: {got_all})")
    # 2. TimeoutError only if no complete request arrived in time: a request whose last byte was readable at least one
    #    full loop iteration before the timer fired (and fits one read) must be delivered, not a TimeoutError
    for i, req in enumerate(case["reqs"]):
        ln = next((x for x in real if x.startswith(f"round {i} ")), None)
        if ln is None:
            continue
        offs = [int(o) for o in req.get("offs", [0])]
        ev = ln.split("events=")[1].split(",") if "events=" in ln else []
        if " T=None " in ln or " T=- " in ln:
            if "timeout" in ev:
                return f"{what}: TimeoutError although the generator had yielded no timeout: {ln}"
            continue
        fits = int(case.get("max_recv", 16384)) >= len(payload(i, req)) + 1
        want_i = want[i]
        early = "timeout" in (ev[:ev.index(want_i)] if want_i in ev else ev)
        if max(offs) < 0 and fits and early:
            return (f"{what}: TimeoutError although the complete request #{i} had been readable {-max(offs)} loop "
                    f"iteration(s) before the deadline: {ln}")
        if ev.count("timeout") > 1 + int(ln.split("grace=")[1].split()[0]):
            return f"{what}: more TimeoutErrors than deadlines that expired: {ln}"
    # 3. generators: every started one ended exactly once; the connection ended
    g = next((ln for ln in real if ln.startswith("gens ")), "")
    started = int(g.split("started=")[1].split()[0]) if "started=" in g else -1
    ended = [tok for tok in (g.split("ended=")[1].split(",") if "ended=" in g else []) if tok]
    if started != len(ended) or any(tok.split(":")[1] != "1" for tok in ended):
        return f"{what}: {started} generator(s) started, finalisations: {ended}"
    if "disc 1" not in real:
        return f"{what}: the connection did not end once after the peer's EOF: {[ln for ln in real if ln.startswith('disc')]}"
    if "serve-end clean" not in real:
        return f"{what}: the server did not stop"
    return None


def nontrivial(case: dict, real: list[str]) -> str | None:
    feats = set()
    for req in case["reqs"]:
        offs = req.get("offs", [0])
        if 0 in offs:
            feats.add("tie" if offs[-1] == 0 else "tie-partial")
        elif max(offs) > 0 and min(offs) < 0:
            feats.add("straddle")
        if req.get("bad"):
            feats.add("bad")
    if any("timeout" in ln for ln in real if ln.startswith("round ")):
        feats.add("timeout")
    if case.get("tls"):
        # a deadline passed (TimeoutError in the handler) and a later request of the same connection was delivered
        evs = [e for ln in real if ln.startswith("round ") and "events=" in ln for e in ln.split("events=")[1].split(",")]
        if "timeout" in evs and any(e.startswith(("req:", "parse")) for e in evs[evs.index("timeout"):]):
            feats.add("later")
        if any(r.get("rec") and r.get("cuts") for r in case["reqs"]):
            feats.add("midrecord")
    return f"tie{'-tls' if case.get('tls') else ''}/{case.get('server', 'tcp')}/{case.get('path')}/" + "+".join(sorted(feats))


def shrink(case: dict):
    reqs = case["reqs"]
    for i in range(len(reqs)):
        if len(reqs) > 1:
            yield {**case, "reqs": reqs[:i] + reqs[i + 1:]}
        r = reqs[i]
        if r.get("cuts"):
            yield {**case, "reqs": reqs[:i] + [{**r, "cuts": r["cuts"][:-1], "offs": r["offs"][:-2] + r["offs"][-1:]}] + reqs[i + 1:]}
        if r.get("bad"):
            yield {**case, "reqs": reqs[:i] + [{**r, "bad": False}] + reqs[i + 1:]}
        if r.get("rec"):
            yield {**case, "reqs": reqs[:i] + [{**r, "rec": False}] + reqs[i + 1:]}
    for key, val in (("resp", False), ("per_gen", 0), ("max_recv", 16384), ("server", "low"), ("eof_off", None)):
        if case.get(key) != val:
            yield {**case, key: val}
    if len(case.get("timeouts") or []) > 1:
        yield {**case, "timeouts": case["timeouts"][:1]}
    if case.get("tls") and case.get("tls_max", "1.3") != "1.3":
        yield {**case, "tls_max": "1.3"}


def corpus() -> list[dict]:
    cs = []
    for path in ("buffered", "copy"):
        for server in ("tcp", "low"):
            # the whole request readable -2 .. +2 iterations around the deadline
            for off in (-2, -1, 0, 1, 2):
                cs.append({"layer": "tie", "path": path, "server": server, "timeouts": [None, 0.5], "per_gen": 0,
                           "max_recv": 16384, "resp": False,
                           "reqs": [{"offs": [0]}, {"offs": [off]}, {"offs": [-1]}]})
                # ... and the peer's FIN in the same iteration as the request / as the deadline
                cs.append({"layer": "tie", "path": path, "server": server, "timeouts": [0.5], "per_gen": 0,
                           "max_recv": 16384, "resp": False, "eof_off": 0,
                           "reqs": [{"offs": [-1]}, {"offs": [off]}]})
            # a request in two / three pieces, a piece in the deadline iteration
            for offs in ([-1, 0], [0, 0], [0, 1], [0, 2], [-2, 0, 1], [-1, 1]):
                cs.append({"layer": "tie", "path": path, "server": server, "timeouts": [0.5], "per_gen": 1,
                           "max_recv": 64, "resp": True,
                           "reqs": [{"offs": [1]}, {"cuts": [3, 4][:len(offs) - 1], "offs": offs}, {"offs": [0], "bad": True},
                                    {"offs": [-1]}]})
    return cs + corpus_tls()


def corpus_tls() -> list[dict]:
    """the TLS twin: yielded timeouts that expire while the server waits for bytes of a TLS connection - before any byte of
    the request, inside the request (a record per piece), inside a TLS record (slices of one record's ciphertext, the first
    cut inside the 5-byte header) - the handler goes on, the peer sends the rest / the next requests; then close_notify + FIN"""
    cs = []
    for path in ("buffered", "copy"):
        for server in ("tcp", "low"):
            for tls_max in ("1.3", "1.2"):
                base = {"layer": "tie", "path": path, "server": server, "tls": True, "tls_max": tls_max, "max_recv": 16384}
                # the history of the clause: request, silence (deadline passes), request, request cut in two by a deadline
                cs.append({**base, "timeouts": [0.5], "per_gen": 2, "resp": True,
                           "reqs": [{"offs": [-2]}, {"offs": [2]}, {"cuts": [3], "offs": [-1, 2]}, {"offs": [-1]}]})
                # ... cut inside the TLS record (header / body / tag), pieces before - in - after the deadline iteration
                cs.append({**base, "timeouts": [0.5], "per_gen": 0, "resp": False,
                           "reqs": [{"offs": [1]}, {"rec": True, "cuts": [3], "offs": [-1, 1]}, {"rec": True, "cuts": [5, 9], "offs": [-2, 0, 2]},
                                    {"rec": True, "cuts": [20], "offs": [0, 0]}, {"offs": [-1]}]})
            # ties: the record readable in the very iteration of the deadline; FIN (close_notify) behind the last request
            for off in (-1, 0, 1):
                cs.append({"layer": "tie", "path": path, "server": server, "tls": True, "timeouts": [None, 0.5], "per_gen": 0,
                           "max_recv": 16384, "resp": False, "eof_off": 0,
                           "reqs": [{"offs": [0]}, {"offs": [off]}, {"offs": [1], "bad": True}, {"rec": True, "cuts": [4], "offs": [off, off + 1]}]})
    return cs


def gen_case(rng) -> dict:
    c = _gen_case(rng)
    if rng.random() < 0.3:
        c["tls"] = True
        c["tls_max"] = rng.choice(["1.3", "1.3", "1.2"])
        for r in c["reqs"]:
            if rng.random() < 0.4:
                r["rec"] = True
                r["cuts"] = [rng.choice([1, 3, 5, 6, 12, 20]) for _ in r.get("cuts", [])]
            if rng.random() < 0.4:
                # the deadline passes before the (last piece of the) request: TimeoutError first, the request afterwards
                r["offs"] = sorted(r["offs"][:-1] + [rng.choice([1, 1, 2, 3])])
    return c


def _gen_case(rng) -> dict:
    reqs = []
    for _ in range(rng.choice([1, 2, 2, 3, 4])):
        n = rng.choice([1, 1, 2, 2, 3])
        cuts = [rng.randint(1, 6) for _ in range(n - 1)]
        offs = sorted(rng.choice([-3, -2, -1, -1, 0, 0, 0, 1, 1, 2, 3]) for _ in range(n))
        reqs.append({"cuts": cuts, "offs": offs, "bad": rng.random() < 0.1, "size": rng.choice([1, 8, 8, 20])})
    return {"layer": "tie", "path": rng.choice(["buffered", "buffered", "copy"]), "server": rng.choice(["tcp", "tcp", "low"]),
            "timeouts": rng.choice([[0.5], [0.5], [0.25, 1.0], [None, 0.5], [0.5, None, 2.0]]),
            "per_gen": rng.choice([0, 0, 1, 2, 3]), "max_recv": rng.choice([16384, 16384, 64, 5, 1]),
            "resp": rng.random() < 0.4, "reqs": reqs, "eof_off": rng.choice([None, None, None, -1, 0, 0, 1])}
