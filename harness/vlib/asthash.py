"""normalised-AST hashes of the EasyNetwork sources (change-directed escalation; never a verdict)"""
from __future__ import annotations

import ast
import hashlib
import json
import os
from pathlib import Path


def _strip_docstrings(tree: ast.AST) -> None:
    for node in ast.walk(tree):
        if isinstance(node, (ast.Module, ast.ClassDef, ast.FunctionDef, ast.AsyncFunctionDef)):
            b = node.body
            if b and isinstance(b[0], ast.Expr) and isinstance(b[0].value, ast.Constant) and isinstance(b[0].value.value, str):
                node.body = b[1:] or [ast.Pass()]


def hash_source(src: str) -> str:
    try:
        tree = ast.parse(src)
    except SyntaxError:
        return "syntax-error:" + hashlib.sha256(src.encode()).hexdigest()[:16]
    _strip_docstrings(tree)
    return hashlib.sha256(ast.dump(tree, include_attributes=False).encode()).hexdigest()[:20]


def hash_tree(repo: str | os.PathLike) -> dict[str, str]:
    root = Path(repo) / "src" / "easynetwork"
    res: dict[str, str] = {}
    for p in sorted(root.rglob("*.py")):
        rel = str(p.relative_to(Path(repo)))
        if rel.endswith("easynetwork/version.py"):
            continue
        try:
            res[rel] = hash_source(p.read_text())
        except OSError:
            res[rel] = "unreadable"
    return res


def changed_modules(repo: str | os.PathLike, baseline_file: str | os.PathLike) -> list[str] | None:
    """modules whose normalised AST differs from the committed baseline (None: no baseline)"""
    import sys
    try:
        obj = json.loads(Path(baseline_file).read_text())
        base = obj["modules"]
        if obj.get("python") != list(sys.version_info[:2]):
            return None      # ast.dump() differs between interpreter versions: no comparison rather than a wrong one
    except (OSError, ValueError, KeyError):
        return None
    cur = hash_tree(repo)
    return sorted(m for m in set(base) | set(cur) if base.get(m) != cur.get(m))
