"""
Deterministic world for the blocking (selector based) transports — shared by C04 and C11.

  * VClock            virtual clock; `time.perf_counter` is replaced by it while a case runs (ElapsedTime looks
                      `time.perf_counter` up at construction).  1 tick = 1.0 s; all values are small integers, so
                      float arithmetic is exact and equals the Lean model's Nat ticks.
  * ScriptedSocket    a real `socket.socket` subclass on one end of a socketpair.  Every send/sendmsg/recv/recv_into
                      consumes ONE event of the socket script (also a zero-length send: the kernel answers it
                      with 0), advances the clock by the event's processing ticks and then
                         sent n / data <bytes>   really writes to / "reads" from the fd
                         eagain / eintr          BlockingIOError / InterruptedError
                         wantr / wantw / sysc / zeroret   ssl.SSLWantReadError / … (TLS flavour only)
                         reset / pipe            ConnectionResetError / BrokenPipeError
                      When the script is used up it raises ScriptExhausted (a BaseException): a loop that does
                      not make progress therefore always ends, as the observable `exhausted sock` — no watchdog thread.
  * ScriptedSelector  given through the public `selector_factory=` parameter; every select() consumes one event of
                      the selector script:  ready d  (returns the key after d ticks)  /  expired over
                      (returns [] after  wait+over  ticks; with an infinite wait: after `over` ticks)  /  never over
                      (the descriptor NEVER signals the awaited condition: a bounded wait returns [] after
                      wait+over ticks; a select() WITHOUT timeout would block for ever — it ends the run with
                      ScriptExhausted("hang"), observable `exhausted hang`, instead of blocking the harness).
  * FakeSSLContext    duck-typed `ssl_context` whose wrap_socket() returns a ScriptedSocket raising the ssl
                      exceptions: SSLStreamTransport's own logic (join, send_all, _try_ssl_method) runs unmodified
                      under a scripted partial-write pattern (real OpenSSL runs are separate, oracle-only cases).

Log lines (identical to what the Lean driver prints):
    call <offered bytes> <nbufs>      one socket send/sendmsg call
    rcall <bufsize>                   one socket recv/recv_into call
    select <R|W> <wait|inf>           one selector.select() call
"""
from __future__ import annotations

import contextlib
import errno
import math
import os
import selectors
import socket
import ssl
import time
from typing import Any


class ScriptExhausted(BaseException):
    def __init__(self, which: str) -> None:
        super().__init__(which)
        self.which = which


class VClock:
    def __init__(self) -> None:
        self.now = 0.0

    def perf_counter(self) -> float:
        return self.now


def fmt_t(t: float | None) -> str:
    if t is None or t == math.inf:
        return "inf"
    if float(t).is_integer():
        return str(int(t))
    return repr(float(t))


def ticks(t: float) -> str:
    return fmt_t(t)


BLOCK_KINDS = {"eagain", "eintr", "wantr", "wantw", "sysc"}


class World:
    """scripts + clock + log of one case"""

    def __init__(self, sock_script: list, sel_script: list) -> None:
        self.clock = VClock()
        self.sock = [tuple(e) for e in sock_script]   # (kind, arg, p)
        self.sel = [tuple(e) for e in sel_script]     # (kind, d)
        self.si = 0
        self.li = 0
        self.log: list[str] = []
        self.wire = bytearray()      # bytes the scripted socket accepted (cross-check of the peer's view)
        self.select_log: list[tuple[float | None, float]] = []  # (requested wait, elapsed)
        self.proc = 0.0

    def next_sock(self) -> tuple:
        if self.si >= len(self.sock):
            raise ScriptExhausted("sock")
        e = self.sock[self.si]
        self.si += 1
        self.clock.now += e[2]
        self.proc += e[2]
        return e

    def next_sel(self) -> tuple:
        if self.li >= len(self.sel):
            raise ScriptExhausted("sel")
        e = self.sel[self.li]
        self.li += 1
        return e

    @contextlib.contextmanager
    def installed(self):
        old = time.perf_counter
        time.perf_counter = self.clock.perf_counter  # type: ignore[assignment]
        try:
            yield self
        finally:
            time.perf_counter = old  # type: ignore[assignment]

    def selector_factory(self) -> "ScriptedSelector":
        return ScriptedSelector(self)


def _raise_for(kind: str) -> None:
    if kind == "eagain":
        raise BlockingIOError(errno.EAGAIN, os.strerror(errno.EAGAIN))
    if kind == "eintr":
        raise InterruptedError(errno.EINTR, os.strerror(errno.EINTR))
    if kind == "wantr":
        raise ssl.SSLWantReadError(ssl.SSL_ERROR_WANT_READ, "want read")
    if kind == "wantw":
        raise ssl.SSLWantWriteError(ssl.SSL_ERROR_WANT_WRITE, "want write")
    if kind == "sysc":
        raise ssl.SSLSyscallError(ssl.SSL_ERROR_SYSCALL, "syscall")
    if kind == "zeroret":
        raise ssl.SSLZeroReturnError(ssl.SSL_ERROR_ZERO_RETURN, "zero return")
    if kind == "reset":
        raise ConnectionResetError(errno.ECONNRESET, os.strerror(errno.ECONNRESET))
    if kind == "pipe":
        raise BrokenPipeError(errno.EPIPE, os.strerror(errno.EPIPE))
    raise AssertionError(f"unknown socket event {kind!r}")


class ScriptedSocket(socket.socket):
    def __init__(self, world: World, real: socket.socket) -> None:
        super().__init__(real.family, real.type, real.proto, fileno=real.detach())
        self._world = world

    # ---- write side
    def _do_send(self, bufs: list[bytes]) -> int:
        w = self._world
        offered = sum(len(b) for b in bufs)
        kind, arg, _p = w.next_sock()
        w.log.append(f"call {offered} {len(bufs)}")
        if kind == "sent":
            k = min(int(arg), offered)
            if k:
                data = b"".join(bufs)[:k]
                n = socket.socket.send(self, data)
                if n != k:
                    raise AssertionError("harness: socketpair buffer full")
                w.wire += data
            return k
        _raise_for(kind)
        raise AssertionError

    def send(self, data, flags=0):  # type: ignore[override]
        return self._do_send([bytes(data)])

    def sendmsg(self, buffers, *args):  # type: ignore[override]
        return self._do_send([bytes(b) for b in buffers])

    def sendall(self, data, flags=0):  # type: ignore[override]
        raise AssertionError("sendall() must not be used by the transports")

    # ---- read side
    def _do_recv(self, bufsize: int) -> bytes:
        w = self._world
        kind, arg, _p = w.next_sock()
        w.log.append(f"rcall {bufsize}")
        if kind == "data":
            return bytes.fromhex(arg)[:bufsize] if arg != "-" else b""
        _raise_for(kind)
        raise AssertionError

    def recv(self, bufsize, flags=0):  # type: ignore[override]
        return self._do_recv(bufsize)

    def recv_into(self, buffer, nbytes=0, flags=0):  # type: ignore[override]
        with memoryview(buffer) as mv, mv.cast("B") as mv:
            data = self._do_recv(nbytes or len(mv))
            mv[: len(data)] = data
            return len(data)

    # ---- TLS flavour (used through FakeSSLContext only)
    def do_handshake(self, block: bool = False) -> None:
        return None

    def unwrap(self):
        return self


class ScriptedSocketNoSendmsg(ScriptedSocket):
    """`hasattr(sock, "sendmsg")` is False (platforms without sendmsg)"""

    @property
    def sendmsg(self):  # type: ignore[override]
        raise AttributeError("sendmsg")


class FakeSSLContext:
    def __init__(self, world: World) -> None:
        self.world = world
        self.wrapped: ScriptedSocket | None = None

    def wrap_socket(self, sock: socket.socket, **kwargs: Any) -> ScriptedSocket:
        self.wrapped = ScriptedSocket(self.world, sock)
        return self.wrapped


class ScriptedSelector:
    def __init__(self, world: World) -> None:
        self.world = world
        self.event = 0
        self.fd = -1

    def __enter__(self) -> "ScriptedSelector":
        return self

    def __exit__(self, *args: Any) -> None:
        return None

    def close(self) -> None:
        return None

    def register(self, fileobj: Any, events: int, data: Any = None) -> Any:
        if not isinstance(fileobj, int) or fileobj < 0:
            raise ValueError("Invalid file descriptor")
        self.fd = fileobj
        self.event = events
        return selectors.SelectorKey(fileobj, fileobj, events, data)

    def select(self, timeout: float | None = None) -> list:
        w = self.world
        letter = "R" if self.event == selectors.EVENT_READ else "W" if self.event == selectors.EVENT_WRITE else "?"
        kind, d = w.next_sel()
        w.log.append(f"select {letter} {fmt_t(timeout)}")
        if kind == "ready":
            el = float(d)
            ret = [(selectors.SelectorKey(self.fd, self.fd, self.event, None), self.event)]
        elif kind == "expired":
            el = float(d) if timeout is None else float(timeout) + float(d)
            ret = []
        elif kind == "never":
            # a condition the descriptor never signals (TLS "want read" during a write whose bytes never show up as a new
            # readability event, ...): only the retry_interval wake-ups can get the operation going again
            if timeout is None:
                w.select_log.append((None, math.inf))
                raise ScriptExhausted("hang")
            el = float(timeout) + float(d)
            ret = []
        else:
            raise AssertionError(f"unknown selector event {kind!r}")
        w.clock.now += el
        w.select_log.append((timeout, el))
        return ret


def drain_peer(peer: socket.socket) -> bytes:
    peer.setblocking(False)
    out = bytearray()
    while True:
        try:
            b = peer.recv(65536)
        except (BlockingIOError, InterruptedError):
            break
        if not b:
            break
        out += b
    return bytes(out)


def outcome_line(exc: BaseException | None) -> str:
    if exc is None:
        return "out ok"
    if isinstance(exc, ScriptExhausted):
        return f"out exhausted {exc.which}"
    if isinstance(exc, TimeoutError):
        return "out timeout"
    if isinstance(exc, ConnectionResetError):
        return "out err reset"
    if isinstance(exc, BrokenPipeError):
        return "out err pipe"
    if isinstance(exc, ConnectionAbortedError):
        return "out err aborted"
    if isinstance(exc, RuntimeError) and "infinite timeout" in str(exc):
        return "out rterr"
    return f"out exc {type(exc).__name__}"
