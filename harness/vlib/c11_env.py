"""
C11 sessions: a sequence of blocking calls (recv_packet / send_packet / iter_received_packets, datagram recv/send) on
ONE real endpoint or client, each call with its own socket script and selector script, under the virtual clock of
vlib/c04_env.py.  Lock contention is scripted through a lock object given to the real `lock_with_timeout`
(client layer: installed in the real TCPNetworkClient through a ForkSafeLock factory).

Lines (identical to what the Lean driver `runTimeout` prints):
    op <i>                              start of the i-th call
    lock try | lock wait <t|inf>        lock.acquire(False) / lock.acquire(True, t) / `with lock:`
    olock try | olock wait <t|inf>      the same on the lock of the OTHER direction (op key `olock`: held by another thread
                                        for d ticks); never printed by the model: a timed call has no business with it
    lock release                        lock.release() by the call that acquired it (the model prints it too: Obs.lockRelease)
    lock release-foreign                release() of a lock this call did not acquire while another thread holds it
    lock left-held                      the call returned without releasing the lock it acquired
    rcall <bufsize> | call <offered> <nbufs> | select <R|W> <wait|inf>
    ret pkt <hex> | ret ok | ret timeout | ret eof | ret stop | ret parse | ret err <e> | ret exhausted <sock|sel> | ret rterr
    t <ticks>                           virtual time between call and return/raise
"""
from __future__ import annotations

import math
import selectors
import socket
from typing import Any

from vlib import c04_env as env
from vlib import core, sers

SEP = b"\n"
LIMIT = 64


class ScriptedLock:
    """threading.Lock look-alike.  `event` = ("free",) or ("busy", d): the holder releases it after d ticks."""

    def __init__(self, world: env.World) -> None:
        self.world = world
        self.event: tuple = ("free",)
        self.held = False
        self.role = "lock"     # "lock": the lock of the direction of the current call; "olock": the lock of the OTHER direction

    def set(self, role: str, event) -> None:
        self.role = role
        if not self.held:
            self.event = tuple(event)

    def _busy(self) -> int | None:
        return None if self.event[0] == "free" else int(self.event[1])

    def acquire(self, blocking: bool = True, timeout: float = -1) -> bool:
        w = self.world
        if self.held:
            raise AssertionError("harness: lock acquired twice")
        d = self._busy()
        if not blocking:
            w.log.append(f"{self.role} try")
            if d is None:
                self.held = True
                return True
            return False
        if timeout is None or timeout < 0:
            w.log.append(f"{self.role} wait inf")
            w.clock.now += d or 0
            self.held = True
            return True
        w.log.append(f"{self.role} wait {env.fmt_t(timeout)}")
        if (d or 0) <= timeout:
            w.clock.now += d or 0
            self.held = True
            return True
        w.clock.now += timeout
        return False

    def release(self) -> None:
        if not self.held:
            if self._busy() is not None:
                # threading.Lock has no owner check: releasing the lock that ANOTHER thread holds succeeds (and breaks it)
                self.world.log.append(f"{self.role} release-foreign")
                self.event = ("free",)
                return
            raise RuntimeError("release unlocked lock")
        self.world.log.append(f"{self.role} release")
        self.held = False
        self.event = ("free",)   # contention is over once we got it

    def __enter__(self) -> bool:
        return self.acquire()

    def __exit__(self, *a: Any) -> None:
        self.release()

    def locked(self) -> bool:
        return self.held


HEAD = 5      # reserved bytes at the head of the buffer of the `bufhead` protocol
VIEW = 8      # size of the write view behind it


def _head_room_serializer():
    """user-defined buffered serializer (documented extension point): SEP-terminated frames accumulated BEHIND a reserved head
    area of HEAD bytes: the generator yields a NON-ZERO start position, so the write view handed to recv_into() is smaller
    than the whole buffer"""
    from easynetwork.exceptions import LimitOverrunError
    from easynetwork.serializers.abc import BufferedIncrementalPacketSerializer

    class HeadRoomSep(BufferedIncrementalPacketSerializer):  # type: ignore[type-arg]
        def serialize(self, packet):
            return bytes(packet)

        def deserialize(self, data):
            return bytes(data)

        def incremental_serialize(self, packet):
            if packet:                      # (as RawAutoSep, which the model's send side mirrors: nothing for an empty payload)
                yield bytes(packet) + SEP

        def incremental_deserialize(self):
            buf = b""
            while SEP not in buf:
                buf += yield
            a, _, b = buf.partition(SEP)
            return a, b

        def create_deserializer_buffer(self, sizehint):
            return bytearray(HEAD + VIEW)

        def buffered_incremental_deserialize(self, buffer):
            # a small fixed receive buffer consumed chunk by chunk: what arrives behind the head area is moved to the
            # parser's own accumulator, the next read goes to the same place again
            acc = bytearray()
            while True:
                n = yield HEAD
                with memoryview(buffer) as mv:
                    acc += mv[HEAD:HEAD + n]
                idx = acc.find(SEP)
                if idx >= 0:
                    return bytes(acc[:idx]), bytes(acc[idx + len(SEP):])
                if len(acc) >= LIMIT:
                    raise LimitOverrunError("frame too long", bytes(acc), len(acc))

    return HeadRoomSep()


def make_protocol(path: str):
    from easynetwork.protocol import BufferedStreamProtocol, StreamProtocol

    if path == "bufhead":
        return BufferedStreamProtocol(_head_room_serializer())
    ser = sers.RawAutoSep(SEP, limit=LIMIT)
    return BufferedStreamProtocol(ser) if path == "buffered" else StreamProtocol(ser)


def tcp_pair() -> tuple[socket.socket, socket.socket]:
    lst = socket.socket(socket.AF_INET, socket.SOCK_STREAM)
    try:
        lst.bind(("127.0.0.1", 0))
        lst.listen(1)
        a = socket.socket(socket.AF_INET, socket.SOCK_STREAM)
        a.connect(lst.getsockname())
        b, _ = lst.accept()
        return a, b
    finally:
        lst.close()


def ret_line(exc: BaseException | None, value: Any = None) -> str:
    from easynetwork.exceptions import ClientClosedError, StreamProtocolParseError, DatagramProtocolParseError

    if exc is None:
        if value is None:
            return "ret ok"
        return f"ret pkt {core.hexs(bytes(value))}"
    if isinstance(exc, env.ScriptExhausted):
        return f"ret exhausted {exc.which}"
    if isinstance(exc, (StopIteration,)):
        return "ret stop"
    if isinstance(exc, TimeoutError):
        return "ret timeout"
    if isinstance(exc, ConnectionAbortedError):
        return "ret eof"
    if isinstance(exc, ConnectionResetError):
        return "ret err reset"
    if isinstance(exc, BrokenPipeError):
        return "ret err pipe"
    if isinstance(exc, (StreamProtocolParseError, DatagramProtocolParseError)):
        return "ret parse"
    if isinstance(exc, ClientClosedError):
        return "ret closed"
    if isinstance(exc, RuntimeError) and "infinite timeout" in str(exc):
        return "ret rterr"
    return f"ret exc {type(exc).__name__}"


class _PatchedSelector:
    """TCPNetworkClient builds its transport without `selector_factory=`: the default is looked up in the
    `selectors` module when the transport is constructed — replaced for that moment only"""

    def __init__(self, w: env.World) -> None:
        self.w = w

    def __enter__(self):
        self.old = getattr(selectors, "PollSelector", None)
        selectors.PollSelector = self.w.selector_factory  # type: ignore[misc,assignment]

    def __exit__(self, *a):
        if self.old is None:
            del selectors.PollSelector
        else:
            selectors.PollSelector = self.old  # type: ignore[misc]


def _timed(w: env.World, fn) -> None:
    t0 = w.clock.now
    exc: BaseException | None = None
    val = None
    try:
        val = fn()
    except KeyboardInterrupt:
        raise
    except BaseException as e:  # noqa: BLE001
        exc = e
    w.log.append(ret_line(exc, val))
    w.log.append(f"t {env.ticks(w.clock.now - t0)}")
    if isinstance(exc, env.ScriptExhausted):
        raise exc


def _left_held(w: env.World, *locks: "ScriptedLock") -> None:
    """after a call returned: a lock it still holds is reported and then released by the harness (so that the session goes on)"""
    for lk in locks:
        if lk.held:
            w.log.append(f"{lk.role} left-held")
            lk.held = False
            lk.event = ("free",)


class RawDgram:
    """one-shot pass-through serializer of the datagram client sessions"""

    def serialize(self, packet: bytes) -> bytes:
        return bytes(packet)

    def deserialize(self, data: bytes) -> bytes:
        return bytes(data)


def run_session(case: dict) -> list[str]:
    w = env.World([], [])
    cfg = case["cfg"]
    ri = math.inf if cfg["ri"] is None else float(cfg["ri"])
    closers: list = []
    try:
        with w.installed():
            if cfg["kind"] == "dgram":
                return _run_dgram(case, w, ri, closers)
            return _run_stream(case, w, ri, closers)
    finally:
        for c in closers:
            try:
                c()
            except Exception:
                pass


def _load(w: env.World, op: dict) -> None:
    w.sock = [tuple(e) for e in op.get("sock", [])]
    w.sel = [tuple(e) for e in op.get("sel", [])]
    w.si = 0
    w.li = 0


def _tmo(t):
    return None if t is None else float(t)


def _run_stream(case: dict, w: env.World, ri: float, closers: list) -> list[str]:
    from easynetwork.lowlevel._lock import ForkSafeLock
    from easynetwork.lowlevel.api_sync.endpoints.stream import StreamEndpoint
    from easynetwork.lowlevel.api_sync.transports.socket import SocketStreamTransport, SSLStreamTransport

    cfg = case["cfg"]
    proto = make_protocol(cfg["path"])
    recv_lock = ScriptedLock(w)
    send_lock = ScriptedLock(w)
    client = None
    if cfg["layer"] == "client":
        from easynetwork.clients.tcp import TCPNetworkClient

        a, b = tcp_pair()
        closers.append(b.close)
        if cfg["flavour"] == "tls":
            ctx = env.FakeSSLContext(w)
            closers.append(a.close)
            with _PatchedSelector(w):
                client = TCPNetworkClient(a, proto, ssl=ctx, server_hostname="x", ssl_standard_compatible=False,  # type: ignore[arg-type]
                                          retry_interval=ri, max_recv_size=cfg["bufsize"])
            closers.append(lambda: ctx.wrapped.close() if ctx.wrapped else None)
        else:
            s = env.ScriptedSocket(w, a)
            closers.append(s.close)
            with _PatchedSelector(w):
                client = TCPNetworkClient(s, proto, retry_interval=ri, max_recv_size=cfg["bufsize"])
        client._TCPNetworkClient__receive_lock = ForkSafeLock(lambda: recv_lock)  # type: ignore[attr-defined]
        client._TCPNetworkClient__send_lock = ForkSafeLock(lambda: send_lock)  # type: ignore[attr-defined]
        target: Any = client
    else:
        a, b = socket.socketpair()
        closers.append(b.close)
        if cfg["flavour"] == "tls":
            ctx = env.FakeSSLContext(w)
            closers.append(a.close)
            tr = SSLStreamTransport(a, ctx, ri, selector_factory=w.selector_factory, server_side=False,  # type: ignore[arg-type]
                                    server_hostname="x", standard_compatible=False)
            closers.append(lambda: ctx.wrapped.close() if ctx.wrapped else None)
        else:
            s = env.ScriptedSocket(w, a)
            closers.append(s.close)
            tr = SocketStreamTransport(s, ri, selector_factory=w.selector_factory)
        target = StreamEndpoint(tr, proto, cfg["bufsize"])
    try:
        for i, op in enumerate(case["ops"]):
            w.log.append(f"op {i}")
            _load(w, op)
            k = op["op"]
            if k == "tick":
                w.clock.now += op["p"]
                continue
            if client is not None and k in ("recv", "send"):
                mine, other = (recv_lock, send_lock) if k == "recv" else (send_lock, recv_lock)
                mine.set("lock", op.get("lock", ("free",)))
                other.set("olock", op.get("olock", ("free",)))
            if k == "recv":
                _timed(w, lambda: target.recv_packet(timeout=_tmo(op["T"])))
                _left_held(w, recv_lock, send_lock)
            elif k == "send":
                payload = bytes.fromhex(op["data"])
                _timed(w, lambda: target.send_packet(payload, timeout=_tmo(op["T"])))
                _left_held(w, recv_lock, send_lock)
            elif k == "iter":
                it = client.iter_received_packets(timeout=_tmo(op["T"]))
                for nx in op["nexts"]:
                    w.log.append("next")
                    w.clock.now += nx.get("gap", 0)
                    _load(w, nx)
                    recv_lock.set("lock", nx.get("lock", ("free",)))
                    send_lock.set("olock", nx.get("olock", ("free",)))
                    n0 = len(w.log)
                    _timed(w, lambda: next(it))
                    _left_held(w, recv_lock, send_lock)
                    if any(ln == "ret stop" for ln in w.log[n0:]):
                        break
            else:
                raise AssertionError(k)
    except env.ScriptExhausted:
        pass
    return list(w.log)


def _run_dgram(case: dict, w: env.World, ri: float, closers: list) -> list[str]:
    from easynetwork.lowlevel.api_sync.transports.socket import SocketDatagramTransport

    if case["cfg"]["layer"] == "client":
        return _run_dgram_client(case, w, ri, closers)
    a, b = socket.socketpair(socket.AF_UNIX, socket.SOCK_DGRAM)
    closers.append(b.close)
    s = env.ScriptedSocket(w, a)
    closers.append(s.close)
    tr = SocketDatagramTransport(s, ri, selector_factory=w.selector_factory, max_datagram_size=case["cfg"]["bufsize"])
    try:
        for i, op in enumerate(case["ops"]):
            w.log.append(f"op {i}")
            _load(w, op)
            k = op["op"]
            if k == "tick":
                w.clock.now += op["p"]
            elif k == "recv":
                _timed(w, lambda: tr.recv(math.inf if op["T"] is None else float(op["T"])))
            elif k == "send":
                payload = bytes.fromhex(op["data"])
                _timed(w, lambda: tr.send(payload, math.inf if op["T"] is None else float(op["T"])))
            else:
                raise AssertionError(k)
    except env.ScriptExhausted:
        pass
    return list(w.log)


def _run_dgram_client(case: dict, w: env.World, ri: float, closers: list) -> list[str]:
    """the same calls through the real UDPNetworkClient (connected UDP sockets on loopback), its two locks scripted"""
    from easynetwork.clients.udp import UDPNetworkClient
    from easynetwork.lowlevel._lock import ForkSafeLock
    from easynetwork.protocol import DatagramProtocol
    from easynetwork.serializers.abc import AbstractPacketSerializer

    class _Ser(RawDgram, AbstractPacketSerializer):  # type: ignore[type-arg,misc]
        pass

    a = socket.socket(socket.AF_INET, socket.SOCK_DGRAM)
    b = socket.socket(socket.AF_INET, socket.SOCK_DGRAM)
    closers.append(b.close)
    a.bind(("127.0.0.1", 0))
    b.bind(("127.0.0.1", 0))
    a.connect(b.getsockname())
    s = env.ScriptedSocket(w, a)
    closers.append(s.close)
    with _PatchedSelector(w):
        client = UDPNetworkClient(s, DatagramProtocol(_Ser()), retry_interval=ri)
    recv_lock = ScriptedLock(w)
    send_lock = ScriptedLock(w)
    client._UDPNetworkClient__receive_lock = ForkSafeLock(lambda: recv_lock)  # type: ignore[attr-defined]
    client._UDPNetworkClient__send_lock = ForkSafeLock(lambda: send_lock)  # type: ignore[attr-defined]
    try:
        for i, op in enumerate(case["ops"]):
            w.log.append(f"op {i}")
            _load(w, op)
            k = op["op"]
            if k == "tick":
                w.clock.now += op["p"]
                continue
            mine, other = (recv_lock, send_lock) if k == "recv" else (send_lock, recv_lock)
            mine.set("lock", op.get("lock", ("free",)))
            other.set("olock", op.get("olock", ("free",)))
            if k == "recv":
                _timed(w, lambda: client.recv_packet(timeout=_tmo(op["T"])))
            elif k == "send":
                payload = bytes.fromhex(op["data"])
                _timed(w, lambda: client.send_packet(payload, timeout=_tmo(op["T"])))
            else:
                raise AssertionError(k)
            _left_held(w, recv_lock, send_lock)
    except env.ScriptExhausted:
        pass
    return list(w.log)
