"""
C12, thread-safe blocking clients (clients/tcp.py, clients/udp.py): stress run with real OS threads.

The interleaving of OS threads cannot be controlled here, so this is a sampled run judged by the oracle only
(no model run): N threads call client.send_packet at the same time on a loopback socket whose `send`/`sendmsg`
accept only a few bytes per call and release the GIL after every call, with a 1 microsecond switch interval,
so that an unprotected critical section would interleave almost surely.

Since seeded change C12-m6 the senders are not alone on the client (format 2 of the thread cases):

* `aux` threads call, in a loop and for as long as the senders run, the OTHER thread-safe methods of the same client,
  i.e. everything public that takes the send lock or the receive lock: `is_closed()`, `get_local_address()`,
  `get_remote_address()`, `fileno()`, the `client.socket` proxy (`fileno`, `getsockname`, `getpeername`, `getsockopt`,
  `setsockopt`, `get_inheritable`, `repr`), `recv_packet(timeout=0 / 1ms)`, `iter_received_packets(timeout=0)`;
* senders may use a check-then-send idiom (`if not client.is_closed(): client.send_packet(p)`, or an address / fileno
  lookup before each send);
* the socket really PARKS the sender in the middle of a packet, lock held, GIL released: at the send calls listed in
  `parks` it sleeps `park_ms` after the partial write (and notes whether an auxiliary call was attempted in that window:
  `note aux-window`), at the calls listed in `eagain` it raises BlockingIOError so that the transport goes through its
  selector wait and retries (lock still held);
* the peer may send packets of its own (`peer_packets`), which the `recv*` calls of the auxiliary threads pick up;
* when all senders are back the main thread drains what the peer sent, calls `send_eof()` (TCP; the peer reads up to
  EOF, so nothing is missed and nothing is waited for) and `close()`, and looks at `is_closed()` / `fileno()` after it.

Every auxiliary call must succeed with the right answer (`TimeoutError` of a receive with a zero/short timeout is the
expected answer when nothing is there); what the peer sent must come out of the receive calls exactly once, in order.

Lines: `sent s<i> <j> <outcome>`, `aux <thread> <op> <distinct outcome>`, `final <step> <outcome>`, `wire <hex>` (tcp) or
`dgram <hex>`… (udp), `rx <hex>`…, `arx <thread> <hex>`…, `note contended`, `note aux-window`.
No wall-clock criterion is used for the verdict.  A thread that is not back after a very generous deadline makes the
whole case run a second time: not back again = `hang …` (a verdict: the call never returns); back = infrastructure
error, not a violation.

Round 6, target `mthreads`: 2-3 client OBJECTS (TCP / UDP mixed), each a complete thread case of the above format with its own
socket pair, senders, auxiliary threads and peer, all running at the same time in the process (`run_multi_threads`).  Lines
`o<k> <line>` = the lines of object k; the oracle of every object is the unchanged one-object oracle.  One object may be the
`gater`: where its plan says `parks`, its sender is parked in the middle of a packet (its client's lock held) not for a fixed
time but UNTIL a send_packet call made by a thread of ANOTHER client object has returned normally (or no other client has a
sender left): what one client's lock protects must not keep another client from sending.  `note gated <n>` = n such parks saw
another client complete a send.  If nobody else completes a send within the deadline although their senders are still
running, the case is run a second time: again = `hang`, a verdict; otherwise infrastructure error.
"""
from __future__ import annotations

import errno
import socket
import sys
import threading
import time
from typing import Any

from vlib import core, sers
from vlib import c12_run as R

from easynetwork.clients.tcp import TCPNetworkClient
from easynetwork.clients.udp import UDPNetworkClient
from easynetwork.protocol import DatagramProtocol

DEADLINE = 30.0
GATE_DEADLINE = 10.0        # a gated park (target mthreads) waits at most that long for another client to complete a send
_gate_confirmed = False     # a stalled gate was seen twice in a row (a verdict): later gates of this process wait 1 s only
DRAIN_TIMEOUT = 5.0
SENTINEL = b"\xff\x00END-OF-RUN\x00\xff"

# every public thread-safe method of the blocking clients besides send_packet (send lock unless noted)
AUX_OPS = ["is_closed", "local", "remote", "fileno", "sock.fileno", "sock.getsockname", "sock.getpeername",
           "sock.getsockopt", "sock.setsockopt", "sock.get_inheritable", "sock.repr",
           "recv0", "recv1", "iter0"]                 # the last three: receive lock
RECV_OPS = ("recv0", "recv1", "iter0")
IDIOMS = ["is_closed", "is_closed", "remote", "local", "fileno", "sock.getsockopt"]


class _Hang(Exception):
    def __init__(self, who: str) -> None:
        super().__init__(who)
        self.who = who


class _FastSwitch:
    """sys.setswitchinterval(1e-6) while at least one stress run is in its sending phase (several runs may overlap)"""

    _lock = threading.Lock()
    _n = 0
    _old = 0.005

    @classmethod
    def enter(cls) -> None:
        with cls._lock:
            if cls._n == 0:
                cls._old = sys.getswitchinterval()
                sys.setswitchinterval(1e-6)
            cls._n += 1

    @classmethod
    def leave(cls) -> None:
        with cls._lock:
            cls._n -= 1
            if cls._n == 0:
                sys.setswitchinterval(cls._old)


class _Hub:
    """what the client objects of one `mthreads` run share (harness side only): who has completed sends, who still has senders"""

    def __init__(self, nsenders: list[int], gater: int | None) -> None:
        self.cond = threading.Condition()
        self.ok_sends = [0] * len(nsenders)
        self.active = list(nsenders)
        self.gater = gater
        self.gated = 0
        self.stalled: str | None = None
        # the senders of the other clients make their first call once the gater is parked for the first time (or has no sender left)
        self.first_park = threading.Event()
        if self.gater is None or not nsenders[self.gater]:
            self.first_park.set()

    def sent_ok(self, k: int) -> None:
        with self.cond:
            self.ok_sends[k] += 1
            self.cond.notify_all()

    def sender_exit(self, k: int) -> None:
        with self.cond:
            self.active[k] = max(0, self.active[k] - 1)
            if k == self.gater and not self.active[k]:
                self.first_park.set()
            self.cond.notify_all()

    def object_done(self, k: int) -> None:
        with self.cond:
            self.active[k] = 0
            if k == self.gater:
                self.first_park.set()
            self.cond.notify_all()

    def wait_for_others(self, k: int, deadline: float) -> None:
        """called by a sender of object k in the middle of a packet, its client's lock held"""
        self.first_park.set()
        with self.cond:
            snap = sum(self.ok_sends) - self.ok_sends[k]
            while True:
                if sum(self.ok_sends) - self.ok_sends[k] > snap:
                    self.gated += 1
                    return
                if sum(self.active) - self.active[k] <= 0:
                    return
                left = deadline - time.monotonic()
                if left <= 0:
                    if self.stalled is None:
                        busy = [f"o{j}" for j, n in enumerate(self.active) if j != k and n > 0]
                        self.stalled = (f"no send_packet call on {','.join(busy)} completed while a sender of o{k} was parked "
                                        "in the middle of a packet")
                    return
                self.cond.wait(min(left, 1.0))


class _State:
    """what the socket wrapper and the threads share during one run"""

    hub: _Hub | None = None
    me = 0
    t_end = 0.0

    def __init__(self, case: dict, nthreads: int) -> None:
        self.sizes: list[int] = case.get("sizes") or [1]
        self.parks = set(case.get("parks") or [])
        self.eagain = set(case.get("eagain") or [])
        self.park_s = float(case.get("park_ms", 1)) / 1000.0
        # round 7 (packets of more than IOV_MAX chunks): `span` - a partial sendmsg() takes sizes[k] bytes ACROSS the buffers it
        # was given (it may stop at a buffer boundary, inside a buffer, or take the whole batch); `kernel` - no scripted sizes:
        # the partial writes are the kernel's own (small SO_SNDBUF / SO_RCVBUF, peer reading slowly)
        self.span = bool(case.get("span"))
        self.kernel = bool(case.get("kernel"))
        self.partial_batches = 0              # sendmsg() calls that left at least two buffers of their batch unsent
        self.k = 0
        self.started = [0] * nthreads         # auxiliary calls begun, per thread (single writer each)
        self.incall = [False] * nthreads      # thread is inside an auxiliary call right now
        self.aux_window = False               # an auxiliary call was attempted while a sender was parked mid-packet

    def tick(self) -> int:
        k = self.k
        self.k = k + 1
        return k

    def park(self) -> None:
        before = sum(self.started)
        inside = any(self.incall)
        if self.hub is not None and self.hub.gater == self.me:
            self.hub.wait_for_others(self.me, self.t_end)
        else:
            time.sleep(self.park_s)
        if inside or sum(self.started) > before or any(self.incall):
            self.aux_window = True


class PartialSocket(socket.socket):
    """a real connected socket whose send/sendmsg accept at most `sizes[k]` bytes and then yield the GIL;
    at the calls listed in the plan it parks (sleeps) after the partial write or pretends EAGAIN before it"""

    st: _State | None = None

    def _gate(self) -> int:
        st = self.st
        assert st is not None
        k = st.tick()
        if k in st.eagain:
            raise BlockingIOError(errno.EAGAIN, "Resource temporarily unavailable (simulated)")
        return k

    def _after(self, k: int) -> None:
        st = self.st
        assert st is not None
        if k in st.parks:
            st.park()
        else:
            time.sleep(0)

    def _size(self, k: int) -> int:
        st = self.st
        assert st is not None
        return max(1, st.sizes[k % len(st.sizes)])

    def send(self, data, flags=0):  # type: ignore[override]
        k = self._gate()
        mv = memoryview(data).cast("B")
        n = super().send(mv if self.st.kernel else mv[: self._size(k)], flags)
        self._after(k)
        return n

    def sendmsg(self, buffers, *args):  # type: ignore[override]
        k = self._gate()
        st = self.st
        if st.kernel:
            bl = list(buffers)
            n = super().sendmsg(bl, *args)              # the kernel decides how much it takes (non-blocking socket)
            if len(bl) > 2 and n + memoryview(bl[-1]).nbytes + memoryview(bl[-2]).nbytes < sum(memoryview(b).nbytes for b in bl):
                st.partial_batches += 1                 # (at least two buffers of the batch are left)
            self._after(k)
            return n
        if st.span:
            left = self._size(k)
            parts = []
            it = iter(buffers)
            for b in it:
                mv = memoryview(b).cast("B")
                if len(mv):
                    parts.append(mv[:left])
                    left -= len(parts[-1])
                    if left <= 0:
                        break
            n = super().send(b"".join(parts)) if parts else 0
            if sum(1 for _b, _ in zip(it, (0, 1))) == 2:
                st.partial_batches += 1
            self._after(k)
            return n
        for b in buffers:
            mv = memoryview(b).cast("B")
            if len(mv):
                n = super().send(mv[: self._size(k)])
                self._after(k)
                return n
        return 0


class SlowDgramSocket(socket.socket):
    """a real connected UDP socket: datagrams go out whole, but at the calls listed in the plan the sender is parked
    (lock held, GIL released) before or after the system call"""

    st: _State | None = None

    def send(self, data, flags=0):  # type: ignore[override]
        st = self.st
        if st is None:
            return super().send(data, flags)
        k = st.tick()
        if k in st.eagain:
            raise BlockingIOError(errno.EAGAIN, "Resource temporarily unavailable (simulated)")
        if k in st.parks and k % 2:
            st.park()
        n = super().send(data, flags)
        if k in st.parks and not k % 2:
            st.park()
        else:
            time.sleep(0)
        return n


def _tcp_pair(st: _State) -> tuple[socket.socket, socket.socket]:
    srv = socket.socket(socket.AF_INET, socket.SOCK_STREAM)
    try:
        srv.bind(("127.0.0.1", 0))
        srv.listen(1)
        c = socket.socket(socket.AF_INET, socket.SOCK_STREAM)
        try:
            if st.kernel:
                # (set before listen / connect: the kernel rounds them up to its minimum, a few kilobytes)
                srv.setsockopt(socket.SOL_SOCKET, socket.SO_RCVBUF, 2048)
                c.setsockopt(socket.SOL_SOCKET, socket.SO_SNDBUF, 2048)
            c.connect(srv.getsockname())
            peer, _ = srv.accept()
        except BaseException:
            c.close()
            raise
    finally:
        srv.close()
    ps = PartialSocket(fileno=c.detach())
    ps.st = st
    return ps, peer


def _udp_pair(st: _State) -> tuple[socket.socket, socket.socket]:
    a = SlowDgramSocket(socket.AF_INET, socket.SOCK_DGRAM)
    b = socket.socket(socket.AF_INET, socket.SOCK_DGRAM)
    try:
        a.bind(("127.0.0.1", 0))
        b.bind(("127.0.0.1", 0))
        a.connect(b.getsockname())
        b.connect(a.getsockname())
    except BaseException:
        a.close()
        b.close()
        raise
    a.st = st
    return a, b


def _tmo(s: dict, j: int):
    ts = s.get("timeouts")
    return ts[j] if ts and j < len(ts) else None


def _idiom(s: dict, j: int) -> str | None:
    xs = s.get("idioms")
    return xs[j] if xs and j < len(xs) else None


def _exc(e: BaseException) -> str:
    msg = "-".join(str(e).split())[:60]
    return R.exc_enum(e) + (":" + msg if msg else "")


def _do_op(client: Any, op: str, truth: dict, spec: dict, sink: list[str]) -> str:
    """one auxiliary call; the answer is checked against what the harness knows about the socket"""
    try:
        if op == "is_closed":
            return str(client.is_closed())
        if op == "local":
            a = client.get_local_address()
            return "ok" if tuple(a)[:2] == truth["local"] else f"wrong:{tuple(a)}"
        if op == "remote":
            a = client.get_remote_address()
            return "ok" if tuple(a)[:2] == truth["remote"] else f"wrong:{tuple(a)}"
        if op == "fileno":
            v = client.fileno()
            return "ok" if v == truth["fd"] else f"wrong:{v}"
        if op == "sock.fileno":
            v = client.socket.fileno()
            return "ok" if v == truth["fd"] else f"wrong:{v}"
        if op == "sock.getsockname":
            v = client.socket.getsockname()
            return "ok" if tuple(v)[:2] == truth["local"] else f"wrong:{v}"
        if op == "sock.getpeername":
            v = client.socket.getpeername()
            return "ok" if tuple(v)[:2] == truth["remote"] else f"wrong:{v}"
        if op == "sock.getsockopt":
            v = client.socket.getsockopt(socket.SOL_SOCKET, socket.SO_TYPE)
            return "ok" if v == truth["type"] else f"wrong:{v}"
        if op == "sock.setsockopt":
            client.socket.setsockopt(socket.SOL_SOCKET, socket.SO_REUSEADDR, 1)
            return "ok"
        if op == "sock.get_inheritable":
            v = client.socket.get_inheritable()
            return "ok" if v is False else f"wrong:{v}"
        if op == "sock.repr":
            v = repr(client.socket)
            return "ok" if f"fd={truth['fd']}" in v else "wrong:" + "-".join(v.split())[:60]
        if op in ("recv0", "recv1"):
            try:
                p = client.recv_packet(timeout=0 if op == "recv0" else 0.001)
            except TimeoutError:
                return "timeout"
            sink.append(R.packet_hex(spec, p) if truth["tcp"] else _dgram_hex(spec, p))
            return "pk"
        if op == "iter0":
            for p in client.iter_received_packets(timeout=0):
                sink.append(R.packet_hex(spec, p) if truth["tcp"] else _dgram_hex(spec, p))
            return "ok"
        return f"unknown-op:{op}"
    except Exception as e:
        return _exc(e)


def _dgram_hex(spec: dict, p: Any) -> str:
    return R.packet_hex(spec, p)


def _bounded(fn, what: str, deadline: float) -> Any:
    """run one call of the final phase in its own thread: a lock left locked must not hang the harness"""
    box: list[Any] = []

    def run() -> None:
        try:
            box.append(("ok", fn()))
        except Exception as e:
            box.append(("exc", e))

    t = threading.Thread(target=run, daemon=True)
    t.start()
    t.join(max(0.5, deadline - time.monotonic()))
    if not box:
        raise _Hang(what)
    kind, v = box[0]
    if kind == "exc":
        raise v
    return v


def run_threads(case: dict) -> list[str]:
    """`tries` (set by the shrinker only): the schedule of OS threads is sampled, so a shrunk case is given up to that
    many samples; the first one the oracle objects to is the observation"""
    lines: list[str] = []
    for _ in range(max(1, int(case.get("tries", 1)))):
        lines = _run_guarded(case)
        if oracle(case, lines):
            break
    return lines


def _run_guarded(case: dict) -> list[str]:
    try:
        return _run_once(case)
    except _Hang as h1:
        first = h1.who
    try:
        _run_once(case)
    except _Hang as h2:
        return [f"hang {h2.who}"]
    raise core.InfraError(f"C12 thread stress run did not finish within the deadline ({first}); it did on the retry")


def _run_once(case: dict, hub: _Hub | None = None, me: int = 0) -> list[str]:
    spec = case["spec"]
    kind = case["target"]
    tcp = kind == "tcp"
    senders = case["senders"]
    auxs = case.get("aux") or []
    nthreads = len(senders) + len(auxs)
    st = _State(case, nthreads)
    st.hub, st.me = hub, me
    lines: list[str] = []
    lock = threading.Lock()
    if tcp:
        csock, peer = _tcp_pair(st)
    else:
        csock, peer = _udp_pair(st)
    try:
        truth = {"local": csock.getsockname()[:2], "remote": csock.getpeername()[:2], "fd": csock.fileno(),
                 "type": csock.getsockopt(socket.SOL_SOCKET, socket.SO_TYPE), "tcp": tcp}
        if tcp:
            client: Any = TCPNetworkClient(csock, R.build_protocol(spec))
        else:
            client = UDPNetworkClient(csock, DatagramProtocol(sers.build(spec)))
    except BaseException:
        csock.close()
        peer.close()
        raise
    ser = None if tcp else sers.build(spec)
    peer_out: list[bytes] = []
    for h in case.get("peer_packets") or []:
        peer_out.append(R.expected_chunks(spec, h) if tcp else ser.serialize(R.packet_of(spec, h)))
    got = bytearray()
    dgrams: list[bytes] = []
    stop = threading.Event()
    senders_done = threading.Event()
    peer_sent_all = threading.Event()
    end_seen = threading.Event()
    t_end = time.monotonic() + DEADLINE
    st.t_end = time.monotonic() + (1.0 if _gate_confirmed else GATE_DEADLINE)
    peer.settimeout(0.005)

    peer_read = int(case.get("peer_read", 65536))
    peer_nap = float(case.get("peer_nap_ms", 0)) / 1000.0

    def peer_loop() -> None:
        pending = list(peer_out)
        while not stop.is_set() and time.monotonic() < t_end + 5:
            if peer_nap and not senders_done.is_set():
                time.sleep(peer_nap)            # a slow reader: the sender's socket buffer stays full (kernel partial writes)
            if pending:
                try:
                    peer.sendall(pending.pop(0)) if tcp else peer.send(pending.pop(0))
                except OSError:
                    pending.clear()
            if not pending:
                peer_sent_all.set()
            try:
                d = peer.recv(peer_read)
            except TimeoutError:
                continue
            except OSError:
                if tcp:
                    return
                continue        # ICMP errors surface here for UDP: not an observable of this run
            if tcp:
                if not d:
                    end_seen.set()
                    while pending:          # (nobody reads them any more, but keep the flag truthful)
                        pending.pop()
                    peer_sent_all.set()
                    return
                got.extend(d)
            else:
                if d == SENTINEL:
                    end_seen.set()
                    peer_sent_all.set()
                    return
                dgrams.append(d)

    barrier = threading.Barrier(nthreads)
    aux_out: dict[str, dict[str, set[str]]] = {}
    arx: dict[str, list[str]] = {}

    def note(name: str, op: str, res: str) -> None:
        aux_out.setdefault(name, {}).setdefault(op, set()).add(res)

    def sender(i: int, s: dict) -> None:
        try:
            sender_body(i, s)
        finally:
            if hub is not None:
                hub.sender_exit(me)

    def sender_body(i: int, s: dict) -> None:
        name = f"s{i}"
        sink = arx.setdefault(name, [])
        try:
            barrier.wait(timeout=DEADLINE)
        except threading.BrokenBarrierError:
            return
        if hub is not None and hub.gater != me:
            hub.first_park.wait(DEADLINE)
        for j, h in enumerate(s["packets"]):
            out = None
            idi = _idiom(s, j)
            if idi:
                st.started[i] += 1
                st.incall[i] = True
                res = _do_op(client, idi, truth, spec, sink)
                st.incall[i] = False
                note(name, idi, res)
                if idi == "is_closed" and res == "True":
                    out = "skipped-closed"              # `if not client.is_closed(): client.send_packet(p)`
                elif res not in _allowed(idi):
                    out = "pre-" + res.split(":")[0]     # the statement in front of send_packet raised: no send
            if out is None:
                try:
                    t = _tmo(s, j)
                    if t is None:
                        client.send_packet(R.packet_of(spec, h))
                    else:
                        client.send_packet(R.packet_of(spec, h), timeout=t)
                except Exception as e:
                    out = R.exc_enum(e)
                    note(name, "send_packet", _exc(e))
                else:
                    out = "ok"
                    if hub is not None:
                        hub.sent_ok(me)
            with lock:
                lines.append(f"sent s{i} {j} {out}")

    def aux(i: int, a: dict) -> None:
        slot = len(senders) + i
        name = f"a{i}"
        sink = arx.setdefault(name, [])
        ops = a.get("ops") or ["is_closed"]
        pace = a.get("pace", "spin")
        try:
            barrier.wait(timeout=DEADLINE)
        except threading.BrokenBarrierError:
            return
        while True:
            for op in ops:
                st.started[slot] += 1
                st.incall[slot] = True
                res = _do_op(client, op, truth, spec, sink)
                st.incall[slot] = False
                note(name, op, res)
                if pace == "yield":
                    time.sleep(0)
            if pace == "nap":
                time.sleep(0.0002)
            if senders_done.is_set() or stop.is_set() or time.monotonic() > t_end:
                return

    final: list[str] = []
    hang: str | None = None
    fast = [True]

    def slow_down() -> None:
        if fast[0]:
            fast[0] = False
            _FastSwitch.leave()

    _FastSwitch.enter()
    try:
        rt = threading.Thread(target=peer_loop, daemon=True)
        rt.start()
        ths = [(f"s{i}", threading.Thread(target=sender, args=(i, s), daemon=True)) for i, s in enumerate(senders)]
        aths = [(f"a{i}", threading.Thread(target=aux, args=(i, a), daemon=True)) for i, a in enumerate(auxs)]
        for _, t in ths + aths:
            t.start()
        for _, t in ths:
            t.join(max(0.5, t_end - time.monotonic()))
        senders_done.set()
        for _, t in aths:
            t.join(max(0.5, t_end - time.monotonic()))
        stuck = [n for n, t in ths + aths if t.is_alive()]
        if stuck:
            raise _Hang(",".join(stuck))
        slow_down()
        # ---- final phase: what the peer sent comes out, send_eof / close work, the state is right afterwards
        if peer_out:
            # (a receive call that already failed explains a missing packet: no point in waiting for it)
            rx_failed = any(res not in _allowed(op) for d in aux_out.values() for op, rs in d.items() if op in RECV_OPS
                            for res in rs)
            _drain(client, case, spec, truth, arx, peer_sent_all, final, t_end, 0.05 if rx_failed else DRAIN_TIMEOUT)
        if tcp:
            final.append("final send_eof " + _step(lambda: client.send_eof(), "final send_eof", t_end))
            if final[-1].endswith(" ok") and not end_seen.wait(max(0.5, t_end - time.monotonic())):
                raise _Hang("peer never saw the end of the stream although send_eof() returned")
        else:
            try:
                socket.socket.send(csock, SENTINEL)
            except OSError as e:
                final.append("final sentinel " + _exc(e))
            end_seen.wait(max(0.5, t_end - time.monotonic()))
        final.append("final is_closed " + _step(lambda: str(client.is_closed()), "final is_closed", t_end))
        final.append("final close " + _step(lambda: client.close(), "final close", t_end))
        final.append("final is_closed_after " + _step(lambda: str(client.is_closed()), "final is_closed", t_end))
        final.append("final fileno_after " + _step(lambda: str(client.fileno()), "final fileno", t_end))
        if tcp and not end_seen.wait(max(0.5, t_end - time.monotonic())):
            raise _Hang("peer never saw the end of the stream although the client is closed")
        if not tcp and not end_seen.is_set():
            raise _Hang("peer never saw the end-of-run datagram")
        rt.join(max(0.5, t_end - time.monotonic()))
    except _Hang as h:
        hang = h.who
    finally:
        slow_down()
        stop.set()
        for s_ in (csock, peer):
            try:
                s_.close()
            except OSError:
                pass
    if hang is not None:
        raise _Hang(hang)
    lines.sort()
    for name in sorted(aux_out):
        for op in sorted(aux_out[name]):
            for res in sorted(aux_out[name][op]):
                if name.startswith("s") and op == "send_packet":
                    lines.append(f"why {name} {res}")
                else:
                    lines.append(f"aux {name} {op} {res}")
    lines.extend(final)
    if tcp:
        lines.append(f"wire {core.hexs(bytes(got))}")
        rx = R.parse_wire(spec, bytes(got))
    else:
        rx = []
        for d in dgrams:
            lines.append(f"dgram {core.hexs(d)}")
            try:
                rx.append(f"rx {R.packet_hex(spec, ser.deserialize(d))}")
            except Exception as e:
                rx.append(f"rx-err {type(e).__name__}")
    lines.extend(rx)
    for name in sorted(arx):
        for h in arx[name]:
            lines.append(f"arx {name} {h or '-'}")
    # did the threads really overlap?  (a packet of one sender between two packets of another one)
    owner = {}
    for i, s in enumerate(senders):
        for h in s["packets"]:
            owner.setdefault(h, i)
    seq = [owner.get(ln.split()[1]) for ln in rx if ln.startswith("rx ")]
    blocks = [o for k, o in enumerate(seq) if k == 0 or seq[k - 1] != o]
    if len(blocks) != len(set(blocks)):
        lines.append("note contended")
    if st.aux_window:
        lines.append("note aux-window")
    if st.partial_batches:
        lines.append("note partial-batch")
    return lines


# ------------------------------------------------------------------------------------------------
# round 6: several client objects at the same time
# ------------------------------------------------------------------------------------------------

def run_multi_threads(case: dict) -> list[str]:
    lines: list[str] = []
    for _ in range(max(1, int(case.get("tries", 1)))):
        lines = _multi_guarded(case)
        if multi_oracle(case, lines):
            break
    return lines


def _multi_guarded(case: dict) -> list[str]:
    try:
        return _multi_once(case)
    except _Hang as h1:
        first = h1.who
    try:
        _multi_once(case)
    except _Hang as h2:
        if h2.who.startswith("no send_packet call") and first.startswith("no send_packet call"):
            global _gate_confirmed
            _gate_confirmed = True
        return [f"hang {h2.who}"]
    raise core.InfraError(f"C12 multi-client thread run did not finish within the deadline ({first}); it did on the retry")


def _multi_once(case: dict) -> list[str]:
    objs = case["objects"]
    gater = case.get("gater")
    hub = _Hub([len(o["senders"]) for o in objs], gater if isinstance(gater, int) and 0 <= gater < len(objs) else None)
    results: list[Any] = [None] * len(objs)

    def run(k: int) -> None:
        try:
            results[k] = ("ok", _run_once(objs[k], hub, k))
        except _Hang as h:
            results[k] = ("hang", h.who)
        except BaseException as e:
            results[k] = ("exc", e)
        finally:
            hub.object_done(k)

    ths = [threading.Thread(target=run, args=(k,), daemon=True) for k in range(len(objs))]
    t_end = time.monotonic() + 2 * DEADLINE + 20
    for t in ths:
        t.start()
    for t in ths:
        t.join(max(0.5, t_end - time.monotonic()))
    if any(t.is_alive() for t in ths):
        raise _Hang("the run of " + ",".join(f"o{k}" for k, t in enumerate(ths) if t.is_alive()))
    if hub.stalled:
        raise _Hang(hub.stalled)
    for k, r in enumerate(results):
        if r[0] == "hang":
            raise _Hang(f"o{k}: {r[1]}")
    for r in results:
        if r[0] == "exc":
            raise r[1]
    out: list[str] = []
    for k, r in enumerate(results):
        out.extend(f"o{k} {ln}" for ln in r[1])
    out.append(f"note gated {hub.gated}")
    return out


def _split(real: list[str]) -> dict[int, list[str]]:
    per: dict[int, list[str]] = {}
    for ln in real:
        if ln.startswith("o") and " " in ln and ln[1:ln.index(" ")].isdigit():
            k, _, body = ln.partition(" ")
            per.setdefault(int(k[1:]), []).append(body)
    return per


def multi_oracle(case: dict, real: list[str]) -> str | None:
    hang = [ln for ln in real if ln.startswith("hang ")]
    if hang:
        return (f"deadlock: {hang[0][5:]} (two runs in a row, deadlines {GATE_DEADLINE:.0f} s for a parked sender to see another "
                f"client complete a send, {DEADLINE:.0f} s for a thread to come back): client objects used by different threads "
                "must not wait for each other")
    per = _split(real)
    for k, sub in enumerate(case["objects"]):
        why = oracle(sub, per.get(k, []))
        if why:
            others = ", ".join(f"o{j} {o['target']}" for j, o in enumerate(case["objects"]) if j != k)
            return f"object o{k} ({sub['target']} client; next to {others}): {why}"
    return None


def multi_nontrivial(case: dict, real: list[str]) -> str | None:
    per = _split(real)
    gated = next((int(ln.split()[2]) for ln in real if ln.startswith("note gated ")), 0)
    live = sum(1 for ls in per.values() if "note contended" in ls or "note aux-window" in ls)
    if not gated and live < 2:
        return None
    kinds = "+".join(sorted({o["target"] for o in case["objects"]}))
    return f"mthreads/{kinds}/" + ("gated" if gated else "contended")


def _step(fn, what: str, t_end: float) -> str:
    try:
        v = _bounded(fn, what, t_end)
    except _Hang:
        raise
    except Exception as e:
        return _exc(e)
    return "ok" if v is None else str(v)


def _drain(client: Any, case: dict, spec: dict, truth: dict, arx: dict, peer_sent_all: threading.Event,
           final: list[str], t_end: float, patience: float) -> None:
    """the packets of the peer that no auxiliary thread has picked up are already in the socket (loopback, the peer's
    send calls have returned): the main thread takes them out, so that 'exactly once, in order' can be judged.
    Waiting in vain for `patience` seconds is a deadline miss like any other (second run, then `hang`)"""
    if not peer_sent_all.wait(max(0.5, t_end - time.monotonic())):
        raise _Hang("peer could not send its packets")
    want = len(case.get("peer_packets") or [])
    sink = arx.setdefault("final", [])
    res = "ok"
    while sum(len(v) for v in arx.values()) < want:
        try:
            p = _bounded(lambda: client.recv_packet(timeout=patience), "final recv_packet", t_end)
        except _Hang:
            raise
        except TimeoutError as e:
            if patience >= DRAIN_TIMEOUT:
                raise _Hang(f"final recv_packet: {want - sum(len(v) for v in arx.values())} packet(s) sent by the peer "
                            "never came out of the receive calls") from None
            res = _exc(e)
            break
        except Exception as e:
            res = _exc(e)
            break
        sink.append(R.packet_hex(spec, p))
    final.append(f"final drain {res}")


def _allowed(op: str) -> set[str]:
    if op == "is_closed":
        return {"False"}
    if op in ("recv0", "recv1"):
        return {"timeout", "pk"}
    return {"ok"}


FINAL_EXPECTED = {"drain": "ok", "send_eof": "ok", "is_closed": "False", "close": "ok", "is_closed_after": "True",
                  "fileno_after": "-1"}


def oracle(case: dict, real: list[str]) -> str | None:
    from props import c12

    hang = [ln for ln in real if ln.startswith("hang ")]
    if hang:
        return (f"deadlock: {hang[0][5:]} never came back (two runs in a row, deadline {DEADLINE:.0f} s each): a thread-safe "
                "call that never returns does not succeed")
    out = c12.outcomes(real)
    whys = [ln.split(None, 2)[1:] for ln in real if ln.startswith("why ")]
    parts: list[list[str]] = []
    for i, s in enumerate(case["senders"]):
        for j, h in enumerate(s["packets"]):
            o = out.get((f"s{i}", j))
            if o == "timeout" and _tmo(s, j) is not None:
                continue        # documented outcome of a send with a timeout under contention; it must have written nothing
            if o != "ok":
                msg = [m for n, m in whys if n == f"s{i}" and o and m.startswith(o + ":")]
                extra = f" ({msg[0]})" if msg else ""
                return f"send_packet call {j} of thread s{i} failed: {o}{extra}"
        parts.append([h for j, h in enumerate(s["packets"]) if out.get((f"s{i}", j)) == "ok"])
    for ln in real:
        w = ln.split()
        if w[0] == "aux" and w[3] not in _allowed(w[2]):
            return f"auxiliary call {w[2]} of thread {w[1]} failed: {' '.join(w[3:])}"
    bad = [ln for ln in real if ln.startswith(("rx-err", "rx-left"))]
    if bad:
        return f"the peer cannot parse the stream: {bad[0]}"
    rx = [ln.split()[1] for ln in real if ln.startswith("rx ")]
    if not c12.is_merge(rx, parts):
        def short(h: str) -> str:
            return h if len(h) <= 80 else f"{h[:40]}...({len(h) // 2} bytes)"
        known = {h for p_ in parts for h in p_}
        strange = [short(h) for h in rx if h not in known][:3]
        tail = (f"; {strange} is/are not the serialisation of any packet sent (bytes of a packet not contiguous / not in order "
                "on the wire)") if strange else ""
        return (f"peer received {[short(h) for h in rx[:8]]}, not a merge of the per-thread sequences "
                f"{[[short(h) for h in p_] for p_ in parts]}{tail}")
    for ln in real:
        w = ln.split()
        if w[0] == "final" and (w[1] not in FINAL_EXPECTED or FINAL_EXPECTED[w[1]] != " ".join(w[2:])):
            return f"after the senders were done, {w[1]} failed: {' '.join(w[2:])}"
    sent_by_peer = [h or "-" for h in case.get("peer_packets") or []]
    if sent_by_peer:
        lists: dict[str, list[str]] = {}
        for ln in real:
            w = ln.split()
            if w[0] == "arx":
                lists.setdefault(w[1], []).append(w[2])
        if not c12.is_merge(sent_by_peer, list(lists.values())):
            return (f"the receive calls returned {lists}, the peer sent {sent_by_peer}: not every packet exactly once, "
                    "in order")
    return None
