"""
C12, thread-safe blocking clients (clients/tcp.py, clients/udp.py): stress run with real OS threads.

The interleaving of OS threads cannot be controlled here, so this is a sampled run judged by the oracle only
(no model run): N threads call client.send_packet at the same time on a loopback socket whose `send`/`sendmsg`
accept only a few bytes per call and release the GIL after every call, with a 1 microsecond switch interval,
so that an unprotected critical section would interleave almost surely.
Lines: `sent s<i> <j> <outcome>`, `wire <hex>` (tcp) or `dgram <hex>`… (udp), `rx <hex>`…, `note contended`.
No wall-clock criterion is used for the verdict: the reader stops as soon as everything expected has arrived and
otherwise gives up after a very generous deadline, which is reported as an infrastructure error, not a violation.
"""
from __future__ import annotations

import socket
import sys
import threading
import time
from typing import Any

from vlib import core, sers
from vlib import c12_run as R

from easynetwork.clients.tcp import TCPNetworkClient
from easynetwork.clients.udp import UDPNetworkClient
from easynetwork.protocol import DatagramProtocol

DEADLINE = 60.0


class PartialSocket(socket.socket):
    """a real connected socket whose send/sendmsg accept at most `sizes[k]` bytes and then yield the GIL"""

    sizes: list[int] = [1]
    _k = 0

    def _take(self) -> int:
        k = PartialSocket._k
        PartialSocket._k = k + 1
        return max(1, self.sizes[k % len(self.sizes)])

    def send(self, data, flags=0):  # type: ignore[override]
        mv = memoryview(data).cast("B")
        n = super().send(mv[: self._take()], flags)
        time.sleep(0)
        return n

    def sendmsg(self, buffers, *args):  # type: ignore[override]
        for b in buffers:
            mv = memoryview(b).cast("B")
            if len(mv):
                n = super().send(mv[: self._take()])
                time.sleep(0)
                return n
        return 0


def _tcp_pair() -> tuple[socket.socket, socket.socket]:
    srv = socket.socket(socket.AF_INET, socket.SOCK_STREAM)
    srv.bind(("127.0.0.1", 0))
    srv.listen(1)
    c = socket.socket(socket.AF_INET, socket.SOCK_STREAM)
    c.connect(srv.getsockname())
    peer, _ = srv.accept()
    srv.close()
    ps = PartialSocket(fileno=c.detach())
    return ps, peer


def _udp_pair() -> tuple[socket.socket, socket.socket]:
    a = socket.socket(socket.AF_INET, socket.SOCK_DGRAM)
    b = socket.socket(socket.AF_INET, socket.SOCK_DGRAM)
    a.bind(("127.0.0.1", 0))
    b.bind(("127.0.0.1", 0))
    a.connect(b.getsockname())
    b.connect(a.getsockname())
    return a, b


def _tmo(s: dict, j: int):
    ts = s.get("timeouts")
    return ts[j] if ts and j < len(ts) else None


def run_threads(case: dict) -> list[str]:
    spec = case["spec"]
    kind = case["target"]
    lines: list[str] = []
    lock = threading.Lock()
    PartialSocket.sizes = case.get("sizes") or [1]
    PartialSocket._k = 0
    if kind == "tcp":
        csock, peer = _tcp_pair()
        client: Any = TCPNetworkClient(csock, R.build_protocol(spec))
        expected = sum(len(R.expected_chunks(spec, h)) for s in case["senders"] for h in s["packets"])
    else:
        csock, peer = _udp_pair()
        client = UDPNetworkClient(csock, DatagramProtocol(sers.build(spec)))
        expected = sum(len(s["packets"]) for s in case["senders"])
    # sends with a timeout may legitimately give up while waiting for the lock (then they put nothing on the wire):
    # what the reader can expect for sure are the sends without a timeout
    timed = any(t is not None for s in case["senders"] for t in s.get("timeouts", []))
    if timed:
        if kind == "tcp":
            expected = sum(len(R.expected_chunks(spec, h)) for s in case["senders"]
                           for j, h in enumerate(s["packets"]) if _tmo(s, j) is None)
        else:
            expected = sum(1 for s in case["senders"] for j, _ in enumerate(s["packets"]) if _tmo(s, j) is None)
    peer.settimeout(0.2)
    got = bytearray()
    dgrams: list[bytes] = []
    stop = threading.Event()
    senders_done = threading.Event()
    t_end = time.monotonic() + DEADLINE

    def reader() -> None:
        while not stop.is_set() and time.monotonic() < t_end:
            if (len(got) if kind == "tcp" else len(dgrams)) >= expected and (not timed or senders_done.is_set()):
                # everything expected is here; linger a moment for surplus bytes (a duplicated packet)
                peer.settimeout(0.02)
                try:
                    d = peer.recv(65536)
                except (TimeoutError, OSError):
                    return
                if not d:
                    return
                if kind == "tcp":
                    got.extend(d)
                else:
                    dgrams.append(d)
                continue
            try:
                d = peer.recv(65536)
            except TimeoutError:
                continue
            except OSError:
                return
            if kind == "tcp":
                if not d:
                    return
                got.extend(d)
            else:
                dgrams.append(d)

    barrier = threading.Barrier(len(case["senders"]))

    def sender(i: int, s: dict) -> None:
        try:
            barrier.wait(timeout=DEADLINE)
        except threading.BrokenBarrierError:
            return
        for j, h in enumerate(s["packets"]):
            try:
                t = _tmo(s, j)
                if t is None:
                    client.send_packet(R.packet_of(spec, h))
                else:
                    client.send_packet(R.packet_of(spec, h), timeout=t)
            except Exception as e:
                out = R.exc_enum(e)
            else:
                out = "ok"
            with lock:
                lines.append(f"sent s{i} {j} {out}")

    old = sys.getswitchinterval()
    sys.setswitchinterval(1e-6)
    try:
        rt = threading.Thread(target=reader, daemon=True)
        rt.start()
        ths = [threading.Thread(target=sender, args=(i, s), daemon=True) for i, s in enumerate(case["senders"])]
        for t in ths:
            t.start()
        for t in ths:
            t.join(DEADLINE)
        alive = any(t.is_alive() for t in ths)
        senders_done.set()
        rt.join(DEADLINE + 5)
        stop.set()
    finally:
        sys.setswitchinterval(old)
    try:
        client.close()
    except Exception:
        pass
    peer.close()
    if alive or (len(got) if kind == "tcp" else len(dgrams)) < expected and time.monotonic() >= t_end:
        raise core.InfraError("C12 thread stress run did not finish within the deadline")
    lines.sort()
    if kind == "tcp":
        lines.append(f"wire {core.hexs(bytes(got))}")
        rx = R.parse_wire(spec, bytes(got))
    else:
        ser = sers.build(spec)
        rx = []
        for d in dgrams:
            lines.append(f"dgram {core.hexs(d)}")
            try:
                rx.append(f"rx {R.packet_hex(spec, ser.deserialize(d))}")
            except Exception as e:
                rx.append(f"rx-err {type(e).__name__}")
    lines.extend(rx)
    # did the threads really overlap?  (a packet of one sender between two packets of another one)
    owner = {}
    for i, s in enumerate(case["senders"]):
        for h in s["packets"]:
            owner.setdefault(h, i)
    seq = [owner.get(ln.split()[1]) for ln in rx if ln.startswith("rx ")]
    blocks = [o for k, o in enumerate(seq) if k == 0 or seq[k - 1] != o]
    if len(blocks) != len(set(blocks)):
        lines.append("note contended")
    return lines


def oracle(case: dict, real: list[str]) -> str | None:
    from props import c12

    out = c12.outcomes(real)
    parts: list[list[str]] = []
    for i, s in enumerate(case["senders"]):
        for j, h in enumerate(s["packets"]):
            o = out.get((f"s{i}", j))
            if o == "timeout" and _tmo(s, j) is not None:
                continue        # documented outcome of a send with a timeout under contention; it must have written nothing
            if o != "ok":
                return f"send_packet call {j} of thread s{i}: {o}"
        parts.append([h for j, h in enumerate(s["packets"]) if out.get((f"s{i}", j)) == "ok"])
    bad = [ln for ln in real if ln.startswith(("rx-err", "rx-left"))]
    if bad:
        return f"the peer cannot parse the stream: {bad[0]}"
    rx = [ln.split()[1] for ln in real if ln.startswith("rx ")]
    if not c12.is_merge(rx, parts):
        return f"peer received {rx[:8]}, not a merge of the per-thread sequences {parts}"
    return None
