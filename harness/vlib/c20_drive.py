"""
C20 helpers: deterministic driving of the write side of the asyncio backend.

targets
  wfc        WriteFlowControl itself over a stub transport (only is_closing() is used)
  stream     real AsyncioTransportStreamSocketAdapter + real StreamReaderBufferedProtocol over FakeStreamTransport
  dgram_ep   real DatagramEndpoint + DatagramEndpointProtocol over FakeDatagramTransport
  dgram_ls   real DatagramListenerSocketAdapter + DatagramListenerProtocol over FakeDatagramTransport
  sock       real adapter over the REAL asyncio selector transport on a socketpair (oracle only, no model run)

The fake transports inherit CPython's own `asyncio.transports._FlowControlMixin` (so `_maybe_pause_protocol`,
`_maybe_resume_protocol`, `set_write_buffer_limits` are the interpreter's code) and transcribe the write path of
`asyncio.selector_events._SelectorSocketTransport` / `_SelectorDatagramTransport` (CPython 3.12) with the kernel
replaced by a counter `kroom` (free room in the socket send buffer) that only `kernel k` events increase.
Whether `writelines()` runs the pause check is an environment fact, probed on the real transport class.

events (between two `turn`s everything happens "in the same loop iteration", in the order written)
  ["send", i, n]        task i: stream send_all(n bytes) | dgram sendto(n bytes)
  ["sendv", i, [n..]]   task i: stream send_all_from_iterable(chunks)
  ["drain", i]          task i: the drain coroutine alone
  ["pause"] ["resume"]  protocol.pause_writing() / resume_writing() called directly (harness as transport)
  ["kernel", k]         the peer read k bytes: room for k more bytes, then the transport's _write_ready
  ["lost", errno]       protocol.connection_lost(exc) called directly
  ["fail", errno]       the transport's _force_close(exc)  (fatal socket error / abort when errno == 0)
  ["close"]             transport.close()
  ["cancel", i]         task i .cancel()
  ["turn"]
"""
from __future__ import annotations

import asyncio
import asyncio.transports
import collections
import os
import socket
from typing import Any

from . import core
from .c10_vloop import StubTransport, VLoop

FINISH = [["kernel", 10 ** 9], ["turn"], ["turn"], ["turn"]]
FINISH_DIRECT = [["kernel", 10 ** 9], ["resume"], ["turn"], ["turn"], ["turn"]]
DGRAM_HIGH = 64 * 1024


class _FakeBase(asyncio.transports._FlowControlMixin):
    def __init__(self, loop, sock) -> None:
        super().__init__(extra={"socket": sock, "sockname": None, "peername": None}, loop=loop)
        self._protocol: Any = None
        self._conn_lost = 0
        self._closing = False
        self.kroom = 0
        self.flushed = 0
        self.accepted = 0  # bytes handed to write()/sendto() that were not silently dropped
        self.mark: Any = None  # called once with the stream offset reached by the next accepted write

    def _accept(self, n: int) -> None:
        self.accepted += n
        if self.mark is not None:
            m, self.mark = self.mark, None
            m(self.accepted)

    def set_protocol(self, protocol) -> None:
        self._protocol = protocol

    def is_closing(self) -> bool:
        return self._closing

    def _kernel_send(self, n: int, whole: bool) -> int:
        k = min(n, self.kroom)
        if k == 0 or (whole and k < n):
            raise BlockingIOError
        self.kroom -= k
        self.flushed += k
        return k

    def _call_connection_lost(self, exc) -> None:
        self._protocol.connection_lost(exc)

    def _force_close(self, exc) -> None:
        if self._conn_lost:
            return
        self._clear_buffer()
        if not self._closing:
            self._closing = True
        self._conn_lost += 1
        self._loop.call_soon(self._call_connection_lost, exc)

    def abort(self) -> None:
        self._force_close(None)

    def close(self) -> None:
        if self._closing:
            return
        self._closing = True
        if not self.get_write_buffer_size():
            self._conn_lost += 1
            self._loop.call_soon(self._call_connection_lost, None)


class FakeStreamTransport(_FakeBase, asyncio.Transport):
    def __init__(self, loop, sock, writelines_pauses: bool) -> None:
        self._buffer: collections.deque[int] = collections.deque()  # chunk sizes
        super().__init__(loop, sock)
        self.writelines_pauses = writelines_pauses

    def _clear_buffer(self) -> None:
        self._buffer.clear()

    def get_write_buffer_size(self) -> int:
        return sum(self._buffer)

    def can_write_eof(self) -> bool:
        return True

    def write_eof(self) -> None:
        pass

    def write(self, data) -> None:  # _SelectorSocketTransport.write
        n = len(data)
        if not n:
            return
        if self._conn_lost:
            self._conn_lost += 1
            return
        self._accept(n)
        if not self._buffer:
            try:
                k = self._kernel_send(n, False)
            except BlockingIOError:
                pass
            else:
                n -= k
                if not n:
                    return
        self._buffer.append(n)
        self._maybe_pause_protocol()

    def writelines(self, list_of_data) -> None:  # _SelectorSocketTransport.writelines (3.12)
        if not list_of_data:
            return
        sizes = [len(memoryview(d)) for d in list_of_data]
        self._buffer.extend(sizes)
        if not self._conn_lost:
            self._accept(sum(sizes))
        self._write_ready()
        if self.writelines_pauses:
            self._maybe_pause_protocol()

    def _write_ready(self) -> None:  # _write_sendmsg
        if not self._buffer or self._conn_lost:
            return
        try:
            k = self._kernel_send(sum(self._buffer), False)
        except BlockingIOError:
            return
        while k:  # _adjust_leftover_buffer
            b = self._buffer.popleft()
            if b <= k:
                k -= b
            else:
                self._buffer.appendleft(b - k)
                break
        self._maybe_resume_protocol()
        if not self._buffer and self._closing:
            self._conn_lost += 1
            self._call_connection_lost(None)


class FakeDatagramTransport(_FakeBase, asyncio.DatagramTransport):
    def __init__(self, loop, sock) -> None:
        self._buffer: collections.deque[int] = collections.deque()
        super().__init__(loop, sock)
        self._address = None

    def _clear_buffer(self) -> None:
        self._buffer.clear()

    def get_write_buffer_size(self) -> int:
        return sum(self._buffer)

    def sendto(self, data, addr=None) -> None:  # _SelectorDatagramTransport.sendto
        n = len(data)
        if not n:
            return
        if self._conn_lost:
            # the socket is closed: send raises OSError -> protocol.error_received(exc), nothing is queued
            return
        self._accept(n)
        if not self._buffer:
            try:
                self._kernel_send(n, True)
                return
            except BlockingIOError:
                pass
        self._buffer.append(n)
        self._maybe_pause_protocol()

    def _write_ready(self) -> None:  # _sendto_ready
        if self._conn_lost:
            return
        while self._buffer:
            n = self._buffer.popleft()
            try:
                self._kernel_send(n, True)
            except BlockingIOError:
                self._buffer.appendleft(n)
                break
        self._maybe_resume_protocol()
        if not self._buffer and self._closing:
            self._conn_lost += 1
            self._call_connection_lost(None)


# ----------------------------------------------------------------------------------------------
_env: dict[str, int] = {}


def probe_writelines_pauses() -> int:
    """does the interpreter's _SelectorSocketTransport.writelines() run the pause check?  (behavioural)"""
    if "wlp" not in _env:
        loop = VLoop()
        a, b = socket.socketpair()
        try:
            a.setblocking(False)
            a.setsockopt(socket.SOL_SOCKET, socket.SO_SNDBUF, 4096)

            class P(asyncio.Protocol):
                paused = False

                def pause_writing(self):
                    self.paused = True

            t = loop.create_task(loop.create_connection(P, sock=a))
            loop.turns_until(t.done, 20)
            tr, pr = t.result()
            tr.set_write_buffer_limits(0)
            tr.writelines([b"x" * 4_000_000])
            _env["wlp"] = 1 if (pr.paused or tr.get_write_buffer_size() == 0) else 0
            tr.abort()
            loop.turn()
        finally:
            b.close()
            loop.shutdown()
    return _env["wlp"]


def probe_reassert() -> int:
    """does the adapter itself trigger the pause check after writelines()?  (behavioural, on the fake transport
    with a writelines() that does not)"""
    if "re" not in _env:
        r = FlowRun("stream", 1, wlp=0)
        try:
            r.event(["sendv", 0, [3]])
            r.event(["turn"])
            _env["re"] = 1 if 0 in r.parked() else 0
        finally:
            r.close()
    return _env["re"]


def err_code(e: BaseException) -> str:
    if isinstance(e, asyncio.CancelledError):
        return "cancelled"
    if isinstance(e, OSError):
        return f"err {e.errno if e.errno is not None else 'oserror'}"
    return f"err {type(e).__name__}"


class FlowRun:
    def __init__(self, target: str, n: int, wlp: int | None = None) -> None:
        self.target = target
        self.n = n
        self.loop = VLoop()
        self.lines: list[str] = []
        self.tasks: dict[int, asyncio.Task] = {}
        self.endoff: dict[int, int] = {}
        self.executed: list[list] = []
        self.sock = None
        self.stream = target == "stream"
        loop = self.loop
        if target == "wfc":
            from easynetwork.lowlevel.api_async.backend._asyncio._flow_control import WriteFlowControl

            self.transport: Any = StubTransport()
            self.proto: Any = WriteFlowControl(self.transport, loop)
            self._drain = self.proto.drain
            self._paused = self.proto.writing_paused
        else:
            self.sock = socket.socket(socket.AF_INET, socket.SOCK_STREAM if target == "stream" else socket.SOCK_DGRAM)
            if target == "stream":
                from easynetwork.lowlevel.api_async.backend._asyncio.backend import AsyncIOBackend
                from easynetwork.lowlevel.api_async.backend._asyncio.stream.socket import (
                    AsyncioTransportStreamSocketAdapter,
                    StreamReaderBufferedProtocol,
                )

                self.transport = FakeStreamTransport(loop, self.sock, bool(probe_writelines_pauses() if wlp is None else wlp))
                self.proto = StreamReaderBufferedProtocol(loop=loop)
                self.transport.set_protocol(self.proto)
                self.proto.connection_made(self.transport)
                self.adapter: Any = AsyncioTransportStreamSocketAdapter(AsyncIOBackend(), self.transport, self.proto)
                self._drain = self.proto.writer_drain
            elif target == "dgram_ep":
                from easynetwork.lowlevel.api_async.backend._asyncio.datagram.endpoint import (
                    DatagramEndpoint,
                    DatagramEndpointProtocol,
                )

                self.transport = FakeDatagramTransport(loop, self.sock)
                rq: asyncio.Queue = asyncio.Queue()
                eq: asyncio.Queue = asyncio.Queue()
                self.proto = DatagramEndpointProtocol(loop=loop, recv_queue=rq, exception_queue=eq)
                self.transport.set_protocol(self.proto)
                self.proto.connection_made(self.transport)
                self.adapter = DatagramEndpoint(self.transport, self.proto, recv_queue=rq, exception_queue=eq)
                self._drain = self.proto._drain_helper
            elif target == "dgram_ls":
                from easynetwork.lowlevel.api_async.backend._asyncio.backend import AsyncIOBackend
                from easynetwork.lowlevel.api_async.backend._asyncio.datagram.listener import (
                    DatagramListenerProtocol,
                    DatagramListenerSocketAdapter,
                )

                self.transport = FakeDatagramTransport(loop, self.sock)
                self.proto = DatagramListenerProtocol(loop=loop)
                self.transport.set_protocol(self.proto)
                self.proto.connection_made(self.transport)
                self.adapter = DatagramListenerSocketAdapter(AsyncIOBackend(), self.transport, self.proto)
                self._drain = self.proto.writer_drain
            else:
                raise core.InfraError(f"unknown C20 target {target}")
            self._paused = self.proto._writing_paused
        self.lost_seen = False

    # ---- senders
    async def _send(self, i: int, sizes: list[int], vec: bool):
        # the write happens synchronously in this step, before the first await of the adapter method
        self.transport.mark = lambda off: self.endoff.__setitem__(i, off)
        if self.target == "stream":
            if vec:
                await self.adapter.send_all_from_iterable([bytes(n) for n in sizes])
            else:
                await self.adapter.send_all(bytes(sizes[0]))
        elif self.target == "dgram_ep":
            await self.adapter.sendto(bytes(sizes[0]), None)
        else:
            await self.adapter.send_to(bytes(sizes[0]), ("127.0.0.1", 9))

    def parked(self) -> list[int]:
        return sorted(i for i, t in self.tasks.items() if not t.done())

    def event(self, ev: list) -> None:
        self.executed.append(ev)
        k = ev[0]
        out = self.lines
        if k in ("send", "sendv", "drain"):
            i = ev[1]
            bad = (i in self.tasks) or i >= self.n or (self.target == "wfc" and k != "drain") \
                or (k == "sendv" and self.target != "stream")
            if bad:
                out.append("busy")
            else:
                if k == "drain":
                    coro = self._drain()
                else:
                    sizes = ev[2] if k == "sendv" else [ev[2]]
                    coro = self._send(i, list(sizes), k == "sendv")
                self.tasks[i] = self.loop.create_task(coro)
                self.kind = k
                out.append("start")
        elif k == "pause":
            (self.proto.pause_writing)()
            out.append("pause")
        elif k == "resume":
            (self.proto.resume_writing)()
            out.append("resume")
        elif k == "kernel":
            if self.target == "wfc":
                out.append("kernel-skip")
            else:
                self.transport.kroom += ev[1]
                self.transport._write_ready()
                out.append("kernel")
        elif k == "lost":
            self.proto.connection_lost(None if ev[1] == 0 else OSError(ev[1], os.strerror(ev[1])))
            self.lost_seen = True
            out.append("lost")
        elif k == "fail":
            if self.target == "wfc":
                out.append("fail-skip")
            else:
                self.transport._force_close(None if ev[1] == 0 else OSError(ev[1], os.strerror(ev[1])))
                self.lost_seen = True
                out.append("fail")
        elif k == "close":
            self.transport.close()
            out.append("close")
        elif k == "cancel":
            t = self.tasks.get(ev[1])
            if t is not None:
                t.cancel()
            out.append("cancel")
        elif k == "turn":
            self.loop.turn()
            for i in sorted(self.tasks):
                t = self.tasks[i]
                if t.done():
                    del self.tasks[i]
                    if t.cancelled():
                        out.append(f"done {i} cancelled")
                    elif t.exception() is not None:
                        out.append(f"done {i} {err_code(t.exception())}")
                    else:
                        extra = ""
                        if self.target != "wfc" and i in self.endoff:
                            extra = f" pend={max(0, self.endoff[i] - self.transport.flushed)}"
                        out.append(f"done {i} ok{extra}")
                    self.endoff.pop(i, None)
            out.append("turn")
        else:
            raise core.InfraError(f"unknown C20 event {ev!r}")
        tb = self.transport.get_write_buffer_size() if self.target != "wfc" else 0
        out.append(f"st paused={int(bool(self._paused()))} parked={','.join(map(str, self.parked())) or '-'} tbuf={tb}")

    def finish(self) -> None:
        # the peer reads everything; when the harness itself has been calling pause_writing()/resume_writing()
        # (or there is no transport at all) it also ends with a resume_writing()
        direct = self.target == "wfc" or any(ev[0] in ("pause", "resume") for ev in self.executed)
        for ev in (FINISH_DIRECT if direct else FINISH):
            self.event(ev)

    def close(self) -> None:
        try:
            if self.target != "wfc":
                # silence ResourceWarning of the adapters
                self.transport._closing = True
        finally:
            self.loop.shutdown()
            if self.sock is not None:
                self.sock.close()


# ----------------------------------------------------------------------------------------------
class SockRun:
    """real AsyncioTransportStreamSocketAdapter over the real selector transport on a socketpair.
    ops: ["send", i, n] ["sendv", i, [n..]] ["turn"] ["peer-read"] ["peer-close"] ["cancel", i] ["aclose"]"""

    def __init__(self) -> None:
        from easynetwork.lowlevel.api_async.backend._asyncio.backend import AsyncIOBackend

        self.loop = VLoop()
        self.a, self.b = socket.socketpair()
        for s in (self.a, self.b):
            s.setsockopt(socket.SOL_SOCKET, socket.SO_SNDBUF, 4096)
            s.setsockopt(socket.SOL_SOCKET, socket.SO_RCVBUF, 4096)
        self.b.setblocking(False)
        self.backend = AsyncIOBackend()
        t = self.loop.create_task(self.backend.wrap_stream_socket(self.a))
        self.loop.turns_until(t.done, 20)
        self.adapter = t.result()
        # the asyncio transport, for get_write_buffer_size() (observation point named by the property)
        self.transport = getattr(self.adapter, "_AsyncioTransportStreamSocketAdapter__transport")
        self.lines: list[str] = []
        self.tasks: dict[int, asyncio.Task] = {}
        self.written = 0
        self.endoff: dict[int, int] = {}
        self.peer_closed = False
        self.received = 0

    async def _send(self, i: int, sizes: list[int], vec: bool):
        self.written += sum(sizes)
        self.endoff[i] = self.written
        if vec:
            await self.adapter.send_all_from_iterable([bytes(n) for n in sizes])
        else:
            await self.adapter.send_all(bytes(sizes[0]))

    def parked(self) -> list[int]:
        return sorted(i for i, t in self.tasks.items() if not t.done())

    def op(self, op: list) -> None:
        k = op[0]
        out = self.lines
        if k in ("send", "sendv"):
            i = op[1]
            if i in self.tasks:
                out.append("busy")
            else:
                sizes = op[2] if k == "sendv" else [op[2]]
                self.tasks[i] = self.loop.create_task(self._send(i, list(sizes), k == "sendv"))
                out.append("start")
        elif k == "turn":
            self.loop.turn()
            for i in sorted(self.tasks):
                t = self.tasks[i]
                if t.done():
                    del self.tasks[i]
                    if t.cancelled():
                        out.append(f"done {i} cancelled")
                    elif t.exception() is not None:
                        e = t.exception()
                        out.append(f"done {i} " + ("err conn" if isinstance(e, ConnectionError) else err_code(e)))
                    else:
                        flushed = self.written - self.transport.get_write_buffer_size()
                        out.append(f"done {i} ok pend={max(0, self.endoff[i] - flushed)}")
            out.append("turn")
        elif k == "peer-read":
            if not self.peer_closed:
                try:
                    while True:
                        d = self.b.recv(1 << 20)
                        if not d:
                            break
                        self.received += len(d)
                except (BlockingIOError, ConnectionError):
                    pass
            out.append("peer-read")
        elif k == "peer-close":
            if not self.peer_closed:
                self.b.close()
                self.peer_closed = True
            out.append("peer-close")
        elif k == "cancel":
            t = self.tasks.get(op[1])
            if t is not None:
                t.cancel()
            out.append("cancel")
        else:
            raise core.InfraError(f"unknown C20 sock op {op!r}")
        out.append(f"st parked={','.join(map(str, self.parked())) or '-'}")

    def finish(self) -> None:
        # the peer reads again until everybody is done (bounded)
        for _ in range(400):
            if not self.tasks:
                break
            self.op(["peer-read"])
            self.op(["turn"])
        self.op(["turn"])

    def close(self) -> None:
        try:
            self.transport.abort()
            self.adapter._AsyncioTransportStreamSocketAdapter__closing = True  # no ResourceWarning
            self.loop.turn()
        finally:
            if not self.peer_closed:
                self.b.close()
            self.loop.shutdown()
            try:
                self.a.close()
            except OSError:
                pass
