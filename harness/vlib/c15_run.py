"""
C15 real-code runner: a real AsyncStreamServer over an in-memory listener, with
  layer "low"  : the scripted handler generator is given directly to AsyncStreamServer.serve()
  layer "high" : real build_lowlevel_stream_server_handler() + scripted AsyncStreamRequestHandler
  layer "tcp"  : real AsyncTCPNetworkServer (its listeners come from a backend subclass returning the in-memory listener)
all on the virtual-time loop (vlib/c15_env.py).

Connection kinds (`case["conn"]`, see `make_connection`):
  "single"  (default) one in-memory AsyncStreamTransport (SessionTransport)
  "stapled" the library's own AsyncStapledStreamTransport(write half, read half) over two in-memory half transports
            (AsyncStreamWriteTransport / AsyncStreamReadTransport).  Like every I/O backed transport the halves' aclose()
            may have checkpoints before it returns (`wclose` / `rclose` loop turns: flush, wait for the OS) and release
            their resource however aclose() ends.  "The connection is closed" then means: BOTH halves closed.

Times: one *unit* = 1 virtual second = UNIT subticks (2^20).  In a case, `delays`, `end_delay` and `sleep` are in units,
`timeout` is in SUBTICKS (so that deadlines can carry distinct dyadic fractions and never tie with an arrival);
log lines show `@<units>` or `@<units>+<subticks>`.  All values are dyadic, so float arithmetic is exact.
"""
from __future__ import annotations

import asyncio
import contextlib
import logging
from typing import Any

from vlib import core, sers, streamdrive as sd
from vlib import c15_env as env

from easynetwork.lowlevel.api_async.transports import abc as tr_abc

from easynetwork.exceptions import StreamProtocolParseError
from easynetwork.lowlevel.api_async.servers.stream import AsyncStreamServer
from easynetwork.servers.handlers import AsyncStreamClient, AsyncStreamRequestHandler
from easynetwork.servers.misc import build_lowlevel_stream_server_handler

UNIT = 1 << 20           # subticks per unit (= per virtual second)
TICK = 1.0 / UNIT        # one subtick in seconds


def tick_of(t: float) -> int:
    x = t * UNIT
    r = int(round(x))
    assert abs(x - r) < 1e-6, t
    return r


def show_t(sub: int) -> str:
    return f"@{sub // UNIT}" if sub % UNIT == 0 else f"@{sub // UNIT}+{sub % UNIT}"


class Log:
    """canonical lines; `marks[i]` = value of `probe()` when line i was written (the runners set `probe` to the number of
    bytes the server has taken out of the transport so far: what the oracle needs to know which requests were already
    sitting in the consumer's buffer when a TimeoutError reached the handler)"""

    def __init__(self) -> None:
        self.lines: list[str] = []
        self.marks: list[int] = []
        self.probe = None

    def __call__(self, s: str) -> None:
        t = tick_of(asyncio.get_running_loop().time())
        self.lines.append(f"{s} {show_t(t)}")
        self.marks.append(self.probe() if self.probe is not None else -1)


AFTER_CLOSE = ("ebadf", "reset", "aborted", "data", "eof")


class SessionTransport(env.MemTransport):
    """MemTransport whose READS AFTER A LOCAL CLOSE behave as the case says (`after_close`):
         "ebadf"   OSError(EBADF)                      (MemTransport's own behaviour)
         "reset"   ConnectionResetError                (the asyncio socket adapter when the close dropped unread data)
         "aborted" ConnectionAbortedError              (the asyncio socket adapter otherwise)
         "data"    goes on handing out what the peer had sent (a transport with its own read buffer)
         "eof"     b"" / 0
    A server that never touches a transport the handler has closed cannot tell them apart.  `nread` = bytes handed out."""

    def __init__(self, *args: Any, after_close: str = "ebadf", **kwargs: Any) -> None:
        super().__init__(*args, **kwargs)
        assert after_close in AFTER_CLOSE, after_close
        self.after_close = after_close
        self.nread = 0

    def _consume(self, n: int) -> None:
        super()._consume(n)
        self.nread += n

    async def _wait_readable(self) -> bytes | None:
        mode = self.after_close
        if not self.closing or mode == "ebadf":
            return await super()._wait_readable()
        import errno

        self.recv_while_closed += 1
        if mode == "reset":
            raise ConnectionResetError(errno.ECONNRESET, "Connection reset by peer")
        if mode == "aborted":
            raise ConnectionAbortedError(errno.ECONNABORTED, "Software caused connection abort")
        if mode == "eof":
            await asyncio.sleep(0)
            return None
        # "data": as MemTransport._wait_readable, without the closing test
        loop = asyncio.get_running_loop()
        if self.pos < len(self.incoming):
            t, data = self.incoming[self.pos]
            await asyncio.sleep(max(t - loop.time(), 0))
            return data[self.off:]
        await asyncio.sleep(max(self.end_time - loop.time(), 0))
        return None

    async def _at_end(self):
        if self.closing and self.after_close == "eof":
            self.recv_log.append((asyncio.get_running_loop().time(), 0))
            return
        return await super()._at_end()


class ReadHalf(tr_abc.AsyncStreamReadTransport):
    """read-only view of a SessionTransport (the scripted incoming stream, `after_close` behaviour, `nread`)"""

    def __init__(self, core_tr: SessionTransport) -> None:
        super().__init__()
        self.core = core_tr

    def backend(self):
        return self.core.backend()

    def is_closing(self) -> bool:
        return self.core.is_closing()

    async def aclose(self) -> None:
        await self.core.aclose()

    async def recv(self, bufsize: int) -> bytes:
        return await self.core.recv(bufsize)

    async def recv_into(self, buffer) -> int:
        return await self.core.recv_into(buffer)

    @property
    def extra_attributes(self):
        return self.core.extra_attributes


class WriteHalf(tr_abc.AsyncStreamWriteTransport):
    """write-only view of a MemTransport (records what is written; aclose() with `close_steps` checkpoints)"""

    def __init__(self, core_tr: env.MemTransport) -> None:
        super().__init__()
        self.core = core_tr

    def backend(self):
        return self.core.backend()

    def is_closing(self) -> bool:
        return self.core.is_closing()

    async def aclose(self) -> None:
        await self.core.aclose()

    async def send_all(self, data) -> None:
        await self.core.send_all(data)

    @property
    def extra_attributes(self):
        return self.core.extra_attributes


CONN_KINDS = ("single", "stapled", "tls")


def make_connection(case: dict, be=None, adopt=None):
    """the Connection of the case's kind ("tls": vlib/c15_tls.TLSConnection - the in-memory listener accepts the WIRE, the
    library's AsyncTLSListener in front of it makes the AsyncTLSStreamTransport the server sees)"""
    if case.get("conn", "single") == "tls":
        from vlib import c15_tls
        return c15_tls.TLSConnection(case, be=be, adopt=adopt)
    return Connection(case, be=be, adopt=adopt)


class Connection:
    """what the listener hands to the server for one session, and how the harness looks at it afterwards
         transport   the AsyncStreamTransport given to the server
         reader      the SessionTransport the server's reads end up on (nread, recv_log, recv_while_closed)
         writer      the MemTransport the server's writes end up on (written; aclose_calls = closes of the connection)
       `adopt(obj, which)` (optional) is applied to every in-memory transport created ("r" / "w" / "rw"): layer "tcp" uses it
       to bind them to its backend and give them the INET typed attributes."""

    def __init__(self, case: dict, be=None, adopt=None) -> None:
        incoming, t_end, chunks = build_incoming(case)
        self.incoming, self.t_end, self.chunks = incoming, t_end, chunks
        self.kind = case.get("conn", "single")
        assert self.kind in ("single", "stapled"), self.kind
        kw = {"be": be} if be is not None else {}
        ac = case.get("after_close", "ebadf")
        if self.kind == "single":
            self.reader = self.writer = SessionTransport(incoming, case.get("end", "eof"), t_end, after_close=ac, **kw)
            if adopt is not None:
                adopt(self.reader, "rw")
            self.transport = self.reader
        else:
            from easynetwork.lowlevel.api_async.transports.composite import AsyncStapledStreamTransport

            self.reader = SessionTransport(incoming, case.get("end", "eof"), t_end, after_close=ac,
                                           close_steps=int(case.get("rclose", 0)), **kw)
            self.writer = env.MemTransport([], close_steps=int(case.get("wclose", 1)), **kw)
            if adopt is not None:
                adopt(self.reader, "r")
                adopt(self.writer, "w")
            self.transport = AsyncStapledStreamTransport(WriteHalf(self.writer), ReadHalf(self.reader))

    def closed(self) -> bool:
        """the connection is closed: every half has released its resource, and the transport says it is closing"""
        return bool(self.reader.closed and self.writer.closed and self.transport.is_closing())

    def final_lines(self) -> list[str]:
        out = [f"transport closed={int(self.closed())} aclose_calls={min(self.writer.aclose_calls, 9)}"]
        if self.kind != "single":
            # (not compared with the model: props/c15.real_for_diff drops it)
            out.append(f"halves write={int(self.writer.closed)} read={int(self.reader.closed)} "
                       f"is_closing={int(self.transport.is_closing())}")
        return out

    def fill_aux(self, aux: dict) -> None:
        aux["written"] = b"".join(self.writer.written)
        aux["recv_log"] = self.reader.recv_log
        aux["recv_while_closed"] = self.reader.recv_while_closed


def exc_kind(e: BaseException) -> str:
    if isinstance(e, TimeoutError):
        return "timeout"
    if isinstance(e, StreamProtocolParseError):
        return sd.err_line(e).split()[1]
    if isinstance(e, ConnectionError):
        return "conn"
    if isinstance(e, OSError):
        return "oserror"
    return "other:" + type(e).__name__


class SimpleClient(AsyncStreamClient[Any]):
    """harness-side AsyncStreamClient over the low-level ConnectedStreamClient (layer "high")"""

    def __init__(self, ll) -> None:
        self.ll = ll
        self._closing = False

    def is_closing(self) -> bool:
        return self._closing or self.ll.is_closing()

    async def aclose(self) -> None:
        self._closing = True
        await self.ll.aclose()

    async def send_packet(self, packet, /) -> None:
        await self.ll.send_packet(packet)

    def backend(self):
        return self.ll.backend()

    @property
    def extra_attributes(self):
        return self.ll.extra_attributes


class Script:
    """the handler shape, as data (see props/c15.py for the case format)"""

    def __init__(self, case: dict, log: Log) -> None:
        self.case = case
        self.log = log
        self.ngen = 0
        self.nresp = 0
        self.gens_started: list[int] = []
        self.gen_ends: dict[int, list[str]] = {}
        self.responses: list[Any] = []
        self.conv = bool(case.get("conv"))

    def response(self) -> Any:
        spec = self.case["spec"]
        p = sers.dec_val(self.case["resp_packet"])
        return sd.Wrapped(p) if self.conv else p

    async def close_client(self, client, st: dict) -> None:
        """`await client.aclose()` by the handler itself, or (`by: "helper"`) by a task the handler starts and waits for
        (a watchdog / a helper function run in the handler's task group): whoever closes, the client is closed when this returns"""
        if st.get("by") == "helper":
            t = asyncio.ensure_future(client.aclose())
            await asyncio.wait({t})
            t.result()
        else:
            await client.aclose()

    async def run_oc_coro(self, oc: dict, client) -> None:
        """on_connection() as a COROUTINE that does something (case field `oc_coro`): sleep, greeting, closes the client
        (itself / through a helper task), sleeps again, returns normally.  After the close nothing may start on that client."""
        log = self.log
        log("conn")
        await asyncio.sleep(0)
        if oc.get("sleep"):
            await asyncio.sleep(float(oc["sleep"]))
        if oc.get("resp"):
            try:
                await client.send_packet(self.response())
            except Exception as e:  # noqa: BLE001
                log(f"resp-failed oc {exc_kind(e)}")
            else:
                self.nresp += 1
                log("resp oc")
        if oc.get("close"):
            await self.close_client(client, oc)
            log("closed-by-handler oc")
        if oc.get("after"):
            await asyncio.sleep(float(oc["after"]))
        log("conn-done")

    async def run_gen(self, name: str, steps: list[dict], client):
        log = self.log
        log(f"gen {name} start")
        how = "return"
        try:
            for st in steps:
                if st.get("sleep"):
                    await asyncio.sleep(float(st["sleep"]))
                if st.get("pre_close"):
                    # the handler closes the client BEFORE asking for this request (step 0: in the preamble of the generator)
                    await self.close_client(client, st)
                    log(f"closed-by-handler {name}")
                to = st.get("timeout")
                try:
                    req = yield (None if to is None else to * TICK)
                except GeneratorExit:
                    raise
                except Exception as e:  # noqa: BLE001
                    log(f"err {name} {exc_kind(e)}")
                    if st.get("reraise"):
                        raise
                else:
                    log(f"req {name} {sd.pkt_line(req)[4:]}")
                if st.get("resp"):
                    try:
                        await client.send_packet(self.response())
                    except Exception as e:  # noqa: BLE001
                        log(f"resp-failed {name} {exc_kind(e)}")
                    else:
                        self.nresp += 1
                        log(f"resp {name}")
                if st.get("close"):
                    await self.close_client(client, st)
                    log(f"closed-by-handler {name}")
        except GeneratorExit:
            how = "closed"
            raise
        except BaseException as e:  # noqa: BLE001
            how = "exc:" + exc_kind(e)
            raise
        finally:
            self.gen_ends.setdefault(name, []).append(how)
            log(f"gen {name} end {how}")

    def new_handle_gen(self, client):
        k = self.ngen
        self.ngen += 1
        gens = self.case["gens"]
        steps = gens[k] if k < len(gens) else []
        self.gens_started.append(k)
        return self.run_gen(str(k), steps, client)


class ScriptedHandler(AsyncStreamRequestHandler[Any, Any]):
    def __init__(self, script: Script) -> None:
        self.script = script

    def handle(self, client):
        return self.script.new_handle_gen(client)

    def on_connection(self, client):
        oc = self.script.case.get("onconn")
        if oc is None and self.script.case.get("oc_coro"):
            return self.script.run_oc_coro(self.script.case["oc_coro"], client)
        if oc is None:
            async def coro() -> None:
                self.script.log("conn")
                await asyncio.sleep(0)
            return coro()
        return self.script.run_gen("oc", oc, client)

    async def on_disconnection(self, client) -> None:
        self.script.log(f"disc closing={int(client.is_closing())}")


def build_incoming(case: dict) -> tuple[list[tuple[float, bytes]], float, list[bytes]]:
    """chunks with absolute arrival times"""
    stream = b"".join(bytes.fromhex(f["hex"]) for f in case["frames"])
    chunks = sd.cut(stream, case["cuts"]) if stream else []
    chunks = [c for c in chunks if c]        # an empty read means EOF: never scripted mid-stream
    delays = case.get("delays") or [0]
    t = 0
    inc = []
    for i, c in enumerate(chunks):
        t += delays[i % len(delays)]
        inc.append((float(t), c))
    t_end = t + case.get("end_delay", 0)
    return inc, float(t_end), chunks


def conn_filter(exc: Exception) -> bool:
    return isinstance(exc, ConnectionError)


def run_session(case: dict) -> tuple[list[str], dict]:
    """returns (canonical lines, aux)"""
    logging.getLogger("easynetwork").setLevel(logging.CRITICAL)
    log = Log()
    script = Script(case, log)
    conn = make_connection(case)
    log.probe = lambda: conn.reader.nread
    proto = sd.make_protocol(case["spec"], case["path"], bool(case.get("conv")))
    listener = env.MemListener([conn.transport])
    tls = conn.kind == "tls"
    layer = case.get("layer", "low")
    aux: dict[str, Any] = {"chunks": conn.chunks, "incoming": conn.incoming, "t_end": conn.t_end}

    async def main() -> None:
        be = env.backend()
        front: Any = listener
        if tls:
            from vlib import c15_tls
            front = c15_tls.wrap_listener(listener)       # the library's AsyncTLSListener
        server = AsyncStreamServer(front, proto, max_recv_size=case.get("max_recv", 16384))
        if layer == "low":
            def cb(client):
                script.gens_started.append(0)
                return script.run_gen("0", (case["gens"] or [[]])[0], client)
        else:
            @contextlib.asynccontextmanager
            async def initializer(ll):
                yield SimpleClient(ll)
            cb = build_lowlevel_stream_server_handler(initializer, ScriptedHandler(script))
        filt = conn_filter if case.get("filter", True) else None
        if tls and filt is not None:
            filt = c15_tls.is_disconnect                  # the filter of the high-level TCP server (ConnectionError, SSL EOF)

        async def serve() -> None:
            await server.serve(cb, None, disconnect_error_filter=filt)

        t = asyncio.ensure_future(serve())
        # wait for the client task to finish
        while listener.all_done is None:
            await asyncio.sleep(0)
        await listener.all_done.wait()
        log("task-done")
        t.cancel()
        with contextlib.suppress(BaseException):
            await t
        await server.aclose()

    out, loop = env.run(main)
    lines = list(log.lines)
    if out[0] == "exc":
        lines.append(f"main-exc {type(out[1]).__name__}: {out[1]}")
    for kind, e in listener.task_results:
        lines.append("task " + (kind if kind != "exc" else "exc:" + exc_kind(e)))
    lines.extend(conn.final_lines())
    lines.append(f"nresp {script.nresp}")
    conn.fill_aux(aux)
    aux["gen_ends"] = script.gen_ends
    aux["gens_started"] = script.gens_started
    aux["read_marks"] = list(log.marks)
    return lines, aux
