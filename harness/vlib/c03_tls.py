"""
C03, TLS receive paths (round 5).

Two families, both judged by the oracle only (`oracle()` below; the reference decoder is handed in by props/c03.py):

  api "atls"      the real AsyncTLSStreamTransport (real OpenSSL through ssl.MemoryBIO) wrapped around an in-memory lower
                  transport (`Wire`) whose other end is a stdlib ssl.SSLObject played by the harness in lock-step; on top of it
                      layer "endpoint"   AsyncStreamEndpoint(AsyncTLSStreamTransport.wrap(wire, ...), protocol)
                      layer "client"     AsyncTCPNetworkClient(<socket>, protocol, backend, ssl=ctx, ...): the backend's
                                         wrap_stream_socket() hands out the wire, everything above it is the real client
                  Runs on a virtual-time event loop that counts its turns (TLoop).  The peer writes one TLS record per `data`
                  event, then ends the stream in one of the ways of `END_KINDS`; the ciphertext reaches the TLS transport in the
                  pieces of `wire`, and the end comes after `cut` = (record index, permille of that record) - i.e. between two
                  records, inside a record, before any application data.
  api "tlstcp" /  TCPNetworkClient(ssl=...) (SSLStreamTransport) / AsyncTCPNetworkClient(ssl=...) over real loopback; the peer
      "tlsatcp"   is a stdlib ssl server in a thread: sends the records, closes (close_notify + FIN / FIN only / RST), the
                  harness waits for the kernel's notification on a dup of our descriptor, THEN the calls run (`settle`).

A HANG IS AN OBSERVATION, not a time-out of the check: every call of the asynchronous families runs under a budget of event
loop turns (a receive that spins - e.g. a lower transport which answers "0 bytes" again and again without the TLS engine being
told - is cancelled by the loop when the budget is used up and gives the line `hang ...`; the case ends there).  Virtual
time: a receive which has nothing to wait for ends with `timeout` after 5 virtual seconds; no wall-clock anywhere in "atls".

Lines:  pkt … / err … / timeout / eos (ConnectionAbortedError) / ssl-eof (ssl.SSLEOFError) / ssl-err <reason> /
        eos-as <Class> (client layers: a connection error that is not ConnectionAbortedError) / connerr <Class> (endpoint layer) /
        oserr <errno name> / hang <what> / iter-end / wire <reads> <reads after the end>  (last line, not judged)
"""
from __future__ import annotations

import asyncio
import errno
import os
import select
import socket
import ssl
import struct
import threading
import time
from collections import deque
from typing import Any, Callable

from vlib import core, sers, streamdrive as sd
from vlib import c09_env as e9
from vlib import c15_env as env

from easynetwork.clients.async_tcp import AsyncTCPNetworkClient
from easynetwork.clients.tcp import TCPNetworkClient
from easynetwork.exceptions import StreamProtocolParseError
from easynetwork.lowlevel.api_async.backend._asyncio.backend import AsyncIOBackend
from easynetwork.lowlevel.api_async.endpoints.stream import AsyncStreamEndpoint
from easynetwork.lowlevel.api_async.transports.abc import AsyncStreamTransport
from easynetwork.lowlevel.api_async.transports.tls import AsyncTLSStreamTransport
from easynetwork.lowlevel.socket import INETSocketAttribute

END_KINDS = ("none", "notify", "ragged", "reset", "oserr", "notify-reset")
TURNS_PER_CALL = 2000          # + 6 per piece of ciphertext still to come (see _budget)
POS_TIMEOUT = 5.0              # virtual seconds


# ------------------------------------------------------------------------------------------------------------------------
# event loop: virtual time + a budget of turns per call
# ------------------------------------------------------------------------------------------------------------------------

class TLoop(env.VLoop):
    """VLoop which cancels `watched` (a task) when more than `limit` turns have run since `watch()`; a second budget later
    it gives up (env.Stuck).  `hung` tells what happened."""

    def __init__(self) -> None:
        super().__init__()
        self.watched: asyncio.Task | None = None
        self.limit = 0
        self.hung: str | None = None

    def watch(self, task: asyncio.Task | None, budget: int = 0) -> None:
        self.watched = task
        self.limit = self.turns + budget
        self._budget = budget

    def _run_once(self) -> None:
        t = self.watched
        if t is not None and self.turns >= self.limit:
            if t.done():
                self.watched = None
            elif self.hung is None:
                self.hung = "cancelled"
                self.limit = self.turns + self._budget
                t.cancel()
            else:
                self.hung = "uncancellable"
                raise env.Stuck("a call neither returns nor reacts to its cancellation")
        super()._run_once()


def _run_on(loop: asyncio.AbstractEventLoop, coro) -> Any:
    asyncio.set_event_loop(loop)
    try:
        from sniffio import thread_local
        old, thread_local.name = thread_local.name, "asyncio"
    except Exception:  # pragma: no cover
        thread_local, old = None, None
    try:
        return loop.run_until_complete(coro)
    finally:
        if thread_local is not None:
            thread_local.name = old
        try:
            pending = [t for t in asyncio.all_tasks(loop) if not t.done()]
            for t in pending:
                t.cancel()
            if pending:
                try:
                    if isinstance(loop, TLoop):
                        loop.watched = None
                        loop.max_turns = loop.turns + 2000
                    loop.run_until_complete(asyncio.gather(*pending, return_exceptions=True))
                except BaseException:  # noqa: BLE001
                    pass
            try:
                loop.run_until_complete(loop.shutdown_asyncgens())
            except BaseException:  # noqa: BLE001
                pass
        finally:
            asyncio.set_event_loop(None)
            loop.close()


# ------------------------------------------------------------------------------------------------------------------------
# in-memory lower transport + peer
# ------------------------------------------------------------------------------------------------------------------------

_attr: list[socket.socket] = []


def attr_socket() -> socket.socket:
    """one connected AF_INET socket per process: answers the extra-attribute queries of the client; no data goes through it"""
    if not _attr:
        srv = socket.socket(socket.AF_INET, socket.SOCK_STREAM)
        srv.bind(("127.0.0.1", 0))
        srv.listen(1)
        c = socket.socket(socket.AF_INET, socket.SOCK_STREAM)
        c.connect(srv.getsockname())
        p, _ = srv.accept()
        srv.close()
        _attr.extend([c, p])
    return _attr[0]


def build_stream(peer: ssl.SSLObject, out: ssl.MemoryBIO, case: dict) -> tuple[bytes, bytes, bytes]:
    """the peer (handshake done) encrypts one TLS record per `data` event and ends the stream as the case says.
    Returns (ciphertext the reader gets before the end, plaintext of the records it gets COMPLETELY, all the plaintext)."""
    recs: list[bytes] = []
    plains: list[bytes] = []
    for e in case["events"]:
        if e[0] != "data" or not e[1]:
            continue
        p = bytes.fromhex(e[1])
        peer.write(p)
        recs.append(out.read())
        plains.append(p)
    end = case["end"]
    stream = b"".join(recs)
    ncomplete = len(recs)
    if end in ("notify", "notify-reset"):
        try:
            peer.unwrap()
        except (ssl.SSLWantReadError, ssl.SSLError):
            pass
        stream += out.read()
    elif end != "none":
        rec, frac = case.get("cut") or [len(recs), 0]
        rec = min(int(rec), len(recs))
        start = sum(len(r) for r in recs[:rec])
        off = start + (len(recs[rec]) * min(int(frac), 999) // 1000 if rec < len(recs) else 0)
        stream = stream[:off]
        ncomplete = rec
    return stream, b"".join(plains[:ncomplete]), b"".join(plains)


def delivered_plain(case: dict) -> bytes:
    """plaintext of the records the reader gets completely before the end (a function of the case only)"""
    plains = [bytes.fromhex(e[1]) for e in case["events"] if e[0] == "data" and e[1]]
    if case["end"] in ("none", "notify", "notify-reset"):
        return b"".join(plains)
    rec, _frac = case.get("cut") or [len(plains), 0]
    return b"".join(plains[:min(int(rec), len(plains))])


class Wire(AsyncStreamTransport):
    """lower transport of the TLS transport under test; its other end is `peer`, a server-side ssl.SSLObject.

    Handshake phase: what the TLS transport writes is fed to the peer at once, the peer's answer becomes readable.
    `load(case)` (after the handshake): the peer encrypts the records of the case and ends the stream; from then on reads get
    the ciphertext in the scripted pieces and then the END, again at every later read (a socket keeps saying so)."""

    def __init__(self, backend, tls: str) -> None:
        super().__init__()
        self._be = backend
        self.inc = ssl.MemoryBIO()
        self.out = ssl.MemoryBIO()
        self.peer = e9.make_context("server", tls).wrap_bio(self.inc, self.out, server_side=True)
        self.hs_done = False
        self.pieces: deque[bytes] = deque()
        self.end = "none"
        self.end_phase = 0               # notify-reset: the reset comes at the read after the last piece
        self.closing = False
        self.reads = 0
        self.reads_after_end = 0
        self.loaded = False
        self.plain_complete = b""        # plaintext of the records delivered completely before the end
        self.plain_all = b""
        self._waiter: asyncio.Future | None = None
        self.peer_got: list[str] = []
        self.arrivals: deque[float] = deque()     # arrival time of pieces[i] (after load(); handshake pieces are there at once)
        self.end_at = 0.0

    # -- peer side
    def _pump_peer(self) -> None:
        try:
            if not self.hs_done:
                self.peer.do_handshake()
                self.hs_done = True
            else:
                while True:
                    d = self.peer.read(65536)
                    if not d:
                        self.peer_got.append("close_notify")
                        break
                    self.peer_got.append(f"data {len(d)}")
        except ssl.SSLWantReadError:
            pass
        except ssl.SSLZeroReturnError:
            self.peer_got.append("close_notify")
        except ssl.SSLError as e:
            self.peer_got.append("err " + type(e).__name__)
        if self.out.pending and not self.loaded:
            self.pieces.append(self.out.read())
            self._wake()

    def load(self, case: dict) -> None:
        assert self.hs_done and not self.pieces
        stream, self.plain_complete, self.plain_all = build_stream(self.peer, self.out, case)
        self.end = case["end"]
        self.pieces.extend(c for c in sd.cut(stream, [max(1, int(n)) for n in case.get("wire") or [65536]]) if c)
        # arrival times (virtual): piece i / the end is there `delays[i mod len]` after the one before
        delays = [float(d) for d in case.get("delays") or [0]]
        now = asyncio.get_running_loop().time()
        for i in range(len(self.pieces) + 1):
            now += delays[i % len(delays)]
            self.arrivals.append(now)
        self.end_at = now
        self.loaded = True
        self._wake()

    # -- transport side
    def _wake(self) -> None:
        w = self._waiter
        if w is not None and not w.done():
            w.set_result(None)

    def backend(self):
        return self._be

    def is_closing(self) -> bool:
        return self.closing

    @property
    def extra_attributes(self):
        s = attr_socket()
        return {
            INETSocketAttribute.socket: lambda: s,
            INETSocketAttribute.family: lambda: s.family,
            INETSocketAttribute.sockname: lambda: s.getsockname(),
            INETSocketAttribute.peername: lambda: s.getpeername(),
        }

    async def aclose(self) -> None:
        self.closing = True
        self._wake()
        await asyncio.sleep(0)

    async def send_all(self, data) -> None:
        if self.closing:
            raise OSError(errno.EBADF, "wire closed")
        if self.loaded and self.end in ("reset", "notify-reset", "oserr") and not self.pieces:
            raise ConnectionResetError(errno.ECONNRESET, "scripted reset") if self.end != "oserr" else OSError(errno.EIO, "scripted I/O error")
        self.inc.write(bytes(data))
        self._pump_peer()
        await asyncio.sleep(0)

    async def send_eof(self) -> None:
        await asyncio.sleep(0)

    async def recv_into(self, buffer) -> int:
        # (the suspension comes first: a cancellation delivered there takes nothing out of the wire)
        await asyncio.sleep(0)
        while True:
            if self.closing:
                raise OSError(errno.EBADF, "wire closed")
            now = asyncio.get_running_loop().time()
            if self.pieces:
                at = self.arrivals[0] if self.arrivals else 0.0
                if at > now:
                    await asyncio.sleep(at - now)      # not arrived yet; a cancelled wait loses nothing
                    continue
                self.reads += 1
                c = self.pieces[0]
                with memoryview(buffer) as mv:
                    mv = mv.cast("B") if mv.itemsize != 1 else mv
                    n = min(len(c), mv.nbytes)
                    mv[:n] = c[:n]
                if n < len(c):
                    self.pieces[0] = c[n:]
                else:
                    self.pieces.popleft()
                    if self.arrivals:
                        self.arrivals.popleft()
                return n
            if self.loaded and self.end != "none":
                if self.end_at > now:
                    await asyncio.sleep(self.end_at - now)
                    continue
                self.reads += 1
                self.reads_after_end += 1
                if self.end in ("notify", "ragged"):
                    return 0
                if self.end == "oserr":
                    raise OSError(errno.EIO, "scripted I/O error")
                raise ConnectionResetError(errno.ECONNRESET, "scripted reset")
            self._waiter = asyncio.get_running_loop().create_future()
            try:
                await self._waiter
            finally:
                self._waiter = None

    async def recv(self, bufsize: int) -> bytes:
        buf = bytearray(bufsize)
        n = await self.recv_into(buf)
        return bytes(buf[:n])


class _Backend(AsyncIOBackend):
    """AsyncIOBackend whose wrap_stream_socket() hands out the prepared wire (client layer)"""

    def __init__(self) -> None:
        super().__init__()
        self.wires: list[Wire] = []

    async def wrap_stream_socket(self, sock):
        await asyncio.sleep(0)
        return self.wires.pop(0)


def classify(exc: BaseException, client: bool) -> str:
    if isinstance(exc, StreamProtocolParseError):
        return sd.err_line(exc)
    if isinstance(exc, TimeoutError):
        return "timeout"
    if isinstance(exc, ConnectionAbortedError):
        return "eos"
    if isinstance(exc, ssl.SSLEOFError):
        return "ssl-eof"
    if isinstance(exc, ssl.SSLError):
        return "ssl-err " + str(getattr(exc, "reason", None) or type(exc).__name__)
    if isinstance(exc, ConnectionError):
        return (f"eos-as {type(exc).__name__}") if client else f"connerr {type(exc).__name__}"
    if isinstance(exc, OSError):
        return "oserr " + errno.errorcode.get(exc.errno or 0, str(exc.errno))
    return f"exc {type(exc).__name__}: {exc}"[:200]


def run_mem(case: dict) -> list[str]:
    """api "atls" """
    proto = sd.make_protocol(case["spec"], case["path"])
    lines: list[str] = []
    loop = TLoop()
    loop.max_turns = 400000
    box: dict[str, Any] = {}
    client_layer = case.get("layer") == "client"
    cctx = e9.make_context("client", case.get("tls", "1.3"), ignore_eof=bool(case.get("ignore_eof")))
    sc = bool(case.get("sc", True))

    async def main() -> None:
        backend = _Backend()
        wire = Wire(backend, case.get("tls", "1.3"))
        box["wire"] = wire
        if client_layer:
            backend.wires.append(wire)
            obj: Any = AsyncTCPNetworkClient(attr_socket(), proto, backend, ssl=cctx, server_hostname="localhost",
                                             ssl_standard_compatible=sc, max_recv_size=case["maxrecv"], ssl_shutdown_timeout=0.5)
            await obj.wait_connected()
        else:
            tls = await AsyncTLSStreamTransport.wrap(wire, cctx, server_hostname="localhost", standard_compatible=sc)
            obj = AsyncStreamEndpoint(tls, proto, max_recv_size=case["maxrecv"])
        if not wire.hs_done:
            raise core.InfraError("C03 TLS: the handshake did not complete on the peer's side")
        wire.load(case)
        budget = TURNS_PER_CALL + 6 * len(wire.pieces)
        me = asyncio.current_task()

        async def one(call: dict) -> None:
            k, t = call.get("k", "recv"), call.get("t", "none")
            tmo = {"none": None, "pos": POS_TIMEOUT, "zero": 0}[t]
            if tmo is None and case["end"] == "none":
                tmo = POS_TIMEOUT              # nothing would ever end this call
            if k == "iter":
                try:
                    async for p in obj.iter_received_packets(timeout=tmo):
                        lines.append(sd.pkt_line(p))
                finally:
                    pass
                lines.append("iter-end")
            elif tmo is None:
                lines.append(sd.pkt_line(await obj.recv_packet()))
            else:
                with backend.timeout(tmo):
                    p = await obj.recv_packet()
                lines.append(sd.pkt_line(p))

        for call in case["calls"]:
            loop.watch(me, budget)
            try:
                await one(call)
            except asyncio.CancelledError:
                if loop.hung is None:
                    raise
                me.uncancel()
                lines.append(f"hang call={call.get('k', 'recv')}/{call.get('t', 'none')}: still running after {budget} event-loop turns "
                             f"({wire.reads_after_end} reads of the lower transport after its end)")
                break
            except Exception as e:  # noqa: BLE001
                lines.append(classify(e, client_layer))
        loop.hung = None
        loop.watch(me, budget)
        try:
            await obj.aclose()
        except asyncio.CancelledError:
            if loop.hung is None:
                raise
            me.uncancel()
            lines.append("note aclose() cancelled by the turn budget")
        except Exception:  # noqa: BLE001
            pass
        loop.watch(None)
        loop.hung = None

    try:
        _run_on(loop, _guard(main, lines, loop))
    except env.Stuck as e:
        lines.append(f"hang {e}")
    w = box.get("wire")
    if w is not None:
        lines.append(f"wire {w.reads} {w.reads_after_end}")
    return lines


async def _guard(main: Callable, lines: list[str], loop: TLoop) -> None:
    try:
        await main()
    except core.InfraError:
        raise
    except asyncio.CancelledError:
        lines.append("hang set-up or tear-down cancelled by the turn budget")
    except Exception as e:  # noqa: BLE001
        lines.append(f"harness-exc {type(e).__name__}: {e}"[:300])


# ------------------------------------------------------------------------------------------------------------------------
# real loopback: TCPNetworkClient(ssl=...) / AsyncTCPNetworkClient(ssl=...)
# ------------------------------------------------------------------------------------------------------------------------

GUARD = 4.0           # wall-clock guard of one call which has everything it needs at hand (seconds)
SPIN_TURNS = 5000     # event-loop turns one call may use on the real loop (a waiting call uses a handful)


class RLoop(asyncio.SelectorEventLoop):
    """real selector loop which counts its turns: `watch(task, turns, wall)` - the task is cancelled when that many turns
    have run (a receive that spins) or `wall` seconds have passed (a receive that waits for nothing); `hung` says which."""

    def __init__(self) -> None:
        super().__init__()
        self.turns = 0
        self.watched: asyncio.Task | None = None
        self.limit = 0
        self.deadline = 0.0
        self.hung: str | None = None
        self._wd: asyncio.TimerHandle | None = None

    def watch(self, task: asyncio.Task | None, turns: int = 0, wall: float = 0.0) -> None:
        if self._wd is not None:
            self._wd.cancel()
            self._wd = None
        self.watched = task
        self.limit = self.turns + turns
        self.deadline = time.monotonic() + wall
        if task is not None:
            self._wd = self.call_later(wall + 0.01, lambda: None)

    def _run_once(self) -> None:
        self.turns += 1
        t = self.watched
        if t is not None and self.hung is None and not t.done():
            if self.turns >= self.limit:
                self.hung = "turns"
                t.cancel()
            elif time.monotonic() >= self.deadline:
                self.hung = "wall"
                t.cancel()
        super()._run_once()


class _Abort(BaseException):
    """injected into a thread of the harness whose call neither returns nor times out"""


def run_guarded(fn: Callable[[], None], progress: Callable[[], int], guard: float, fd: int) -> bool:
    """run `fn` in a thread; True when it finished.  When `progress()` has not changed for `guard` seconds the thread is stopped:
    an asynchronous exception is planted in it (takes effect at its next bytecode - enough for a loop that spins) and the
    connection is shut down through the dup `fd` (wakes a thread which sleeps in select()); returns False."""
    import ctypes

    done = threading.Event()

    def body() -> None:
        try:
            fn()
        except _Abort:
            pass
        except Exception:  # noqa: BLE001   (set-up / tear-down helpers: nothing to report)
            pass
        finally:
            done.set()

    th = threading.Thread(target=body, daemon=True)
    th.start()
    last, t_last = progress(), time.monotonic()
    while not done.wait(0.02):
        now = progress()
        if now != last:
            last, t_last = now, time.monotonic()
        elif time.monotonic() - t_last > guard:
            ctypes.pythonapi.PyThreadState_SetAsyncExc(ctypes.c_ulong(th.ident or 0), ctypes.py_object(_Abort))
            try:
                sk = socket.socket(fileno=os.dup(fd))
                try:
                    sk.shutdown(socket.SHUT_RDWR)
                finally:
                    sk.close()
            except OSError:
                pass
            done.wait(5)
            return False
    return True


def _wait_flags(fd: int, mask: int, ms: int) -> bool:
    p = select.poll()
    p.register(fd, mask)          # POLLERR / POLLHUP are always reported
    t_end = time.monotonic() + ms / 1000
    while True:
        for _fd, ev in p.poll(max(0, int((t_end - time.monotonic()) * 1000))):
            if ev & (mask | select.POLLERR | select.POLLHUP):
                return True
        if time.monotonic() >= t_end:
            return False


class _TLSServer:
    """loopback listener + peer thread: handshake (ssl.SSLObject over MemoryBIOs, pumped over the raw socket), then the
    ciphertext of the case in one sendall(), then - when told - the close: FIN (ends notify / ragged) or RST (end "rst":
    SO_LINGER 0)."""

    def __init__(self, case: dict) -> None:
        self.case = case
        self.srv = socket.socket()
        self.srv.bind(("127.0.0.1", 0))
        self.srv.listen(1)
        self.srv.settimeout(10)
        self.port = self.srv.getsockname()[1]
        self.sent = threading.Event()
        self.close_now = threading.Event()
        self.closed = threading.Event()
        self.problem: str | None = None
        self.th = threading.Thread(target=self._run, daemon=True)
        self.th.start()

    def _run(self) -> None:
        case = self.case
        try:
            conn, _ = self.srv.accept()
        except OSError as e:
            self.problem = f"accept {type(e).__name__}"
            self.sent.set()
            self.closed.set()
            return
        try:
            conn.settimeout(10)
            conn.setsockopt(socket.IPPROTO_TCP, socket.TCP_NODELAY, 1)
            inc, out = ssl.MemoryBIO(), ssl.MemoryBIO()
            obj = e9.make_context("server", case.get("tls", "1.3")).wrap_bio(inc, out, server_side=True)
            while True:
                try:
                    obj.do_handshake()
                    break
                except ssl.SSLWantReadError:
                    if out.pending:
                        conn.sendall(out.read())
                    d = conn.recv(65536)
                    if not d:
                        raise OSError("peer gone during the handshake")
                    inc.write(d)
            if out.pending:
                conn.sendall(out.read())
            kind = {"rst": "ragged"}.get(case["end"], case["end"])
            stream, _pc, _pa = build_stream(obj, out, {**case, "end": kind})
            if stream:
                conn.sendall(stream)
            self.sent.set()
            self.close_now.wait(30)
            if case["end"] == "rst":
                conn.setsockopt(socket.SOL_SOCKET, socket.SO_LINGER, struct.pack("ii", 1, 0))
        except (OSError, ssl.SSLError) as e:
            self.problem = f"{type(e).__name__}: {e}"
        finally:
            self.sent.set()
            try:
                conn.close()
            finally:
                self.closed.set()

    def finish(self) -> None:
        self.close_now.set()
        self.th.join(5)
        self.srv.close()


def run_loopback(case: dict) -> list[str]:
    """api "tlstcp" / "tlsatcp": first attempt; a guard that expired is retried once by the caller (run_loopback_checked)"""
    proto = sd.make_protocol(case["spec"], case["path"])
    lines: list[str] = []
    srv = _TLSServer(case)
    cctx = e9.make_context("client", case.get("tls", "1.3"), ignore_eof=bool(case.get("ignore_eof")))
    sc = bool(case.get("sc", True))
    rst = case["end"] == "rst"
    noticed = int(case.get("noticed", 3))
    dupfd = -1

    def settle(fd: int) -> None:
        srv.sent.wait(10)
        srv.close_now.set()
        srv.closed.wait(10)
        if srv.problem:
            raise core.InfraError("C03 TLS loopback peer: " + srv.problem)
        if not _wait_flags(fd, 0 if rst else select.POLLRDHUP, 5000):
            lines.append("infra the kernel did not notify the peer's close")

    try:
        if case["api"] == "tlstcp":
            client = TCPNetworkClient(("127.0.0.1", srv.port), proto, ssl=cctx, server_hostname="localhost",
                                      ssl_standard_compatible=sc, max_recv_size=case["maxrecv"], connect_timeout=10,
                                      ssl_handshake_timeout=10, ssl_shutdown_timeout=0.5)
            try:
                dupfd = os.dup(client.socket.fileno())
                settle(dupfd)

                def calls() -> None:
                    for call in case["calls"]:
                        k, t = call.get("k", "recv"), call.get("t", "none")
                        # the timeout handed to the client is longer than the guard: the guard is the harness's own clock
                        # (a receive that spins does not wait, so its own time-out accounting never gets anywhere)
                        tmo = 0 if t == "zero" else 4 * GUARD
                        cur[0] = f"{k}/{t}"
                        try:
                            if k == "iter":
                                for p in client.iter_received_packets(timeout=tmo):
                                    lines.append(sd.pkt_line(p))
                                lines.append("iter-end")
                            else:
                                lines.append(sd.pkt_line(client.recv_packet(timeout=tmo)))
                        except TimeoutError:
                            lines.append("timeout")
                        except Exception as e:  # noqa: BLE001
                            lines.append(classify(e, True))

                cur = ["?"]
                if not run_guarded(calls, lambda: len(lines), GUARD, dupfd):
                    lines.append(f"stuck call={cur[0]}: no result for {GUARD} s although the peer has closed and everything it sent "
                                 "had arrived before the call")
            finally:
                run_guarded(client.close, lambda: 0, GUARD, dupfd)
        else:
            loop = RLoop()

            async def main() -> None:
                nonlocal dupfd
                client = AsyncTCPNetworkClient(("127.0.0.1", srv.port), proto, ssl=cctx, server_hostname="localhost",
                                               ssl_standard_compatible=sc, max_recv_size=case["maxrecv"], ssl_shutdown_timeout=0.5)
                me = asyncio.current_task()
                loop.watch(me, 200000, 15.0)
                try:
                    await client.wait_connected()
                    dupfd = os.dup(client.socket.fileno())
                    while not srv.sent.is_set():
                        await asyncio.sleep(0.001)
                    settle(dupfd)
                    for _ in range(noticed):
                        await asyncio.sleep(0)
                except asyncio.CancelledError:
                    if loop.hung is None:
                        raise
                    me.uncancel()
                    lines.append("infra connection set-up did not finish")
                    return
                backend = client.backend()
                for call in case["calls"]:
                    k, t = call.get("k", "recv"), call.get("t", "none")
                    loop.hung = None
                    loop.watch(me, SPIN_TURNS, GUARD)
                    try:
                        if k == "iter":
                            async for p in client.iter_received_packets(timeout=0 if t == "zero" else None):
                                lines.append(sd.pkt_line(p))
                            lines.append("iter-end")
                        elif t == "zero":
                            with backend.timeout(0):
                                p = await client.recv_packet()
                            lines.append(sd.pkt_line(p))
                        else:
                            lines.append(sd.pkt_line(await client.recv_packet()))
                    except asyncio.CancelledError:
                        if loop.hung is None:
                            raise
                        me.uncancel()
                        if loop.hung == "turns":
                            lines.append(f"hang call={k}/{t}: still running after {SPIN_TURNS} event-loop turns (a receive that spins)")
                        else:
                            lines.append(f"stuck call={k}/{t}: nothing for {GUARD} s although the peer has closed")
                        break
                    except Exception as e:  # noqa: BLE001
                        lines.append(classify(e, True))
                loop.hung = None
                loop.watch(me, SPIN_TURNS, GUARD)
                try:
                    await client.aclose()
                except asyncio.CancelledError:
                    if loop.hung is None:
                        raise
                    me.uncancel()
                except Exception:  # noqa: BLE001
                    pass
                loop.watch(None)

            _run_on(loop, _guard(main, lines, loop))  # type: ignore[arg-type]
    except core.InfraError:
        raise
    except (TimeoutError, OSError, ssl.SSLError) as e:
        lines.append(f"infra set-up {type(e).__name__}: {e}"[:200])
    finally:
        srv.finish()
        if dupfd >= 0:
            os.close(dupfd)
    return lines


def run_loopback_checked(case: dict) -> list[str]:
    """wall-clock guards are never a verdict by themselves: a run in which one expired (`stuck` / `infra` lines) is done again;
    expired again -> the lines of the second run (the oracle reports the reproducible stall); not again -> InfraError"""
    first = run_loopback(case)
    if not any(ln.startswith(("stuck ", "infra ")) for ln in first):
        return first
    second = run_loopback(case)
    if any(ln.startswith("stuck ") for ln in second):
        return second
    if any(ln.startswith("infra ") for ln in second):
        raise core.InfraError("C03 TLS loopback: " + next(ln for ln in second if ln.startswith("infra ")))
    raise core.InfraError("C03 TLS loopback: a wall-clock guard expired once (" + next(ln for ln in first if ln.startswith(("stuck ", "infra ")))[:120]
                          + ") and not on the re-run")


# ------------------------------------------------------------------------------------------------------------------------
# oracle, classes, generation (all three TLS families)
# ------------------------------------------------------------------------------------------------------------------------

LOOPBACK = ("tlstcp", "tlsatcp")


def _is_end(o: str) -> bool:
    return o == "eos" or o.startswith(("eos-as ", "ssl-eof", "ssl-err ", "connerr ", "oserr "))


def _client_layer(case: dict) -> bool:
    return case["api"] in LOOPBACK or case.get("layer") == "client"


def allowed_reports(case: dict) -> tuple[set[str], set[str], str]:
    """(classes allowed for the FIRST report of the end, classes allowed for the later ones, the documented behaviour in words)"""
    end = {"rst": "reset"}.get(case["end"], case["end"])
    sc = bool(case.get("sc", True))
    if _client_layer(case):
        first = {"eos"}
        doc = "the clients convert the end of the stream and every connection error into ConnectionAbortedError"
        if end == "oserr":
            first = {"eos", "oserr EIO"}
            doc += " (an unrelated OSError of the transport may come through as it is)"
        return first, first | {"eos"}, doc
    # AsyncStreamEndpoint over AsyncTLSStreamTransport: the endpoint reports ConnectionAbortedError when the transport says
    # "end of stream", and lets the transport's own errors through
    later = {"eos"} | ({"ssl-eof"} if sc else set())
    if end in ("notify", "notify-reset"):
        return {"eos"}, later, "close_notify is the end of the stream: ConnectionAbortedError"
    if end == "ragged":
        if not sc:
            return {"eos"}, later, ("standard_compatible=False: the transport does not raise when the peer skips the closing handshake; "
                                    "the endpoint reports the end of the stream, ConnectionAbortedError")
        if case.get("ignore_eof"):
            return {"eos", "ssl-eof"}, later, "OP_IGNORE_UNEXPECTED_EOF set on the context: OpenSSL reads the EOF as a clean end"
        return {"ssl-eof"}, later, "standard_compatible=True: a connection closed without close_notify is an error, ssl.SSLEOFError"
    if end == "reset":
        return {"connerr ConnectionResetError", "eos"}, later | {"connerr ConnectionResetError"}, \
            "the transport's ConnectionResetError (or the end-of-stream report)"
    return {"oserr EIO"}, later | {"oserr EIO"}, "the transport's OSError"


def oracle(case: dict, real: list[str], decode_items) -> str | None:
    bad = next((ln for ln in real if ln.startswith(("harness-exc", "exc "))), None)
    if bad:
        return "unexpected exception: " + bad
    exp = decode_items(case["spec"], delivered_plain(case))
    outs = [ln for ln in real if not ln.startswith(("wire ", "note ", "infra ")) and ln != "iter-end"]
    items = [ln for ln in outs if ln.startswith(("pkt ", "err "))]
    where = _where(case)
    if items != exp[:len(items)]:
        return f"delivered {items[:6]} is not a prefix of the reference decoding {exp[:6]} ({where})"
    closed = case["end"] != "none"
    for k, o in enumerate(outs):
        if o.startswith(("hang ", "stuck ")):
            got = sum(1 for x in outs[:k] if x.startswith(("pkt ", "err ")))
            return (f"a receive never ends ({where}; {got} of {len(exp)} packets delivered before): {o}"
                    + ("" if closed else " - the peer has not closed, but a receive bounded by a timeout must end with TimeoutError"))
    ends = [k for k, o in enumerate(outs) if _is_end(o)]
    last_blocks = bool(case["calls"]) and case["calls"][-1].get("t") != "zero" and case["calls"][-1].get("k", "recv") == "recv"
    if not closed:
        if ends:
            return f"the end of the stream is reported ({outs[ends[0]]}) although the peer has not closed ({where})"
        if last_blocks and outs and outs[-1] == "timeout" and items != exp and not any(case.get("delays") or []):
            return f"only {len(items)} of the {len(exp)} complete packets were delivered before a receive timed out ({where})"
        return None
    if not ends:
        if last_blocks and outs and outs[-1] == "timeout":
            return (f"the end of the stream is never reported: the last receive waited for its whole timeout although the peer had "
                    f"closed ({where})")
        return None
    i = ends[0]
    before = [o for o in outs[:i] if o.startswith(("pkt ", "err "))]
    lossy = case["api"] in LOOPBACK and case["end"] == "rst"       # RST on a real socket may destroy what was not read yet
    if before != exp and not lossy:
        return (f"the end of the stream is reported after {len(before)} of {len(exp)} complete packets ({where}): "
                f"{exp[len(before):][:3]} never delivered")
    first, later, doc = allowed_reports(case)
    if outs[i] not in first:
        return (f"call #{i}: the end of the stream ({where}) is reported as `{outs[i]}`; documented: {doc}")
    for k in range(i + 1, len(outs)):
        if not _is_end(outs[k]):
            return f"after the end of the stream had been reported (call #{i}: {outs[i]}) a later call returned `{outs[k]}` ({where})"
        if outs[k] not in later:
            return (f"call #{k} (after the first report of the end, call #{i}: {outs[i]}): the end is reported again as `{outs[k]}`; "
                    f"expected one of {sorted(later)} ({where})")
    return None


def _where(case: dict) -> str:
    if case["api"] in LOOPBACK:
        who = "TCPNetworkClient(ssl=...)" if case["api"] == "tlstcp" else "AsyncTCPNetworkClient(ssl=...)"
        who += " over loopback"
    else:
        who = ("AsyncTCPNetworkClient(ssl=...)" if case.get("layer") == "client" else "AsyncStreamEndpoint over AsyncTLSStreamTransport") \
            + " over an in-memory wire"
    cut = case.get("cut")
    pos = ""
    if case["end"] in ("ragged", "reset", "oserr", "rst") and cut:
        pos = f" after record {cut[0]}" + (f" + {cut[1]}/1000 of the next one" if cut[1] else "")
    return (f"{who}, TLS {case.get('tls', '1.3')}, standard_compatible={bool(case.get('sc', True))}, {case['path']} path, "
            f"peer ends with `{case['end']}`{pos}")


def nontrivial(case: dict, real: list[str]) -> str | None:
    outs = [ln for ln in real if not ln.startswith(("wire ", "note ")) and ln != "iter-end"]
    tags = [case["end"]]
    if sum(1 for o in outs if _is_end(o)) >= 2:
        tags.append("sticky")
    if "timeout" in outs:
        tags.append("timeout")
    if case.get("close_inside"):
        tags.append("close-inside-frame")
    if case.get("cut") and case["cut"][1]:
        tags.append("cut-inside-record")
    if any(case.get("delays") or []):
        tags.append("late-arrivals")
    layer = case.get("layer", "client")
    return f"{case['api']}/{layer}/{'sc' if case.get('sc', True) else 'nsc'}/{case['path']}/" + "+".join(tags)


def shrink(case: dict):
    ev = case["events"]
    for i in range(len(ev)):
        if len(ev) > 1:
            yield {**case, "events": ev[:i] + ev[i + 1:]}
    calls = case["calls"]
    for i in range(len(calls)):
        if len(calls) > 1:
            yield {**case, "calls": calls[:i] + calls[i + 1:]}
    if case.get("wire") and case["wire"] != [65536]:
        yield {**case, "wire": [65536]}
    if case.get("delays"):
        yield {**case, "delays": None}
    if case.get("cut") and case["cut"][1]:
        yield {**case, "cut": [case["cut"][0], 0]}
    if case.get("ignore_eof"):
        yield {**case, "ignore_eof": False}
    if case.get("tls") == "1.2":
        yield {**case, "tls": "1.3"}


def _gen_calls(rng, n_items: int, with_iter: bool, end_none: bool) -> list[dict]:
    pre = []
    for _ in range(rng.randint(0, n_items + 3)):
        if with_iter and rng.random() < 0.3:
            pre.append({"k": "iter", "t": rng.choice(["zero", "zero", "pos", "none"])})
        else:
            pre.append({"k": "recv", "t": rng.choice(["none", "none", "pos", "zero", "zero"])})
    return pre + [{"k": "recv", "t": "none"}] * (n_items + 3)


def gen_mem_case(rng, base: dict, n_items_of) -> dict:
    """`base`: a case of the scripted family (spec, path, data events = plaintext chunks, maxrecv);
    `n_items_of(case) -> int`: number of complete items the reader gets (property module's reference decoder)"""
    events = [e for e in base["events"] if e[0] == "data" and e[1]]
    layer = rng.choice(["endpoint", "client", "client"])
    end = rng.choice(["ragged"] * 5 + ["notify"] * 2 + ["reset", "reset", "oserr", "notify-reset", "none"])
    case = {"api": "atls", "layer": layer, "spec": base["spec"], "path": base["path"], "maxrecv": base["maxrecv"],
            "tls": rng.choice(["1.3", "1.3", "1.2"]), "sc": rng.random() < 0.5, "ignore_eof": rng.random() < 0.15,
            "events": events, "end": end, "cut": None,
            "wire": [rng.choice([1, 5, 17, 64, 300, 70000]) for _ in range(rng.randint(1, 4))]}
    if end in ("ragged", "reset", "oserr") and rng.random() < 0.6:
        case["cut"] = [rng.randint(0, len(events)), rng.choice([0, 0, 1, 500, 999, rng.randint(0, 999)])]
    if end != "none" and rng.random() < 0.3:
        # the pieces / the end arrive late (virtual seconds): receives bounded by a timeout give up in the middle of a record
        # or of a frame, later ones go on
        case["delays"] = [rng.choice([0, 0, 0, 1.5, 4.0, 6.0]) for _ in range(rng.randint(1, 3))]
    n = n_items_of(case)
    case["calls"] = _gen_calls(rng, n, layer == "client", end == "none")
    return case


def gen_loopback_case(rng, base: dict, n_items_of) -> dict:
    events = [e for e in base["events"] if e[0] == "data" and e[1]]
    end = rng.choice(["ragged"] * 3 + ["notify"] * 2 + ["rst"])
    case = {"api": rng.choice(LOOPBACK), "spec": base["spec"], "path": base["path"], "maxrecv": base["maxrecv"],
            "tls": rng.choice(["1.3", "1.3", "1.2"]), "sc": rng.random() < 0.5, "ignore_eof": rng.random() < 0.15,
            "events": events, "end": end, "cut": None, "noticed": rng.choice([0, 1, 3, 10])}
    if end in ("ragged", "rst") and rng.random() < 0.5:
        case["cut"] = [rng.randint(0, len(events)), rng.choice([0, 0, 500, rng.randint(0, 999)])]
    n = n_items_of(case)
    pre = [{"k": rng.choice(["recv", "recv", "iter"]), "t": rng.choice(["none", "pos", "zero", "zero"])}
           for _ in range(rng.randint(0, n + 2))]
    case["calls"] = pre + [{"k": "recv", "t": "none"}] * (n + 3)
    return case
