"""
C14 real-code runner: one case = one close operation on real EasyNetwork objects over in-memory transports, with an
optional cancellation injected right after task step k of the close task, and scripted failures of the wrapped
transport's own aclose / send_all / recv_into.

case = {"path": ..., "params": {...}, "step": k | None}

paths
  stapled    AsyncStapledStreamTransport(send, recv).aclose()              params: send/recv = {steps, err}
  endpoint   AsyncStreamEndpoint(transport, protocol).aclose()             params: inner = {steps, err}
  tls        AsyncTLSStreamTransport.aclose() over a pipe to a real TLS peer
             params: sc (standard_compatible), peer ("reply"|"silent"|"first"|"firstgone"|"drop"), shutdown_timeout
                     (units; 0 is legal: the scope is expired on entry and its cancellation is delivered at the first
                     suspension - if there is one), inner = {steps, err}, send_err (n-th send_all of the wrapped transport
                     after the handshake fails), recv_err (likewise recv_into),
                     read_eof (the application has READ the peer's close_notify - recv() returned b"" - before aclose():
                     unwrap() then completes at once), sync_send (send_all of the wrapped transport does not suspend)
  tlswrap    AsyncTLSStreamTransport.wrap() itself is the operation        params: hs ("ok"|"garbage"|"eof"|"silent"),
                     handshake_timeout (units), inner = {steps, err}
  tcpclient  AsyncTCPNetworkClient.aclose() (in-memory backend)           params: inner = {steps, err}, busy (another task
                     is inside send_packet(), parked in the transport, holding the send lock)
  tcpconnect AsyncTCPNetworkClient.aclose() while the CONNECTION ATTEMPT is still in progress (vlib/c14_conn.py)
  srvclient  server-side client: the request handler calls client.aclose() (real AsyncTCPNetworkServer, in-memory
             backend); the cancellation hits the client task                params: inner = {steps, err}, busy

observables (lines)
  steps <n>                      task steps of the operation (from arming to completion)
  at <qualname>                  innermost EasyNetwork coroutine the task was parked in when the cancellation was requested
  outcome ok|cancelled|exc:<Kind>
  inner <name>=<0|1> ...         closed flag of each wrapped transport when the operation (for srvclient: the client task) is over
  closing <0|1>                  is_closing() of the outer object
  second <ok|exc:Kind|hang> dt=<0|+>   a second close: how it ended and whether virtual time passed
"""
from __future__ import annotations

import asyncio
import contextlib
import logging
from typing import Any

from vlib import core, sers, streamdrive as sd
from vlib import c15_env as env
from vlib import c14_env as e14

from easynetwork.lowlevel.api_async.endpoints.stream import AsyncStreamEndpoint
from easynetwork.lowlevel.api_async.transports.composite import AsyncStapledStreamTransport
from easynetwork.lowlevel.api_async.transports.tls import AsyncTLSStreamTransport

LINE = {"k": "line", "newline": "LF", "keep_end": False, "encoding": "ascii", "limit": 64}


def kind(e: BaseException) -> str:
    if isinstance(e, asyncio.CancelledError):
        return "cancelled"
    if isinstance(e, TimeoutError):
        return "exc:Timeout"
    if isinstance(e, OSError):
        return "exc:OSError"
    return "exc:" + type(e).__name__


def err_of(p: dict | None):
    return OSError(5, "scripted close error") if (p or {}).get("err") else None


def mem(p: dict | None, **kw) -> env.MemTransport:
    p = p or {}
    return env.MemTransport([], "hang", close_steps=p.get("steps", 0), close_error=err_of(p), **kw)


class Setup:
    outer: Any
    inners: dict[str, Any]

    def __init__(self) -> None:
        self.inners = {}
        self.bg: list[asyncio.Task] = []
        self.after_first = None      # coroutine function run after the first close ended (e.g. release a parked sender)
        self.expect_closed_if = lambda outcome: True

    def op(self):
        return self.outer.aclose()

    def again(self):
        return self.outer.aclose()

    def closing(self) -> bool:
        return self.outer.is_closing()


async def setup_stapled(p: dict) -> Setup:
    s = Setup()
    a, b = mem(p.get("send")), mem(p.get("recv"))
    s.inners = {"send": a, "recv": b}
    s.outer = AsyncStapledStreamTransport(a, b)
    return s


async def setup_endpoint(p: dict) -> Setup:
    s = Setup()
    t = mem(p.get("inner"))
    s.inners = {"t": t}
    s.outer = AsyncStreamEndpoint(t, sd.make_protocol(LINE, "copy"), max_recv_size=1024)
    return s


async def setup_tls(p: dict) -> Setup:
    s = Setup()
    ip = p.get("inner") or {}
    a, b = e14.pipe_pair(close_steps=ip.get("steps", 0), close_error=err_of(ip))
    peer = e14.TLSPeer(b, "ok", p.get("peer", "reply"))
    s.bg.append(asyncio.ensure_future(peer.run()))
    tls = await AsyncTLSStreamTransport.wrap(a, e14.client_context(), server_hostname="localhost",
                                             standard_compatible=bool(p.get("sc", True)),
                                             shutdown_timeout=float(p.get("shutdown_timeout", 30)))
    if p.get("data"):
        await tls.send_all(b"hello")
    peer.go_after.set()
    for _ in range(3):
        await asyncio.sleep(0)
    if p.get("read_eof"):
        # the application reads until the end of the stream first (the ordinary "peer hangs up first" sequence)
        try:
            got = await tls.recv(1024)
            s.pre_lines = ["pre-read " + ("eof" if not got else f"data:{len(got)}")]
        except Exception as e:  # noqa: BLE001
            s.pre_lines = ["pre-read " + kind(e)]
    a.sync_send = bool(p.get("sync_send"))
    a.nsend = a.nrecv = 0
    a.send_error_at = p.get("send_err", 0)
    a.recv_error_at = p.get("recv_err", 0)
    s.inners = {"t": a}
    s.outer = tls
    s.peer = peer
    return s


async def setup_tlswrap(p: dict) -> Setup:
    s = Setup()
    ip = p.get("inner") or {}
    a, b = e14.pipe_pair(close_steps=ip.get("steps", 0), close_error=err_of(ip))
    a.send_error_at = p.get("send_err", 0)
    a.recv_error_at = p.get("recv_err", 0)
    peer = e14.TLSPeer(b, p.get("hs", "ok"), "reply")
    peer.go_after.set()
    s.bg.append(asyncio.ensure_future(peer.run()))
    s.inners = {"t": a}
    box: dict[str, Any] = {}

    async def op():
        box["tls"] = await AsyncTLSStreamTransport.wrap(a, e14.client_context(), server_hostname="localhost",
                                                        handshake_timeout=float(p.get("handshake_timeout", 60)))

    async def again():
        # "second close" of a failed wrap: closing the wrapped transport again must return at once
        if "tls" in box:
            await box["tls"].aclose()
        else:
            await a.aclose()

    s.op = op
    s.again = again
    s.closing = lambda: (box["tls"].is_closing() if "tls" in box else a.is_closing())
    s.expect_closed_if = lambda outcome: outcome != "ok"
    return s


async def setup_tcpclient(p: dict) -> Setup:
    from vlib import c15_tcp

    s = Setup()
    ip = p.get("inner") or {}
    proto = sd.make_protocol(LINE, "copy")
    client, t, be = c15_tcp.make_tcp_client(proto, [], "hang", close_steps=ip.get("steps", 0), close_error=err_of(ip))
    await client.wait_connected()
    s.inners = {"t": t}
    s.outer = client
    if p.get("busy"):
        gate = asyncio.Event()
        orig = t.send_all

        async def parked_send(data):
            await gate.wait()
            return await orig(data)

        t.send_all = parked_send  # type: ignore[method-assign]

        async def sender():
            with contextlib.suppress(Exception):
                await client.send_packet("x")

        s.bg.append(asyncio.ensure_future(sender()))
        for _ in range(4):
            await asyncio.sleep(0)
        # the parked sender is released at virtual time +10 whatever happens
        asyncio.get_running_loop().call_later(10.0, gate.set)

        async def release():
            await asyncio.sleep(20.0)

        s.after_first = release
    return s


class MemDgramTransport:
    """built lazily (needs the library's ABC): in-memory connected datagram transport with the close bookkeeping of
    c15_env.MemTransport (close_steps suspensions of a graceful close, scripted close error, `closed` flag)"""


def _mem_dgram(be, close_steps: int, close_error):
    from easynetwork.lowlevel.api_async.transports import abc as tr_abc
    from vlib import c15_tcp

    class _T(tr_abc.AsyncDatagramTransport):
        def __init__(self) -> None:
            super().__init__()
            self.closing = False
            self.closed = False
            self.aclose_calls = 0
            self._extra = c15_tcp.inet_extra((c15_tcp.HOST, c15_tcp.CLIENT_PORT0), (c15_tcp.HOST, 9))
            self.gate: asyncio.Event | None = None

        def backend(self):
            return be

        def is_closing(self) -> bool:
            return self.closing

        @property
        def extra_attributes(self):
            return self._extra

        async def aclose(self) -> None:
            self.aclose_calls += 1
            first = not self.closing
            self.closing = True
            try:
                if first:
                    for _ in range(close_steps):
                        await asyncio.sleep(0)
            finally:
                self.closed = True
            if first and close_error is not None:
                raise close_error

        async def recv(self) -> bytes:
            await asyncio.get_running_loop().create_future()
            raise AssertionError

        async def send(self, data) -> None:
            if self.closing:
                raise OSError(9, "closed")
            if self.gate is not None:
                await self.gate.wait()     # writer flow control: the socket's send buffer is full
            await asyncio.sleep(0)

    return _T()


async def setup_udpclient(p: dict) -> Setup:
    """AsyncUDPNetworkClient over an in-memory datagram transport (public `backend=` argument); `busy`: a send_packet() of
    another task is parked in the transport's send() and holds the client's send lock while the close runs"""
    from easynetwork.clients.async_udp import AsyncUDPNetworkClient
    from easynetwork.protocol import DatagramProtocol
    from easynetwork.serializers.line import StringLineSerializer
    from vlib import c15_tcp

    s = Setup()
    ip = p.get("inner") or {}
    c15_tcp._quiet()

    class _Be(c15_tcp.MemBackend):
        async def create_udp_endpoint(self, remote_host, remote_port, *, local_address=None, family=0):
            await self.coro_yield()
            return t

    be = _Be()
    t = _mem_dgram(be, ip.get("steps", 0), err_of(ip))
    client = AsyncUDPNetworkClient((c15_tcp.HOST, 9), DatagramProtocol(StringLineSerializer("LF", encoding="ascii")), backend=be)
    await client.wait_connected()
    s.inners = {"t": t}
    s.outer = client

    async def scoped_op(inj) -> None:
        with be.open_cancel_scope() as scope:
            inj.scope = scope
            await client.aclose()

    s.scoped_op = scoped_op  # type: ignore[attr-defined]
    if p.get("busy"):
        gate = t.gate = asyncio.Event()

        async def sender():
            with contextlib.suppress(Exception):
                await client.send_packet("x")

        s.bg.append(asyncio.ensure_future(sender()))
        for _ in range(4):
            await asyncio.sleep(0)
        asyncio.get_running_loop().call_later(10.0, gate.set)

        async def release():
            await asyncio.sleep(20.0)

        s.after_first = release
    return s


async def setup_sockadapter(p: dict) -> Setup:
    """the real AsyncioTransportStreamSocketAdapter (backend.wrap_stream_socket) over a socketpair: `aclose()` =
    transport.close() + wait for connection_lost.  "closed" = the asyncio transport is closing (close requested)."""
    import socket

    from easynetwork.lowlevel.api_async.backend._asyncio.backend import AsyncIOBackend

    s = Setup()
    a, b = socket.socketpair()
    tr = await AsyncIOBackend().wrap_stream_socket(a)
    aio = getattr(tr, "_AsyncioTransportStreamSocketAdapter__transport")

    class Flag:
        @property
        def closed(self) -> bool:
            return bool(aio.is_closing())

    peer = p.get("peer", "open")
    if peer == "closed":
        b.close()
    elif peer == "data":
        b.send(b"unread\n")
    for _ in range(3):
        await asyncio.sleep(0)
    s.inners = {"t": Flag()}
    s.outer = tr
    if p.get("wrap") == "endpoint":
        s.outer = AsyncStreamEndpoint(tr, sd.make_protocol(LINE, "copy"), max_recv_size=1024)
    s._keep = (a, b)            # closed by the garbage collector / at loop close
    return s


async def setup_tcpconnect(p: dict) -> Setup:
    from vlib import c14_conn

    return await c14_conn.setup(p, Setup())


SETUPS = {"stapled": setup_stapled, "endpoint": setup_endpoint, "tls": setup_tls, "tlswrap": setup_tlswrap,
          "tcpclient": setup_tcpclient, "sockadapter": setup_sockadapter, "tcpconnect": setup_tcpconnect,
          "udpclient": setup_udpclient}


def innermost_lib(chain: tuple[str, ...]) -> str:
    """innermost coroutine of the chain that belongs to EasyNetwork (not to the harness transports / asyncio)"""
    own = ("MemTransport.", "PipeEnd.", "sleep", "__sleep0", "Event.wait", "TLSPeer.", "parked_send", "Lock.", "Condition.", "_mem_dgram.",
           "setup_", "run_case", "run_srvclient", "setup.", "SlowBackend.")
    for q in reversed(chain):
        if not q.startswith(own) and not q.startswith("setup_"):
            return q
    return chain[-1] if chain else "-"


def run_case(case: dict) -> tuple[list[str], dict]:
    logging.getLogger("easynetwork").setLevel(logging.CRITICAL)
    if case["path"] == "srvclient":
        return run_srvclient(case)
    inj = e14.Injector(case.get("step"))
    lines: list[str] = []
    aux: dict[str, Any] = {}
    p = case.get("params") or {}

    async def main() -> None:
        loop = asyncio.get_running_loop()
        s = await SETUPS[case["path"]](p)
        if p.get("via") == "scope" and getattr(s, "scoped_op", None) is not None:
            # the cancellation is requested through a cancel scope around the close call (move_on_after / timeout idiom)
            t = loop.create_task(s.scoped_op(inj))
        else:
            t = loop.create_task(s.op())
        inj.arm(t)
        await asyncio.wait({t})
        if t.cancelled():
            outcome = "cancelled"
        elif t.exception() is not None:
            outcome = kind(t.exception())
        else:
            outcome = "ok"
        if getattr(s, "outcome_fix", None) is not None:
            outcome = s.outcome_fix(outcome)
        flags = {n: int(tr.closed) for n, tr in s.inners.items()}
        closing = int(bool(s.closing()))
        lines.extend(getattr(s, "pre_lines", []))
        lines.append(f"steps {inj.n}")
        if inj.injected_at is not None:
            lines.append("at " + innermost_lib(inj.injected_at))
        lines.append("outcome " + outcome)
        lines.append("inner " + " ".join(f"{n}={v}" for n, v in flags.items()))
        lines.append(f"closing {closing}")
        aux["must_close"] = s.expect_closed_if(outcome)
        if s.after_first is not None:
            await s.after_first()
        lines.append("inner-later " + " ".join(f"{n}={int(tr.closed)}" for n, tr in s.inners.items()))
        if getattr(s, "later_lines", None) is not None:
            lines.extend(s.later_lines())
        # a second close
        t0 = loop.time()
        if not aux["must_close"]:
            # (a wrap() that succeeded: there has been no close yet)
            t2 = loop.create_task(asyncio.sleep(0))
        else:
            t2 = loop.create_task(s.again())
        done, pending = await asyncio.wait({t2}, timeout=100000.0)
        if pending:
            second = "hang"
            t2.cancel()
            with contextlib.suppress(BaseException):
                await t2
        elif t2.cancelled():
            second = "cancelled"
        elif t2.exception() is not None:
            second = kind(t2.exception())
        else:
            second = "ok"
        dt = loop.time() - t0
        lines.append(f"second {second} dt={'0' if dt == 0 else '+'}")
        if case["path"] == "sockadapter" and second == "ok":
            # and a third one (a close that was itself interrupted must not poison the ones after it)
            t3 = loop.create_task(s.again())
            _, p3 = await asyncio.wait({t3}, timeout=100000.0)
            third = "hang" if p3 else ("cancelled" if t3.cancelled() else (kind(t3.exception()) if t3.exception() else "ok"))
            if p3:
                t3.cancel()
            if third != "ok":
                lines[-1] = f"second {third} dt=0 (third close)"
        for b in s.bg:
            b.cancel()
        for b in s.bg:
            with contextlib.suppress(BaseException):
                await b
        peer = getattr(s, "peer", None)
        if peer is not None:
            aux["peer_log"] = list(peer.log)

    out, loop = e14.run_with_injector(main, inj)
    if out[0] == "exc":
        lines.append(f"main-exc {type(out[1]).__name__}: {out[1]}")
    aux["chains"] = inj.chains
    aux["n"] = inj.n
    aux["times"] = inj.times
    aux["err_steps"] = inj.err_steps
    # a suspension inside the SSL retry loop during which virtual time passed ended by the scope's timeout
    aux["timeout_steps"] = [j for j in range(1, len(inj.chains) + 1)
                            if j < len(inj.times) and inj.times[j] > inj.times[j - 1]
                            and any(q.endswith("_retry_ssl_method") for q in inj.chains[j - 1])
                            and j != case.get("step")]
    if (case["path"] == "tls" and p.get("sc", True) and float(p.get("shutdown_timeout", 30)) == 0 and inj.chains
            and case.get("step") != 1 and 1 not in aux["timeout_steps"]
            and any(q.endswith(("_retry_ssl_method", "__flush_pending_writes")) for q in inj.chains[0])):
        # shutdown_timeout=0: the scope is expired on entry, its cancellation is delivered at the FIRST suspension inside it
        # (no virtual time passes)
        aux["timeout_steps"].insert(0, 1)
    return lines, aux


# ------------------------------------------------------------------------------------------------------------
# server-side client
# ------------------------------------------------------------------------------------------------------------

def run_srvclient(case: dict) -> tuple[list[str], dict]:
    from vlib import c15_tcp
    from easynetwork.servers.async_tcp import AsyncTCPNetworkServer
    from easynetwork.servers.handlers import AsyncStreamRequestHandler

    p = case.get("params") or {}
    ip = p.get("inner") or {}
    inj = e14.Injector(case.get("step"))
    lines: list[str] = []
    aux: dict[str, Any] = {}
    state: dict[str, Any] = {"outcome": "not-reached", "client": None, "n_end": None}

    class H(AsyncStreamRequestHandler):
        async def handle(self, client):
            yield
            state["client"] = client
            if p.get("busy"):
                async def sender():
                    with contextlib.suppress(Exception):
                        await client.send_packet("x")
                state["sender"] = asyncio.ensure_future(sender())
                for _ in range(4):
                    await asyncio.sleep(0)
            if p.get("via") == "scope":
                # only the close call is cancelled (a timeout / move-on scope of the handler around client.aclose());
                # the handler - hence the connection task and its own clean-up - lives on afterwards
                scope = client.backend().open_cancel_scope()
                try:
                    with scope:
                        inj.scope = scope
                        inj.arm(asyncio.current_task())
                        await client.aclose()
                    state["outcome"] = "cancelled" if scope.cancelled_caught() else "ok"
                except asyncio.CancelledError:
                    state["outcome"] = "cancelled"
                    raise
                except BaseException as e:  # noqa: BLE001
                    state["outcome"] = kind(e)
                finally:
                    inj.target = None
                    state["n_end"] = inj.n
                    state["flag_at_end"] = int(tr.closed)
                for _ in range(8):
                    await asyncio.sleep(0)
                state["alive_flag"] = int(tr.closed)
                await asyncio.sleep(5.0)
                return
            inj.arm(asyncio.current_task())
            try:
                await client.aclose()
            except asyncio.CancelledError:
                state["outcome"] = "cancelled"
                state["n_end"] = inj.n
                state["flag_at_end"] = int(tr.closed)
                raise
            except BaseException as e:  # noqa: BLE001
                state["outcome"] = kind(e)
                state["n_end"] = inj.n
                state["flag_at_end"] = int(tr.closed)
                raise
            else:
                state["outcome"] = "ok"
                state["n_end"] = inj.n
                state["flag_at_end"] = int(tr.closed)

    tr_box: dict[str, Any] = {}

    async def main() -> None:
        loop = asyncio.get_running_loop()
        be = c15_tcp.MemBackend()
        t = be.transport([(0.0, b"go\n")], "hang", close_steps=ip.get("steps", 0), close_error=err_of(ip))
        tr_box["t"] = t
        if p.get("busy"):
            gate = asyncio.Event()
            orig = t.send_all

            async def parked_send(data):
                await gate.wait()
                return await orig(data)

            t.send_all = parked_send  # type: ignore[method-assign]
            state["gate"] = gate
            loop.call_later(10.0, gate.set)
        listener = be.listen([t])
        server = AsyncTCPNetworkServer("127.0.0.1", 0, sd.make_protocol(LINE, "copy"), H(), backend=be,
                                       log_client_connection=False)
        st = loop.create_task(server.serve_forever())
        while listener.all_done is None:
            await asyncio.sleep(0)
        # the client task ends by itself once the handler is done / cancelled; release a parked sender afterwards
        done, pending = await asyncio.wait({asyncio.ensure_future(listener.all_done.wait())}, timeout=100000.0)
        lines.append(f"steps {state['n_end'] if state['n_end'] is not None else inj.n}")
        if inj.injected_at is not None:
            lines.append("at " + innermost_lib(inj.injected_at))
        lines.append("outcome " + state["outcome"])
        lines.append(f"inner t={int(t.closed)}")
        if "alive_flag" in state:
            lines.append(f"inner-while-alive t={state['alive_flag']}")
        cl = state["client"]
        lines.append(f"closing {int(cl.is_closing()) if cl is not None else -1}")
        if pending:
            lines.append("client-task hang")
        if "gate" in state:
            await asyncio.sleep(20.0)
        lines.append(f"inner-later t={int(t.closed)}")
        t0 = loop.time()
        if cl is not None:
            t2 = loop.create_task(cl.aclose())
            d2, p2 = await asyncio.wait({t2}, timeout=100000.0)
            if p2:
                second = "hang"
                t2.cancel()
            elif t2.cancelled():
                second = "cancelled"
            elif t2.exception() is not None:
                second = kind(t2.exception())
            else:
                second = "ok"
        else:
            second = "none"
        dt = loop.time() - t0
        lines.append(f"second {second} dt={'0' if dt == 0 else '+'}")
        await server.shutdown()
        await server.server_close()
        with contextlib.suppress(BaseException):
            await st

    tr = None

    class _T:
        @property
        def closed(self):
            return tr_box["t"].closed

    tr = _T()
    out, loop = e14.run_with_injector(main, inj)
    if out[0] == "exc":
        lines.append(f"main-exc {type(out[1]).__name__}: {out[1]}")
    aux["chains"] = inj.chains
    aux["n"] = inj.n
    aux["must_close"] = True
    return lines, aux
