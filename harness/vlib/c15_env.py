"""
Deterministic asyncio environment shared by C15 and C14:

  VLoop            asyncio.SelectorEventLoop with a virtual clock: `time()` is a counter that jumps to the next
                   timer when nothing else is runnable.  No wall-clock, no real I/O.
  MemTransport     in-memory AsyncStreamTransport (EasyNetwork's own public ABC): scripted incoming chunks with
                   absolute arrival times, EOF / error at the end, records what is written and every aclose() call
  MemListener      in-memory AsyncListener serving a fixed list of MemTransports
  run(coro_fn)     run one coroutine to completion on a fresh VLoop, return (result, loop)
"""
from __future__ import annotations

import asyncio
import heapq
from typing import Any, Callable

from vlib import core  # noqa: F401  (sys.path for /repo/src)

from easynetwork.lowlevel.api_async.backend._asyncio.backend import AsyncIOBackend
from easynetwork.lowlevel.api_async.transports import abc as tr_abc


class Stuck(Exception):
    """the loop has nothing left to run but the main coroutine is not done"""


class VLoop(asyncio.SelectorEventLoop):
    def __init__(self) -> None:
        super().__init__()
        self._vtime = 0.0
        self.turns = 0
        self.max_turns = 200000

    def time(self) -> float:
        return self._vtime

    def _run_once(self) -> None:
        self.turns += 1
        if self.turns > self.max_turns:
            raise Stuck("too many loop turns")
        if not self._ready and self._scheduled:
            # drop cancelled timers at the head, then jump
            while self._scheduled and self._scheduled[0]._cancelled:
                h = heapq.heappop(self._scheduled)
                h._scheduled = False
            if self._scheduled:
                when = self._scheduled[0]._when
                if when > self._vtime:
                    self._vtime = when
        elif not self._ready and not self._scheduled:
            raise Stuck("deadlock: nothing scheduled")
        super()._run_once()


def run(coro_fn: Callable[[], Any], *, max_turns: int = 200000):
    """run `coro_fn()` on a fresh virtual loop; returns (outcome, loop) where outcome = ("ok", value) | ("exc", e)"""
    loop = VLoop()
    loop.max_turns = max_turns
    asyncio.set_event_loop(loop)
    try:
        from sniffio import thread_local
        old, thread_local.name = thread_local.name, "asyncio"
    except Exception:  # pragma: no cover
        thread_local = None
        old = None
    try:
        try:
            val = loop.run_until_complete(coro_fn())
            out = ("ok", val)
        except Stuck:
            raise
        except BaseException as e:  # noqa: BLE001
            out = ("exc", e)
        return out, loop
    finally:
        if thread_local is not None:
            thread_local.name = old
        try:
            # cancel leftovers quietly
            pending = [t for t in asyncio.all_tasks(loop) if not t.done()]
            for t in pending:
                t.cancel()
            if pending:
                try:
                    loop.run_until_complete(asyncio.gather(*pending, return_exceptions=True))
                except BaseException:  # noqa: BLE001
                    pass
            try:
                loop.run_until_complete(loop.shutdown_asyncgens())
            except BaseException:  # noqa: BLE001
                pass
        finally:
            asyncio.set_event_loop(None)
            loop.close()


_BACKEND: AsyncIOBackend | None = None


def backend() -> AsyncIOBackend:
    global _BACKEND
    if _BACKEND is None:
        _BACKEND = AsyncIOBackend()
    return _BACKEND


class MemTransport(tr_abc.AsyncStreamTransport):
    """
    incoming: list of (t, data) — `data` becomes readable at virtual time `t` (absolute).
    end: what a read finds after the last chunk:  "eof" | "reset" (ConnectionResetError) | "oserror" | "hang"
    close_steps: number of loop turns the graceful aclose() takes after having marked the transport closing
    close_error: exception raised by aclose() (after marking closing, after the wait)
    """

    def __init__(self, incoming: list[tuple[float, bytes]], end: str = "eof", end_time: float | None = None, *,
                 close_steps: int = 0, close_delay: float = 0.0, close_error: BaseException | None = None,
                 extra: dict | None = None, be: AsyncIOBackend | None = None) -> None:
        super().__init__()
        self._be = be or backend()
        self.incoming = list(incoming)
        self.end = end
        self.end_time = end_time if end_time is not None else (incoming[-1][0] if incoming else 0.0)
        self.pos = 0
        self.off = 0            # bytes of incoming[pos] already delivered
        self.written: list[bytes] = []
        self.closing = False
        self.closed = False     # the resource is released
        self.aclose_calls = 0
        self.aclose_forced = 0  # aclose() calls that were cancelled inside (forceful)
        self.close_steps = close_steps
        self.close_delay = close_delay
        self.close_error = close_error
        self.eof_sent = False
        self._extra = extra or {}
        self.recv_log: list[tuple[float, int]] = []   # (time, nbytes) of each completed read
        self.recv_while_closed = 0
        self.send_error: BaseException | None = None

    # ---- AsyncBaseTransport
    def backend(self):
        return self._be

    def is_closing(self) -> bool:
        return self.closing

    async def aclose(self) -> None:
        self.aclose_calls += 1
        first = not self.closing
        # contract: closing is marked before the first suspension
        self.closing = True
        try:
            if first:
                for _ in range(self.close_steps):
                    await asyncio.sleep(0)
                if self.close_delay:
                    await asyncio.sleep(self.close_delay)
            else:
                await asyncio.sleep(0)
        except asyncio.CancelledError:
            self.aclose_forced += 1
            raise
        finally:
            # the resource is released however aclose() ends (like transport.close() / abort())
            self.closed = True
        if first and self.close_error is not None:
            raise self.close_error

    @property
    def extra_attributes(self):
        return self._extra

    # ---- reading
    async def _wait_readable(self) -> bytes | None:
        """returns the next available bytes (without consuming), or None at end"""
        loop = asyncio.get_running_loop()
        if self.closing:
            self.recv_while_closed += 1
            raise OSError(9, "transport closed")
        if self.pos < len(self.incoming):
            t, data = self.incoming[self.pos]
            if t > loop.time():
                await asyncio.sleep(t - loop.time())
            else:
                await asyncio.sleep(0)
            return data[self.off:]
        if self.end_time > loop.time():
            await asyncio.sleep(self.end_time - loop.time())
        else:
            await asyncio.sleep(0)
        return None

    def _consume(self, n: int) -> None:
        loop = asyncio.get_running_loop()
        self.recv_log.append((loop.time(), n))
        t, data = self.incoming[self.pos]
        self.off += n
        if self.off >= len(data):
            self.pos += 1
            self.off = 0

    async def _at_end(self):
        if self.end == "eof":
            loop = asyncio.get_running_loop()
            self.recv_log.append((loop.time(), 0))
            return
        if self.end == "reset":
            raise ConnectionResetError(104, "reset by peer")
        if self.end == "oserror":
            raise OSError(5, "I/O error")
        if self.end == "hang":
            await asyncio.get_running_loop().create_future()
        raise AssertionError(self.end)

    async def recv(self, bufsize: int) -> bytes:
        while True:
            avail = await self._wait_readable()
            if avail is None:
                await self._at_end()
                return b""
            if not avail:   # empty chunk in the script: skip silently (an empty read would mean EOF)
                self._consume(0)
                continue
            out = bytes(avail[:bufsize])
            self._consume(len(out))
            return out

    async def recv_into(self, buffer) -> int:
        with memoryview(buffer) as mv:
            mv = mv.cast("B") if mv.itemsize != 1 else mv
            while True:
                avail = await self._wait_readable()
                if avail is None:
                    await self._at_end()
                    return 0
                if not avail:
                    self._consume(0)
                    continue
                n = min(len(avail), mv.nbytes)
                mv[:n] = avail[:n]
                self._consume(n)
                return n

    # ---- writing
    async def send_all(self, data) -> None:
        if self.closing:
            raise OSError(9, "transport closed")
        if self.send_error is not None:
            raise self.send_error
        self.written.append(bytes(data))
        await asyncio.sleep(0)

    async def send_eof(self) -> None:
        self.eof_sent = True
        await asyncio.sleep(0)


class MemListener(tr_abc.AsyncListener[MemTransport]):
    """serves the given transports (each in its own task of the task group), then sleeps forever"""

    def __init__(self, transports: list[MemTransport], extra: dict | None = None, be: AsyncIOBackend | None = None) -> None:
        super().__init__()
        self._be = be or backend()
        self.transports = transports
        self.closing = False
        self.task_results: list[Any] = []
        self._extra = extra or {}
        self.all_done: asyncio.Event | None = None

    def backend(self):
        return self._be

    def is_closing(self) -> bool:
        return self.closing

    async def aclose(self) -> None:
        self.closing = True
        await asyncio.sleep(0)

    @property
    def extra_attributes(self):
        return self._extra

    async def serve(self, handler, task_group=None):
        self.all_done = asyncio.Event()
        remaining = len(self.transports)

        async def one(tr: MemTransport) -> None:
            nonlocal remaining
            try:
                await handler(tr)
                self.task_results.append(("ok", None))
            except asyncio.CancelledError:
                self.task_results.append(("cancelled", None))
                raise
            except BaseException as e:  # noqa: BLE001
                # a listener logs and swallows what a client task raises (as the asyncio listener does)
                self.task_results.append(("exc", e))
            finally:
                remaining -= 1
                if remaining == 0:
                    self.all_done.set()

        async with contextlib_taskgroup(self._be, task_group) as tg:
            for tr in self.transports:
                tg.start_soon(one, tr)
            if not self.transports:
                self.all_done.set()
            await self._be.sleep_forever()
        raise AssertionError("unreachable")


class contextlib_taskgroup:
    def __init__(self, be, tg):
        self.be, self.tg, self.own = be, tg, None

    async def __aenter__(self):
        if self.tg is not None:
            return self.tg
        self.own = self.be.create_task_group()
        return await self.own.__aenter__()

    async def __aexit__(self, *a):
        if self.own is not None:
            return await self.own.__aexit__(*a)
        return None
