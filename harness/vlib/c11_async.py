"""
Oracle-only C11 cases for the asynchronous iterator (easynetwork.clients._iter.AsyncClientRecvIterator) on the real
asyncio backend, under a virtual-time event loop.

case = {"kind": "aiter", "T": ticks | None, "calls": [[gap, delay], …]}
   gap    application time before the `anext()` call (outside the iterator — must not be deducted)
   delay  virtual time the client's recv_packet() needs for this packet (0 = already available: returns without suspending)

The client is a minimal AbstractAsyncNetworkClient whose recv_packet() sleeps `delay` (virtual) ticks; the iterator,
`backend.timeout()` (cancel scope + loop timer) and ElapsedTime are the real code.  `time.perf_counter` is the loop's
virtual clock while the case runs.

Lines:  pkt <i> <ticks spent in anext>  |  stop <ticks spent in anext>  |  exc <Name>
"""
from __future__ import annotations

import asyncio
import time
from typing import Any


class VLoop(asyncio.SelectorEventLoop):
    """virtual time: when nothing is ready the clock jumps to the next timer"""

    def __init__(self) -> None:
        super().__init__()
        self._vt = 0.0

    def time(self) -> float:
        return self._vt

    def _run_once(self) -> None:  # type: ignore[override]
        import heapq

        sched = self._scheduled  # type: ignore[attr-defined]
        while sched and sched[0]._cancelled:   # as BaseEventLoop._run_once does, but BEFORE looking at the head
            self._timer_cancelled_count -= 1  # type: ignore[attr-defined]
            handle = heapq.heappop(sched)
            handle._scheduled = False
        if not self._ready and self._scheduled:  # type: ignore[attr-defined]
            when = self._scheduled[0]._when  # type: ignore[attr-defined]
            if when > self._vt:
                self._vt = when
        super()._run_once()  # type: ignore[misc]


def run_real(case: dict) -> list[str]:
    if case.get("kind") == "aiterbuf":
        return run_buffered(case)
    from easynetwork.clients.abc import AbstractAsyncNetworkClient
    from easynetwork.lowlevel.api_async.backend._asyncio.backend import AsyncIOBackend

    loop = VLoop()
    lines: list[str] = []
    backend = AsyncIOBackend()
    calls = case["calls"]

    class Client(AbstractAsyncNetworkClient):
        def __init__(self) -> None:
            self.i = 0

        def is_connected(self) -> bool:
            return True

        async def wait_connected(self) -> None:
            return None

        def is_closing(self) -> bool:
            return False

        async def aclose(self) -> None:
            return None

        async def send_packet(self, packet: Any) -> None:
            return None

        async def recv_packet(self) -> Any:
            d = calls[self.i][1]
            if d > 0:
                await asyncio.sleep(d)
            i = self.i
            self.i += 1
            return i

        def get_local_address(self):
            raise NotImplementedError

        def get_remote_address(self):
            raise NotImplementedError

        def backend(self):
            return backend

    async def main() -> None:
        client = Client()
        T = case["T"]
        it = client.iter_received_packets(timeout=None if T is None else float(T))
        for gap, _delay in calls:
            if client.i >= len(calls):
                break
            if gap:
                await asyncio.sleep(gap)
            t0 = loop.time()
            try:
                pkt = await anext(it)
            except StopAsyncIteration:
                lines.append(f"stop {int(loop.time() - t0)}")
                break
            except Exception as e:  # noqa: BLE001
                lines.append(f"exc {type(e).__name__}")
                break
            lines.append(f"pkt {pkt} {int(loop.time() - t0)}")

    old = time.perf_counter
    time.perf_counter = loop.time  # type: ignore[assignment]
    try:
        asyncio.set_event_loop(loop)
        loop.run_until_complete(main())
    finally:
        time.perf_counter = old  # type: ignore[assignment]
        asyncio.set_event_loop(None)
        loop.close()
    return lines


def oracle(case: dict, real: list[str]) -> str | None:
    if case.get("kind") == "aiterbuf":
        return oracle_buffered(case, real)
    T = case["T"]
    rem = T
    spent = 0
    for k, ln in enumerate(real):
        p = ln.split()
        if p[0] == "exc":
            return f"unexpected exception {ln}"
        d = case["calls"][k][1]
        took = int(p[-1])
        spent += took
        if T is not None and spent > T:
            return f"iterator with timeout {T} waited {spent} ticks in total"
        if p[0] == "pkt":
            if took != d:
                return f"packet {k} needed {d} ticks but anext() took {took}"
            if rem is not None:
                if d > rem:
                    return f"packet {k} returned after {d} ticks although only {rem} of the budget were left"
                rem -= d
        else:   # stop
            if rem is None:
                return "iteration stopped by a timeout although there is no timeout"
            if d < rem or d == 0:
                # d == 0: the packet is obtainable without suspending at all: also a zero / exhausted budget must hand it out
                return f"iteration stopped although packet {k} would have arrived after {d} <= remaining budget {rem}"
            if took != rem:
                return f"TimeoutError after {took} ticks with {rem} of the budget left"
            if rem == 0 and took != 0:
                return "zero budget but the call waited"
    if not real and case["calls"]:
        return "no observation"
    return None


def generate(rng, tier: str, boost: int):
    n = (600 if tier == "quick" else 6000) * min(boost, 2)
    for _ in range(n):
        T = rng.choice([None, 0, 0, 1, 2, 3, 5, 8, 13])
        calls = [[rng.choice([0, 0, 1, 4, 9]), rng.choice([0, 0, 1, 1, 2, 3, 5])] for _ in range(rng.randint(1, 6))]
        yield {"kind": "aiter", "T": T, "calls": calls}
    yield from generate_buffered(rng, tier, boost)


# ----------------------------------------------------------------------------------------------------------------
# kind "aiterbuf": the asynchronous iterator over a client that already HOLDS packets (zero / default / exhausted budget)
# ----------------------------------------------------------------------------------------------------------------
"""
case = {"kind": "aiterbuf", "client": "tcp" | "mem", "path": "copy" | "buffered", "ops": [...]}
   client "tcp"  the real AsyncTCPNetworkClient (asyncio backend) on a loopback TCP connection, max_recv_size 16384
          "mem"  a minimal in-memory AbstractAsyncNetworkClient subclass over a queue (recv_packet() returns a queued packet
                 without suspending) - the documented way to write one's own client
   ops    ["send", hex]        the peer writes these bytes NOW (one segment; the op waits until the event loop has taken them
                               out of the kernel: they sit in the adapter's protocol buffer / the queue)
          ["later", d, hex]    the peer writes these bytes d virtual ticks from now
          ["recv"]             await client.recv_packet()              (watchdog: 1000 virtual ticks)
          ["iter", T]          [p async for p in client.iter_received_packets(timeout=T)]; T = ticks | None | "default"
                               (no argument: documented default 0)     (watchdog: 1000 virtual ticks)
   packets are text lines; a trailing digit is the PROCESSING time (virtual ticks) the packet costs when it is deserialised
   (tcp: in serializer.deserialize(); mem: in recv_packet(), without suspending) - that is how a budget runs down to exactly 0
   without a timer tie.

Virtual time (VLoopIO): the clock jumps to the next timer only when neither a callback nor a DESCRIPTOR is ready.

Lines:  op <i> | pkt <text> <ticks spent in the call> | stop <ticks> | cut | exc <Name>

Oracle (reference, from the property): what is obtainable WITHOUT waiting must be handed out whatever the budget (also 0 /
exhausted): a complete packet already in the client's buffer (taken out of the transport in the same read as a delivered
one; mem: queued) is never answered by a time-out.  A packet that needs one suspension but no time (bytes in the adapter's
protocol buffer) must be handed out when budget is left, may be either way with a zero budget.  A packet arriving after w
ticks: w < remaining -> returned after w (+ processing); w > remaining -> stop after exactly `remaining`; w == remaining: tie.
Everything in order, exactly once; total waiting of one iterator <= T.
"""


class VLoopIO(VLoop):
    """as VLoop, but I/O first: virtual time only moves when no descriptor is ready either"""

    def _run_once(self) -> None:  # type: ignore[override]
        if not self._ready and self._scheduled and self._selector.select(0):  # type: ignore[attr-defined]
            asyncio.SelectorEventLoop._run_once(self)  # type: ignore[attr-defined]
            return
        super()._run_once()


def _proc_of(text: str) -> int:
    return int(text[-1]) if text and text[-1].isdigit() else 0


_WATCHDOG = 1000


def run_buffered(case: dict) -> list[str]:
    import collections
    import fcntl
    import os
    import select
    import socket
    import struct
    import termios

    from easynetwork.clients.abc import AbstractAsyncNetworkClient
    from easynetwork.clients.async_tcp import AsyncTCPNetworkClient
    from easynetwork.lowlevel.api_async.backend._asyncio.backend import AsyncIOBackend
    from easynetwork.protocol import BufferedStreamProtocol, StreamProtocol
    from easynetwork.serializers.base_stream import AutoSeparatedPacketSerializer

    loop = VLoopIO()
    lines: list[str] = []
    backend = AsyncIOBackend()

    class ProcLine(AutoSeparatedPacketSerializer):
        """text lines; deserialising a packet whose text ends with a digit d costs d virtual ticks (no suspension)"""

        def __init__(self) -> None:
            super().__init__(separator=b"\n", limit=65536)

        def serialize(self, packet):  # type: ignore[override]
            return str(packet).encode()

        def deserialize(self, data):  # type: ignore[override]
            pkt = bytes(data).decode()
            loop._vt += _proc_of(pkt)
            return pkt

    class QueueClient(AbstractAsyncNetworkClient):
        def __init__(self) -> None:
            self.queue: collections.deque[str] = collections.deque()
            self.buf = b""
            self.available = asyncio.Event()

        def feed(self, data: bytes) -> None:
            self.buf += data
            *done, self.buf = self.buf.split(b"\n")
            self.queue.extend(d.decode() for d in done)
            if self.queue:
                self.available.set()

        def is_connected(self) -> bool:
            return True

        async def wait_connected(self) -> None:
            return None

        def is_closing(self) -> bool:
            return False

        async def aclose(self) -> None:
            return None

        async def send_packet(self, packet: Any) -> None:
            return None

        async def recv_packet(self) -> Any:
            while not self.queue:
                self.available.clear()
                await self.available.wait()
            pkt = self.queue.popleft()
            loop._vt += _proc_of(pkt)
            return pkt

        def get_local_address(self):
            raise NotImplementedError

        def get_remote_address(self):
            raise NotImplementedError

        def backend(self):
            return backend

    tcp = case["client"] == "tcp"
    peer = None
    dupfd = -1
    closers: list = []

    def fionread() -> int:
        return struct.unpack("i", fcntl.ioctl(dupfd, termios.FIONREAD, b"\0\0\0\0"))[0]

    async def main() -> None:
        nonlocal peer, dupfd
        if tcp:
            lst = socket.create_server(("127.0.0.1", 0))
            sock = socket.create_connection(lst.getsockname())
            peer, _ = lst.accept()
            lst.close()
            closers.append(peer.close)
            peer.setsockopt(socket.IPPROTO_TCP, socket.TCP_NODELAY, 1)
            dupfd = os.dup(sock.fileno())
            closers.append(lambda: os.close(dupfd))
            ser = ProcLine()
            proto = BufferedStreamProtocol(ser) if case.get("path") == "buffered" else StreamProtocol(ser)
            client: Any = AsyncTCPNetworkClient(sock, proto, backend, max_recv_size=16384)
            await client.wait_connected()
        else:
            client = QueueClient()

        def arrive(data: bytes) -> None:
            if not tcp:
                client.feed(data)
                return
            peer.sendall(data)
            p = select.poll()
            p.register(dupfd, select.POLLIN)
            if not p.poll(5000):
                lines.append("harness-arrival-not-seen")

        pending: list[tuple[float, int, bytes]] = []
        pending_seq: list[int] = []

        def arrive_due() -> None:
            while pending and pending[0][0] <= loop.time():
                arrive(pending.pop(0)[2])

        try:
            for i, op in enumerate(case["ops"]):
                lines.append(f"op {i}")
                if op[0] == "send":
                    arrive(bytes.fromhex(op[1]))
                    if tcp:
                        for _ in range(200):
                            if fionread() == 0:
                                break
                            await asyncio.sleep(0)
                        else:
                            lines.append("harness-bytes-left-in-kernel")
                elif op[0] == "later":
                    # timers with the same deadline fire in heap order, not in scheduling order: the harness keeps its own
                    # queue so that segments due at the same tick are written in (time, scheduling) order
                    pending.append((loop.time() + op[1], len(pending_seq), bytes.fromhex(op[2])))
                    pending_seq.append(0)
                    pending.sort(key=lambda e: e[:2])
                    loop.call_later(op[1], arrive_due)
                elif op[0] == "recv":
                    t0 = loop.time()
                    try:
                        pkt = await asyncio.wait_for(client.recv_packet(), _WATCHDOG)
                        lines.append(f"pkt {pkt} {int(loop.time() - t0)}")
                    except TimeoutError:
                        lines.append("cut")
                    except Exception as e:  # noqa: BLE001
                        lines.append(f"exc {type(e).__name__}")
                elif op[0] == "iter":
                    T = op[1]

                    async def drain() -> None:
                        if T == "default":
                            it = client.iter_received_packets()
                        else:
                            it = client.iter_received_packets(timeout=None if T is None else float(T))
                        while True:
                            t0 = loop.time()
                            try:
                                pkt = await anext(it)
                            except StopAsyncIteration:
                                lines.append(f"stop {int(loop.time() - t0)}")
                                return
                            lines.append(f"pkt {pkt} {int(loop.time() - t0)}")

                    try:
                        await asyncio.wait_for(drain(), _WATCHDOG)
                    except TimeoutError:
                        lines.append("cut")
                    except Exception as e:  # noqa: BLE001
                        lines.append(f"exc {type(e).__name__}")
                else:
                    raise AssertionError(op)
        finally:
            if tcp:
                await client.aclose()

    old = time.perf_counter
    time.perf_counter = loop.time  # type: ignore[assignment]
    try:
        asyncio.set_event_loop(loop)
        loop.run_until_complete(main())
    finally:
        time.perf_counter = old  # type: ignore[assignment]
        asyncio.set_event_loop(None)
        for c in closers:
            try:
                c()
            except OSError:
                pass
        loop.close()
    return lines


def oracle_buffered(case: dict, real: list[str]) -> str | None:
    for ln in real:
        if ln.startswith("harness-"):
            return f"harness problem: {ln}"
        if ln.startswith("exc "):
            return f"unexpected exception {ln}"
    tcp = case["client"] == "tcp"
    per: dict[int, list[str]] = {}
    cur = -1
    for ln in real:
        if ln.startswith("op "):
            cur = int(ln.split()[1])
            per[cur] = []
        elif cur >= 0:
            per[cur].append(ln)
    inf = float("inf")

    class Ref:
        """reference state: where the bytes sent so far are, as far as the property is concerned"""
        now = 0
        cons = b""                             # surely in the client's own buffer: obtainable without suspending
        near: list[bytes] = []                 # arrived segments that may need ONE suspension (no time) to be obtained
        future: list[tuple[int, bytes]] = []   # (arrival time, segment), in sending order

    st = Ref()
    st.near, st.future = [], []

    def first_pkt(b: bytes) -> str | None:
        return b.split(b"\n", 1)[0].decode() if b"\n" in b else None

    def due() -> None:
        while st.future and st.future[0][0] <= st.now:
            st.near.append(st.future.pop(0)[1])

    def expect(rem: float) -> tuple:
        """('pkt', text, ticks the call takes, 'must' | 'either', class)  or  ('stop',)
        class A: already in the client's buffer; B: arrived, needs a suspension but no time; C: arrives after a wait"""
        p = first_pkt(st.cons)
        if p is not None:
            return ("pkt", p, _proc_of(p), "must", "A")
        due()
        acc = st.cons + b"".join(st.near)
        p = first_pkt(acc)
        if p is not None:
            return ("pkt", p, _proc_of(p), "must" if rem > 0 else "either", "B")
        for ta, b in st.future:
            acc += b
            p = first_pkt(acc)
            if p is not None:
                w = ta - st.now
                if w < rem:
                    return ("pkt", p, w + _proc_of(p), "must", "C")
                if w == rem:
                    return ("pkt", p, w + _proc_of(p), "either", "C")
                break
        return ("stop",)

    def take(p: str, cls: str, took: int) -> None:
        """packet `p` has been handed out by a call that took `took` ticks"""
        if cls == "C":
            st.now += took - _proc_of(p)       # the wait
            due()
        if cls != "A":
            # a read took place: it took at least every (atomic) segment up to the one that completes the packet; mem: all
            while st.near and (not tcp or b"\n" not in st.cons):
                st.cons += st.near.pop(0)
        st.cons = st.cons.split(b"\n", 1)[1]
        st.now += _proc_of(p) if cls == "C" else took

    for i, op in enumerate(case["ops"]):
        obs = per.get(i)
        if obs is None:
            return f"op {i} was never run"
        if op[0] == "send":
            b = bytes.fromhex(op[1])
            if tcp:
                st.near.append(b)
            else:
                st.cons += b"".join(st.near) + b
                st.near = []
        elif op[0] == "later":
            st.future.append((st.now + op[1], bytes.fromhex(op[2])))
            st.future.sort(key=lambda e: e[0])
        elif op[0] == "recv":
            e = expect(_WATCHDOG)
            if len(obs) != 1:
                return f"op {i} recv: observed {obs}"
            if e[0] == "stop":
                if obs[0] != "cut":
                    return f"op {i}: recv_packet() -> {obs[0]!r} although no complete packet can have arrived"
                st.now += _WATCHDOG
                due()
                continue
            if obs[0] == "cut":
                return f"op {i}: recv_packet() did not return packet {e[1]!r} within {_WATCHDOG} ticks"
            _, text, took = obs[0].split(" ")
            if text != e[1]:
                return f"op {i}: recv_packet() returned {text!r}, the next packet of the stream is {e[1]!r}"
            if int(took) != e[2]:
                return f"op {i}: recv_packet() -> {text!r} took {took} ticks, expected {e[2]}"
            take(text, e[4], int(took))
        elif op[0] == "iter":
            T = 0 if op[1] == "default" else op[1]
            rem: float = inf if T is None else T
            waited = 0
            ended = False
            for ln in obs:
                if ended:
                    return f"op {i}: output after the end of the iteration: {ln}"
                e = expect(rem)
                if ln == "cut":
                    if e[0] == "stop" and rem == inf:
                        st.now += _WATCHDOG
                        due()
                        ended = True
                        continue
                    return f"op {i}: the iteration neither yielded a packet nor stopped within {_WATCHDOG} ticks (timeout={op[1]})"
                parts = ln.split(" ")
                if parts[0] == "pkt":
                    text, took = parts[1], int(parts[2])
                    if e[0] == "stop":
                        return (f"op {i}: iter_received_packets(timeout={op[1]}) yielded {text!r} after {took} ticks although "
                                f"only {rem} ticks of the budget were left and nothing was obtainable within them")
                    if text != e[1]:
                        return f"op {i}: yielded {text!r}, the next packet of the stream is {e[1]!r}"
                    if took != e[2]:
                        return f"op {i}: packet {text!r} took {took} ticks, expected {e[2]}"
                    waited += took - _proc_of(text)
                    take(text, e[4], took)
                    rem = max(0, rem - took)
                else:   # stop
                    took = int(parts[1])
                    if e[0] == "pkt" and e[3] == "must":
                        where = {"A": "is already in the client's buffer (obtainable without waiting, without even suspending)",
                                 "B": "has already arrived (obtainable without waiting)",
                                 "C": f"arrives after {e[2] - _proc_of(e[1])} ticks"}[e[4]]
                        return (f"op {i}: iter_received_packets(timeout={op[1]}) stopped (TimeoutError) with {rem} ticks of its "
                                f"budget left although packet {e[1]!r} {where}: the operation could complete within the budget")
                    if rem == inf:
                        return f"op {i}: iteration stopped by a timeout although there is no timeout"
                    if took != rem:
                        return f"op {i}: TimeoutError after {took} ticks with {rem} of the budget left"
                    waited += took
                    st.now += took
                    due()
                    ended = True
                if T is not None and waited > T:
                    return f"op {i}: iterator with timeout {T} waited {waited} ticks in total"
            if not ended:
                return f"op {i}: the iteration has no end ({obs[-3:]})"
    return None


def _hex(text_packets: list[str], cut_tail: str = "") -> str:
    return ("".join(p + "\n" for p in text_packets) + cut_tail).encode().hex()


def corpus_buffered() -> list[dict]:
    cs = []
    for client, path in (("tcp", "copy"), ("tcp", "buffered"), ("mem", "copy")):
        base = {"kind": "aiterbuf", "client": client, "path": path}
        # several packets in ONE chunk, the first taken by recv_packet(), then the iterator with a zero / default budget: B, C
        for T in (0, "default", None, 3):
            cs.append({**base, "ops": [["send", _hex(["A", "B", "C"])], ["recv"], ["iter", T] if T is not None else ["iter", 5],
                                       ["send", _hex(["D"])], ["iter", 2]]})
        # no recv_packet() first: the iterator itself makes the first read (needs a suspension: either way with a zero budget),
        # then a second iterator
        cs.append({**base, "ops": [["send", _hex(["A", "B", "C"])], ["iter", 0], ["iter", "default"], ["iter", 1]]})
        # a budget that has run down to exactly 0 (processing time of B2), C and D are buffered
        cs.append({**base, "ops": [["send", _hex(["A", "B2", "C", "D"])], ["recv"], ["iter", 2], ["iter", 1]]})
        cs.append({**base, "ops": [["send", _hex(["A", "B5", "C", "D"])], ["iter", 3], ["iter", 1]]})
        # budget used up by waiting for a burst: E arrives with F and G after 2 of 3 ticks, F costs 1: G must still come
        cs.append({**base, "ops": [["send", _hex(["A"])], ["later", 2, _hex(["E", "F1", "G"])], ["iter", 3], ["iter", 1]]})
        # an incomplete tail is not a packet: stop, later completed
        cs.append({**base, "ops": [["send", _hex(["A", "B"], "C")], ["recv"], ["iter", 0], ["send", _hex([""], "")], ["iter", 0], ["iter", 1]]})
    return cs


def generate_buffered(rng, tier: str, boost: int):
    n = (260 if tier == "quick" else 2600) * min(boost, 2)
    for _ in range(n):
        client, path = rng.choice([("tcp", "copy"), ("tcp", "buffered"), ("mem", "copy")])
        names = iter("ABCDEFGHIJKLMNOPQRSTUVWXYZ" * 2)

        def burst(k: int) -> list[str]:
            return [next(names) + (str(rng.choice([1, 2, 3])) if rng.random() < 0.2 else "") for _ in range(k)]

        ops: list = [["send", _hex(burst(rng.randint(2, 5)))]]
        for _ in range(rng.choice([0, 1, 1, 1, 2])):
            ops.append(["recv"])
        for _ in range(rng.randint(1, 4)):
            r = rng.random()
            if r < 0.25:
                ops.append(["send", _hex(burst(rng.randint(1, 3)))])
            elif r < 0.45:
                ops.append(["later", rng.choice([1, 2, 3, 5]), _hex(burst(rng.randint(1, 3)))])
            ops.append(["iter", rng.choice([0, 0, "default", 1, 2, 3, 5])])
        ops.append(["iter", 9])
        yield {"kind": "aiterbuf", "client": client, "path": path, "ops": ops}
