"""
Oracle-only C11 cases for the asynchronous iterator (easynetwork.clients._iter.AsyncClientRecvIterator) on the real
asyncio backend, under a virtual-time event loop.

case = {"kind": "aiter", "T": ticks | None, "calls": [[gap, delay], …]}
   gap    application time before the `anext()` call (outside the iterator — must not be deducted)
   delay  virtual time the client's recv_packet() needs for this packet (0 = already available: returns without suspending)

The client is a minimal AbstractAsyncNetworkClient whose recv_packet() sleeps `delay` (virtual) ticks; the iterator,
`backend.timeout()` (cancel scope + loop timer) and ElapsedTime are the real code.  `time.perf_counter` is the loop's
virtual clock while the case runs.

Lines:  pkt <i> <ticks spent in anext>  |  stop <ticks spent in anext>  |  exc <Name>
"""
from __future__ import annotations

import asyncio
import time
from typing import Any


class VLoop(asyncio.SelectorEventLoop):
    """virtual time: when nothing is ready the clock jumps to the next timer"""

    def __init__(self) -> None:
        super().__init__()
        self._vt = 0.0

    def time(self) -> float:
        return self._vt

    def _run_once(self) -> None:  # type: ignore[override]
        import heapq

        sched = self._scheduled  # type: ignore[attr-defined]
        while sched and sched[0]._cancelled:   # as BaseEventLoop._run_once does, but BEFORE looking at the head
            self._timer_cancelled_count -= 1  # type: ignore[attr-defined]
            handle = heapq.heappop(sched)
            handle._scheduled = False
        if not self._ready and self._scheduled:  # type: ignore[attr-defined]
            when = self._scheduled[0]._when  # type: ignore[attr-defined]
            if when > self._vt:
                self._vt = when
        super()._run_once()  # type: ignore[misc]


def run_real(case: dict) -> list[str]:
    from easynetwork.clients.abc import AbstractAsyncNetworkClient
    from easynetwork.lowlevel.api_async.backend._asyncio.backend import AsyncIOBackend

    loop = VLoop()
    lines: list[str] = []
    backend = AsyncIOBackend()
    calls = case["calls"]

    class Client(AbstractAsyncNetworkClient):
        def __init__(self) -> None:
            self.i = 0

        def is_connected(self) -> bool:
            return True

        async def wait_connected(self) -> None:
            return None

        def is_closing(self) -> bool:
            return False

        async def aclose(self) -> None:
            return None

        async def send_packet(self, packet: Any) -> None:
            return None

        async def recv_packet(self) -> Any:
            d = calls[self.i][1]
            if d > 0:
                await asyncio.sleep(d)
            i = self.i
            self.i += 1
            return i

        def get_local_address(self):
            raise NotImplementedError

        def get_remote_address(self):
            raise NotImplementedError

        def backend(self):
            return backend

    async def main() -> None:
        client = Client()
        T = case["T"]
        it = client.iter_received_packets(timeout=None if T is None else float(T))
        for gap, _delay in calls:
            if client.i >= len(calls):
                break
            if gap:
                await asyncio.sleep(gap)
            t0 = loop.time()
            try:
                pkt = await anext(it)
            except StopAsyncIteration:
                lines.append(f"stop {int(loop.time() - t0)}")
                break
            except Exception as e:  # noqa: BLE001
                lines.append(f"exc {type(e).__name__}")
                break
            lines.append(f"pkt {pkt} {int(loop.time() - t0)}")

    old = time.perf_counter
    time.perf_counter = loop.time  # type: ignore[assignment]
    try:
        asyncio.set_event_loop(loop)
        loop.run_until_complete(main())
    finally:
        time.perf_counter = old  # type: ignore[assignment]
        asyncio.set_event_loop(None)
        loop.close()
    return lines


def oracle(case: dict, real: list[str]) -> str | None:
    T = case["T"]
    rem = T
    spent = 0
    for k, ln in enumerate(real):
        p = ln.split()
        if p[0] == "exc":
            return f"unexpected exception {ln}"
        d = case["calls"][k][1]
        took = int(p[-1])
        spent += took
        if T is not None and spent > T:
            return f"iterator with timeout {T} waited {spent} ticks in total"
        if p[0] == "pkt":
            if took != d:
                return f"packet {k} needed {d} ticks but anext() took {took}"
            if rem is not None:
                if d > rem:
                    return f"packet {k} returned after {d} ticks although only {rem} of the budget were left"
                rem -= d
        else:   # stop
            if rem is None:
                return "iteration stopped by a timeout although there is no timeout"
            if d < rem:
                return f"iteration stopped although packet {k} would have arrived after {d} <= remaining budget {rem}"
            if took != rem:
                return f"TimeoutError after {took} ticks with {rem} of the budget left"
            if rem == 0 and took != 0:
                return "zero budget but the call waited"
    if not real and case["calls"]:
        return "no observation"
    return None


def generate(rng, tier: str, boost: int):
    n = (600 if tier == "quick" else 6000) * min(boost, 2)
    for _ in range(n):
        T = rng.choice([None, 0, 0, 1, 2, 3, 5, 8, 13])
        calls = [[rng.choice([0, 0, 1, 4, 9]), rng.choice([0, 0, 1, 1, 2, 3, 5])] for _ in range(rng.randint(1, 6))]
        yield {"kind": "aiter", "T": T, "calls": calls}
