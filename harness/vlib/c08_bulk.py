"""
C08 — BIG write calls and COARSE fragmentation ("bulk" kind, oracle only, no model run).

What the other kinds leave out: their write calls stay below ~200 KB and their in-memory transports cut the ciphertext DOWN
(1 B … 64 KiB per read).  Here
  * one write call (`send_all` of n bytes, or ONE `send_all_from_iterable` of many chunks) produces ciphertext around and
    above the sizes of the transport's own staging areas (256 KiB ± a byte / a record, 2x, 3x, 512 KiB+ …), and the writer
    then goes IDLE: nothing else of that side touches the TLS object (its reader is ALREADY parked in recv / recv_into and
    stays parked: the peer answers only after it has received every byte — request / response), or both sides do it at once;
  * the wrapped transports are COARSE: `send_all` hands the whole payload over in one piece and `recv_into` returns
    EVERYTHING that is available, up to the size of the caller's buffer (optionally a cap per read, a bounded pipe, or a
    buffer lent across the suspension), so that a read can fill the caller's buffer exactly and be followed by silence.

  run_bulk(case)   side a = the library (`AsyncTLSStreamTransport.wrap` over a `c08_duplex.PipeTransport`), side b = an
                   independent stdlib `ssl.SSLObject` peer (c08_run.RawPeer) or a second library transport; then STEPS, one
                   after the other; in a step each side has 0 … 2 writer tasks doing ONE write call each, and one reader
                   task per side that reads exactly what the other side writes in this step.
                   "first": "a" | "b"   request / response: the other side's writers start only when its reader has got
                                        the whole request;   "both": everybody writes at once.
                   Everything runs on the virtual-time loop of c08_env: a transfer that cannot complete is detected exactly
                   ("nothing runnable, nothing scheduled") and reported with the step as a deadlock.

case = {"kind": "bulk", "seed": n, "ver": "1.3" | "1.2", "role": "client" | "server" (side a), "peer": "raw" | "easynet",
        "cap": 0 | n          capacity of each pipe (0 = unbounded: send_all never waits)
        "rbuf": [a, b]        largest piece one recv_into of side a / b gets (0 = everything, up to the caller's buffer)
        "lend": bool          recv_into's buffer is lent across the suspension and filled from a loop callback (c08_duplex)
        "steps": [{"first": "a" | "b" | "both", "order": "readers-first" | "writers-first", "park": k,
                   "a": [write …], "b": [write …],        write = ["send", n] | ["senditer", [n…]]   (ONE call each)
                   "a_recv": ["recv" | "recvinto", n], "b_recv": n} …]}
"""
from __future__ import annotations

import asyncio
import ssl
from typing import Any

from vlib import c08_env as env
from vlib import c08_run as R
from vlib.c08_duplex import Pipe, PipeTransport

from easynetwork.lowlevel.api_async.transports.tls import AsyncTLSStreamTransport

STAGING = 256 * 1024         # size of the areas the generator aims at (the case itself only holds plain byte counts)
RECORD = 16384

_OVH: dict[str, int | None] = {}


def record_overhead(ver: str) -> int | None:
    """ciphertext bytes added per TLS record by THIS OpenSSL for the committed contexts (probed once: an in-memory
    handshake, then records of 1 and 16385 bytes); None if it is not a constant (the generator then keeps to plain sizes)"""
    if ver not in _OVH:
        ci, co, si, so = ssl.MemoryBIO(), ssl.MemoryBIO(), ssl.MemoryBIO(), ssl.MemoryBIO()
        c = R.client_ctx(ver).wrap_bio(ci, co, server_hostname="localhost")
        s = R.server_ctx(ver, 0).wrap_bio(si, so, server_side=True)
        done = [False, False]
        for _ in range(20):
            for k, (obj, out, peer_in) in enumerate(((c, co, si), (s, so, ci))):
                if not done[k]:
                    try:
                        obj.do_handshake()
                        done[k] = True
                    except ssl.SSLWantReadError:
                        pass
                if out.pending:
                    peer_in.write(out.read())
            if all(done):
                break
        res: int | None = None
        if all(done):
            sizes = []
            for n in (1, 2, RECORD + 1, 3 * RECORD):
                c.write(bytes(n))
                sizes.append(len(co.read()) - n)
            o = sizes[0]
            if sizes == [o, o, 2 * o, 3 * o]:
                res = o
        _OVH[ver] = res
    return _OVH[ver]


def ct_len(chunks: list[int], ovh: int) -> int:
    """ciphertext produced by ONE write call of these chunks (every chunk starts a record)"""
    return sum(n + ovh * ((n + RECORD - 1) // RECORD) for n in chunks if n > 0)


def plain_for_ct(target: int, ovh: int) -> list[int]:
    """chunk sizes whose ciphertext is exactly `target` bytes (one chunk if possible)"""
    if target <= ovh:
        return [1]
    r = -(-target // (RECORD + ovh))
    n = target - ovh * r
    if n > 0 and ct_len([n], ovh) == target:
        return [n]
    # `target` falls into the gap between r-1 full records and r records: split off a small second chunk
    for tail in range(1, 64):
        head = target - (tail + ovh)
        if head > ovh:
            rr = -(-head // (RECORD + ovh))
            m = head - ovh * rr
            if m > 0 and ct_len([m, tail], ovh) == target:
                return [m, tail]
    return [max(1, n)]


def _leak(wire: bytes, plain: bytes, writes: list) -> int | None:
    """offset of an 8-byte window of the plaintext (at the first chunk borders, then every 8 KiB) that occurs verbatim in
    the bytes handed to the wrapped transport"""
    starts = set(range(0, max(len(plain) - 7, 0), 8192))
    pos = 0
    for w in writes:
        for n in ([w[1]] if w[0] == "send" else w[1][:40]):
            if n >= 8:
                starts.add(pos)
                starts.add(pos + n - 8)
            pos += n
    for s in sorted(starts):
        win = plain[s:s + 8]
        if len(win) == 8 and win in wire:
            return s
    return None


def _total(writes: list) -> int:
    return sum((w[1] if w[0] == "send" else sum(w[1])) for w in writes)


def run_bulk(case: dict) -> list[str]:
    seed = case["seed"]
    ver = case.get("ver", "1.3")
    a_server = case.get("role", "client") == "server"
    easy = case.get("peer", "raw") == "easynet"
    steps = list(case.get("steps") or [])
    box: dict[str, Any] = {"stage": "handshake", "errors": [], "lines": [], "waiting": []}
    lines: list[str] = box["lines"]

    async def main() -> None:
        loop = asyncio.get_running_loop()
        cap = int(case.get("cap", 0)) or (1 << 40)
        rbuf = case.get("rbuf") or [0, 0]
        lend = bool(case.get("lend"))
        ab, ba = Pipe(cap), Pipe(cap)
        A = PipeTransport(env.HBackend(None), None, ba, ab, frag=rbuf[0], lend=lend)
        B = PipeTransport(env.HBackend(None), None, ab, ba, frag=rbuf[1], lend=lend)
        A.peer_tr, B.peer_tr = B, A
        box["A"], box["B"] = A, B
        ctx = R.server_ctx(ver, 0) if a_server else R.client_ctx(ver)
        peer_ctx = R.client_ctx(ver) if a_server else R.server_ctx(ver, 0)
        peer: Any = (R.EasyPeer if easy else R.RawPeer)(B, peer_ctx, not a_server)
        peer_hs = loop.create_task(peer.handshake(), name="peer-hs")
        try:
            tls = await AsyncTLSStreamTransport.wrap(A, ctx, server_side=a_server,
                                                     server_hostname=None if a_server else "localhost",
                                                     handshake_timeout=1e9)
        except Exception as e:  # noqa: BLE001
            box["hs_error"] = R.errname(e)
            peer_hs.cancel()
            return
        try:
            await peer_hs
        except Exception as e:  # noqa: BLE001
            box["hs_error"] = "peer:" + type(e).__name__
            return
        inflight = {"a": 0, "b": 0}

        # ---- one write call, then the task is over (the writer goes idle)
        async def lib_write(side: str, t: AsyncTLSStreamTransport, w: list, data: list[bytes], key: str) -> None:
            inflight[side] += 1
            try:
                if w[0] == "send":
                    await t.send_all(data[0])
                else:
                    await t.send_all_from_iterable(data)
            except Exception as e:  # noqa: BLE001
                box["errors"].append(f"{key}:{R.errname(e)}")
                return
            finally:
                inflight[side] -= 1
            # when a write call has returned and no other write call of this side is in progress, the outgoing BIO holds nothing
            lines.append(f"o.after-send {key} pending={t._write_bio.pending} others={inflight[side]} backlog={len(t._data_deque)}")

        async def raw_write(w: list, data: list[bytes], key: str) -> None:
            try:
                for c in data:
                    view = memoryview(c)
                    while len(view):
                        n = peer.obj.write(view)
                        view = view[n:]
                await peer.flush()                     # the whole call leaves in ONE send_all of the wrapped transport
            except Exception as e:  # noqa: BLE001
                box["errors"].append(f"{key}:{R.errname(e)}")

        async def a_read(op: list, n: int, sink: bytearray) -> None:
            scratch = bytearray(op[1]) if op[0] == "recvinto" else None
            try:
                while len(sink) < n:
                    if scratch is not None:
                        k = await tls.recv_into(scratch)
                        d = bytes(scratch[:k])
                    else:
                        d = await tls.recv(op[1])
                    if not d:
                        box["errors"].append("a-reader:eof")
                        return
                    sink += d
            except Exception as e:  # noqa: BLE001
                box["errors"].append(f"a-reader:{R.errname(e)}")

        async def b_read(size: int, n: int, sink: bytearray) -> None:
            try:
                if easy:
                    while len(sink) < n:
                        d = await peer.tls.recv(size)
                        if not d:
                            box["errors"].append("b-reader:eof")
                            return
                        sink += d
                else:
                    base = len(peer.received)
                    await peer.read_until(base + n, [size])
                    sink += peer.received[base:]
                    if peer.error:
                        box["errors"].append(f"b-reader:{peer.error}")
            except Exception as e:  # noqa: BLE001
                box["errors"].append(f"b-reader:{R.errname(e)}")

        for k, st in enumerate(steps):
            box["stage"] = f"step-{k}"
            wa, wb = list(st.get("a") or [])[:2], list(st.get("b") or [])[:2]
            na, nb = _total(wa), _total(wb)
            pa, pb = R.plaintext(seed, f"bulk-{k}-a", na), R.plaintext(seed, f"bulk-{k}-b", nb)
            got_a, got_b = bytearray(), bytearray()           # what side a / side b has read in this step
            first = st.get("first", "a")

            def split(writes: list, blob: bytes) -> list[list[bytes]]:
                out, pos = [], 0
                for w in writes:
                    chunks = []
                    for n in ([w[1]] if w[0] == "send" else w[1]):
                        chunks.append(blob[pos:pos + n])
                        pos += n
                    out.append(chunks)
                return out

            da, db = split(wa, pa), split(wb, pb)

            async def reader_a() -> None:
                box["waiting"].append("a-reader")
                await a_read(st.get("a_recv") or ["recv", 65536], nb, got_a)
                box["waiting"].remove("a-reader")

            async def reader_b() -> None:
                box["waiting"].append("b-reader")
                await b_read(int(st.get("b_recv") or 65536), na, got_b)
                box["waiting"].remove("b-reader")

            async def writers(side: str, gate: asyncio.Task | None) -> None:
                if gate is not None:
                    await asyncio.wait([gate])              # the request has been read completely: now answer
                ts = []
                for j, w in enumerate(wa if side == "a" else wb):
                    key = f"s{k}.{side}{j}"
                    if side == "a":
                        ts.append(loop.create_task(lib_write("a", tls, w, da[j], key), name=key))
                    elif easy:
                        ts.append(loop.create_task(lib_write("b", peer.tls, w, db[j], key), name=key))
                    else:
                        ts.append(loop.create_task(raw_write(w, db[j], key), name=key))
                for t in ts:
                    box["waiting"].append(t.get_name())
                    await t
                    box["waiting"].remove(t.get_name())

            park = int(st.get("park", 3))
            if st.get("order", "readers-first") == "readers-first":
                ra, rb = loop.create_task(reader_a(), name=f"s{k}.ra"), loop.create_task(reader_b(), name=f"s{k}.rb")
                await env.pause(park)                       # both readers are parked in the wrapped transport
                # (the gate of the responder's writers is the responder's own reader: done = the whole request is in)
                w1 = loop.create_task(writers("a", ra if first == "b" else None))
                w2 = loop.create_task(writers("b", rb if first == "a" else None))
                tasks = [ra, rb, w1, w2]
            else:
                w1 = w2 = None
                ra = loop.create_task(reader_a(), name=f"s{k}.ra") if first != "both" else None
                rb = loop.create_task(reader_b(), name=f"s{k}.rb") if first != "both" else None
                if first == "both":
                    w1, w2 = loop.create_task(writers("a", None)), loop.create_task(writers("b", None))
                    await env.pause(park)
                    ra, rb = loop.create_task(reader_a(), name=f"s{k}.ra"), loop.create_task(reader_b(), name=f"s{k}.rb")
                else:
                    # the requester writes before anybody reads; the responder still waits for the whole request
                    w1 = loop.create_task(writers("a", ra if first == "b" else None))
                    w2 = loop.create_task(writers("b", rb if first == "a" else None))
                tasks = [ra, rb, w1, w2]
            await asyncio.gather(*[t for t in tasks if t is not None])
            lines.append(f"o.xfer s{k} a2b written={R.dg(pa)} received={R.dg(bytes(got_b))} prefix={int(pa.startswith(bytes(got_b)))} "
                         f"ct={ab.total}")
            lines.append(f"o.xfer s{k} b2a written={R.dg(pb)} received={R.dg(bytes(got_a))} prefix={int(pb.startswith(bytes(got_a)))} "
                         f"ct={ba.total}")
            if box["errors"] or bytes(got_b) != pa or bytes(got_a) != pb:
                return                                      # the streams are out of step: later steps mean nothing
            # no plaintext on the wire (8-byte windows at the chunk borders and every 512 bytes)
            if na:
                wire = b"".join(A.sent)
                leak = _leak(wire, pa, wa)
                if leak is not None:
                    lines.append(f"o.leak s{k} {leak}")
            A.sent.clear()
            B.sent.clear()
            A.taken.clear()
            B.taken.clear()
        box["stage"] = "done"
        A.closing = True
        B.closing = True
        ab.close()
        ba.close()

    out, loop = env.run(main)
    head = [f"bulk steps={len(steps)} peer={'easynet' if easy else 'raw'}"]
    if out[0] == "hang":
        A, B = box.get("A"), box.get("B")
        fill = ""
        if A is not None and B is not None:
            fill = f" unread-a={len(A.inp.buf)} unread-b={len(B.inp.buf)}"
        lines.append(f"deadlock stage={box['stage']} {out[1]};{fill} waiting={','.join(sorted(box['waiting'])) or '-'}")
    elif out[0] == "exc":
        lines.append(f"harness-exc {type(out[1]).__name__}: {out[1]}")
    if loop.unhandled:
        lines.append("unhandled " + "|".join(loop.unhandled))
    if "hs_error" in box:
        lines.append(f"o.hs-error {box['hs_error']}")
    if box["errors"]:
        lines.append("o.task-error " + ",".join(box["errors"]).replace(" ", ":"))
    A, B = box.get("A"), box.get("B")
    if A is not None and B is not None:
        lines.append("o.overlap " + (",".join(sorted(set(A.overlap + B.overlap))) or "-"))
    return head + lines


def problem(case: dict, real: list[str]) -> str | None:
    for ln in real:
        if ln.startswith(("harness-exc", "unhandled")):
            return ln
    # the generalised clause first: it names the cause when a transfer is stuck because ciphertext was left behind
    for ln in real:
        if ln.startswith("o.after-send "):
            kv = dict(w.split("=", 1) for w in ln.split()[2:])
            if kv["others"] == "0" and (kv["pending"] != "0" or kv["backlog"] != "0"):
                return (f"write call {ln.split()[1]} returned although {kv['pending']} bytes of ciphertext are still in the outgoing "
                        f"BIO ({kv['backlog']} chunks in the backlog) and no other write call is in progress: nothing will send them")
    for ln in real:
        if ln.startswith("deadlock"):
            return "deadlock: tasks are waiting and nothing can wake them (" + ln + ")"
    for ln in real:
        if ln.startswith("o.hs-error "):
            return "the handshake did not complete: " + ln.split(None, 1)[1]
    for ln in real:
        if ln.startswith("o.task-error "):
            return "a transfer failed although nothing reported an error: " + ln.split(None, 1)[1]
    n = 0
    for ln in real:
        if ln.startswith("o.xfer "):
            n += 1
            w = ln.split()
            kv = dict(x.split("=", 1) for x in w if "=" in x)
            if kv["written"] != kv["received"]:
                return (f"plaintext of step {w[1]}, direction {w[2]}: received {kv['received']} != written {kv['written']} "
                        f"(prefix={kv['prefix']})")
        if ln.startswith("o.leak "):
            return "plaintext occurs verbatim in the bytes handed to the wrapped transport (" + ln[7:] + ")"
        if ln.startswith("o.overlap ") and ln.split()[1] != "-":
            return "two calls of the wrapped transport's " + ln.split()[1] + " were in flight at the same time"
    if n != 2 * len(case.get("steps") or []):
        return f"no oracle data ({n} of {2 * len(case.get('steps') or [])} transfers reported)"
    return None
