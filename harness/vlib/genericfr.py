"""
Generic (file-based / compressor) framers: harness side of lean/EasyNet/EasyNet/{Model,Drv}/GenericFr.lean.

* `head(spec, path, hint, chunks, real)`  endriver head for a receive run of a generic serializer.  The opaque file
  loader / decompressor is given to the model as a table computed HERE WITH THE REAL LIBRARY on the case's stream
  (`load_from_file` on a BytesIO / a fresh decompressor + the wrapped serializer's `deserialize`), one entry per start
  offset a framer can be started at:  <start>:<need>:<end>:<o|b|c>  or  <start>:-   (see Drv/GenericFr.lean).
  While building the table the loader laws assumed by the Lean theorems (`GenericFr.Stable`: EOF on every prefix shorter
  than `need`, the same verdict and consumed count on every longer one) are checked on sampled prefixes; a violation
  is counted (`LAW["violations"]`) and the case gets no model run.
* the case kind `generic` added to C01 C02 C05 C06 C07 (streams built from valid packets, bad frames, frames in the limit
  band, peek-style loaders, small buffer hints, reads straddling frames, one-shot datagrams, producers), with one oracle per
  property written from the property statement.
* `install(module_globals, prop)`  called from a delimited block at the end of props/c0x.py: routes `kind == "generic"` cases
  here, and gives the existing cases whose serializer is generic (file toys, zlib, bz2) a model run.
* session 3 (docs/GENERICFR.md section 9, docs/SER-STRENGTHENING.md): file toys with every `expected_load_error` configuration,
  debug=True and a read-ahead loader; C02/C06 streams known by construction for EVERY serializer kind (`_gen_stream_any`),
  optionally behind a converter; mode `direct` (protocol generators driven by hand: the remainder handed back with every
  item is compared with the bytes after the frame; oracle only, no model run); delivered packets are retained and
  re-rendered at the end of every run (`streamdrive.Retain`).
* session 4 (docs/SER-STRENGTHENING.md sections 6-7): frames `as: big` = over-long tokens of separator framers (`_overlong_family`,
  `_gen_overlong`, C02 / C06): in mode direct the bytes each generator was given are recorded (`GIVEN`) and the remainder carried
  by every size error is compared with the unread bytes (`_limit_remainder`); in mode stream the items must resume behind the
  over-long token (`_resumes_after_big`).  A property module may veto the generic model run of a case through its `SKIP` set.
"""
from __future__ import annotations

import io
import itertools
from typing import Any

from vlib import core, sers, streamdrive as sd

from easynetwork.exceptions import DatagramProtocolParseError, DeserializeError, StreamProtocolParseError
from easynetwork.lowlevel._stream import BufferedStreamDataConsumer, StreamDataConsumer
from easynetwork.protocol import DatagramProtocol

GENERIC = sers.FILE_TOYS + ("zlib", "bz2")
LAW = {"tables": 0, "entries": 0, "violations": 0, "samples": 0, "skipped_too_many_starts": 0}
_aux: dict[str, Any] = {}


class EmptyDumpFile(sers.ToyFile):
    """ToyFile whose dump of the empty packet writes nothing at all (the documented exclusion of C01)"""

    def dump_to_file(self, packet: bytes, file: io.IOBase) -> None:
        if packet:
            super().dump_to_file(packet, file)


def _build(spec: dict):
    if spec["k"] == "fileempty":
        return EmptyDumpFile(spec["limit"])
    return sers.build(spec)


def is_generic(spec: dict | None) -> bool:
    return bool(spec) and sers.recv_spec(spec)["k"] in GENERIC


# ------------------------------------------------------------------------------------------------
# the real loader / decompressor on a stand-alone byte string
# ------------------------------------------------------------------------------------------------

class _Loader:
    def __init__(self, spec: dict) -> None:
        spec = sers.recv_spec(spec)
        self.kind = spec["k"]
        self.ser = sers.build(spec)
        if self.kind in ("zlib", "bz2"):
            import zlib
            self.inner = sers.build(spec["inner"])
            self.expected = zlib.error if self.kind == "zlib" else OSError
        self.cache: dict[bytes, tuple] = {}

    def __call__(self, data: bytes) -> tuple:
        """("eof",) | ("ok", consumed) | ("bad", consumed) | ("corrupt",)"""
        r = self.cache.get(data)
        if r is None:
            r = self._load(data)
            if len(self.cache) < 4096:
                self.cache[data] = r
        return r

    def _load(self, data: bytes) -> tuple:
        if self.kind in sers.FILE_TOYS:
            f = io.BytesIO(data)
            try:
                self.ser.load_from_file(f)
            except EOFError:
                return ("eof",)
            except sers.ToyFileError:
                return ("bad", f.tell())
            return ("ok", f.tell())
        d = self.ser.new_decompressor_stream()
        try:
            out = d.decompress(data)
        except self.expected:
            return ("corrupt",)
        if not d.eof:
            return ("eof",)
        k = len(data) - len(d.unused_data)
        try:
            self.inner.deserialize(out)
        except DeserializeError:
            return ("bad", k)
        return ("ok", k)


_loaders: dict[str, _Loader] = {}


def loader(spec: dict) -> _Loader:
    key = core.case_digest(sers.recv_spec(spec))
    if key not in _loaders:
        if len(_loaders) > 64:
            _loaders.clear()
        _loaders[key] = _Loader(spec)
    return _loaders[key]


class LawViolation(Exception):
    pass


class TooManyStarts(Exception):
    pass


MAX_ENTRIES = 32


def entry(ld: _Loader, stream: bytes, p: int) -> tuple[str, int | None]:
    """table entry of start offset p, and the end offset of the frame found there (None: none)"""
    rest = stream[p:]
    full = ld(rest)
    if full == ("eof",):
        # spot check: prefixes are EOF as well
        for n in {0, len(rest) // 2, max(len(rest) - 1, 0)}:
            LAW["samples"] += 1
            if ld(rest[:n]) != ("eof",):
                raise LawViolation(f"load(T[{p}:{p + n}]) is not EOF although load(T[{p}:]) is")
        return f"{p}:-", None
    lo, hi = 0, len(rest)            # least n with load(rest[:n]) != eof, assuming monotonicity (validated below)
    while lo < hi:
        mid = (lo + hi) // 2
        if ld(rest[:mid]) == ("eof",):
            lo = mid + 1
        else:
            hi = mid
    need = lo
    got = ld(rest[:need])
    LAW["samples"] += 1
    if got[0] == "corrupt":
        if full[0] != "corrupt":
            raise LawViolation(f"start {p}: corrupt at {need} but {full} on the whole rest")
        consumed, v = need, "c"
    else:
        if full != got:
            raise LawViolation(f"start {p}: {got} with {need} bytes but {full} with all {len(rest)}")
        consumed, v = got[1], ("o" if got[0] == "ok" else "b")
        if consumed > need:
            raise LawViolation(f"start {p}: consumed {consumed} of {need} bytes")
    # sampled validation of the stability law
    for n in {need - 1, need // 2, (need * 3) // 4}:
        if 0 <= n < need:
            LAW["samples"] += 1
            if ld(rest[:n]) != ("eof",):
                raise LawViolation(f"start {p}: not EOF with {n} < need {need} bytes")
    for n in {need + 1, (need + len(rest)) // 2}:
        if need < n <= len(rest):
            LAW["samples"] += 1
            r = ld(rest[:n])
            if r != got:
                raise LawViolation(f"start {p}: {got} with {need} bytes but {r} with {n}")
    LAW["entries"] += 1
    return f"{p}:{p + need}:{p + consumed}:{v}", (p + consumed if v != "c" else None)


def table(spec: dict, chunks: list[bytes], real: list[str] | None) -> list[str] | None:
    """entries for the start offsets a framer can be started at on this run.  Which offsets those are is predicted by a
    plain walk over the reads (a frame ends -> the next one starts there; a size error or a decompressor error drops
    everything received -> the next one starts at the end of that read).  The walk is only an economy: an offset it
    misses is reported by the model as `no-entry`, i.e. shows up as a disagreement, never as a silent agreement."""
    stream = b"".join(chunks)
    ld = loader(spec)
    lim = None if ld.kind in ("zlib", "bz2") else sers.limit_of(spec)
    out: dict[int, str] = {}
    ends: dict[int, tuple] = {}

    def get(p: int) -> tuple:
        if p not in out:
            if len(out) >= MAX_ENTRIES:
                raise TooManyStarts
            e, end = entry(ld, stream, p)
            out[p] = e
            f = e.split(":")
            ends[p] = (None, None, None) if f[1] == "-" else (int(f[1]), int(f[2]), f[3])
        return ends[p]

    try:
        pos, total = 0, 0
        get(0)
        for c in chunks:
            total += len(c)
            while pos < total:
                need, end, v = get(pos)
                if lim is not None and total - pos > lim:
                    pos = total
                elif need is None or need > total:
                    break
                elif v == "c":
                    pos = total
                elif end == pos:
                    break            # a loader that consumes nothing: the real code loops on it (C06 notes)
                else:
                    pos = end
        if pos <= len(stream):
            get(pos)
    except LawViolation:
        LAW["violations"] += 1
        return None
    except TooManyStarts:
        LAW["skipped_too_many_starts"] += 1     # e.g. garbage dripped byte by byte through a decompressor: every read restarts
        return None
    LAW["tables"] += 1
    return [out[p] for p in sorted(out)]


def head(spec: dict, path: str, hint: int, chunks: list[bytes], real: list[str] | None = None) -> str | None:
    if not is_generic(spec):
        return None
    tbl = table(spec, chunks, real)
    if tbl is None:
        return None
    lim = sers.limit_of(spec)
    limtxt = "-" if sers.recv_spec(spec)["k"] in ("zlib", "bz2") else str(lim)
    if path == "copy":
        return " ".join(["gfr", limtxt] + tbl)
    return " ".join(["bgfr", limtxt, str(hint)] + tbl)


# ------------------------------------------------------------------------------------------------
# case kind "generic"
# ------------------------------------------------------------------------------------------------
#   mode stream  : {"kind","prop","mode","spec","path","frames":[{"t":"pkt","v":enc}|{"t":"raw","hex":..,"as":"bad"|"junk"}],
#                   "cuts","hint"}
#   mode oneshot : {"kind","prop","mode","spec","datagrams":[{"t":..}]}   each datagram = concatenation of frame descriptions
#   mode producer: {"kind","prop","mode","spec","packets":[enc]}

def _frame_bytes(spec: dict, f: dict) -> bytes:
    if f["t"] == "raw":
        return bytes.fromhex(f["hex"])
    ser = sers.build(sers.send_spec(spec))
    return b"".join(ser.incremental_serialize(sers.dec_val(f["v"])))


def _conv_of(case: dict) -> tuple[bool, Any]:
    """stream cases may put the harness converter behind the serializer (`conv`); DTO packets equal to `poison` are
    refused by it (PacketConversionError -> exactly one parse error, the stream goes on)"""
    return bool(case.get("conv")), (sers.dec_val(case["poison"]) if case.get("poison") is not None else None)


def _stream_of(case: dict) -> tuple[list[bytes], bytes]:
    frames = [_frame_bytes(case["spec"], f) for f in case["frames"]]
    return frames, b"".join(frames)


def _deliver(fn, arg, lines: list[str], budget: list[int], keep: "sd.Retain | None" = None) -> bool:
    while True:
        try:
            p = fn(arg)
        except StopIteration:
            return True
        except StreamProtocolParseError as e:
            if keep is not None:
                keep.add_err(e, lines)
            else:
                lines.append(sd.err_line(e))
        except Exception as e:  # noqa: BLE001
            lines.append(f"escape {type(e).__name__}")
            return False
        else:
            if keep is not None:
                keep.add(p, lines)
            else:
                lines.append(sd.pkt_line(p))
        budget[0] -= 1
        if budget[0] < 0:
            lines.append("loop")
            return False
        arg = None


def drive(spec: dict, path: str, stream: bytes, cuts: list[int], hint: int, conv: bool = False,
          poison: Any = None) -> tuple[list[str], list[bytes]]:
    lines: list[str] = []
    chunks: list[bytes] = []
    keep = sd.Retain()
    try:
        _drive(sd.make_protocol(spec, path, conv, poison), path, stream, cuts, hint, lines, chunks, keep)
    finally:
        keep.finish(lines)
    return lines, chunks


def _drive(proto, path: str, stream: bytes, cuts: list[int], hint: int, lines: list[str], chunks: list[bytes],
           keep: "sd.Retain") -> tuple[list[str], list[bytes]]:
    budget = [len(stream) + 4]
    if path == "copy":
        consumer = StreamDataConsumer(proto)
        for ch in sd.cut(stream, cuts):
            lines.append(f"read {len(ch)}")
            chunks.append(ch)
            if not _deliver(consumer.next, ch, lines, budget, keep):
                return lines, chunks
        lines.append("buf " + core.hexs(bytes(consumer.get_buffer())))
        return lines, chunks
    consumer = BufferedStreamDataConsumer(proto, hint)
    i, k = 0, 0
    fills = [c for c in cuts if c > 0] or [1 << 30]
    while i < len(stream):
        try:
            view = memoryview(consumer.get_write_buffer())
        except RuntimeError:
            lines.append("crashed")
            return lines, chunks
        room = view.nbytes
        lines.append(f"room {room}")
        n = max(1, min(fills[k % len(fills)], room, len(stream) - i))
        k += 1
        view[:n] = stream[i:i + n]
        view.release()
        chunks.append(stream[i:i + n])
        lines.append(f"read {n}")
        i += n
        if not _deliver(consumer.next, n, lines, budget, keep):
            return lines, chunks
    return lines, chunks


def drive_direct(spec: dict, path: str, stream: bytes, cuts: list[int], hint: int, conv: bool = False,
                 poison: Any = None) -> tuple[list[str], list[bytes]]:
    """mode `direct`: the real protocol object's generators (`build_packet_from_chunks` / `build_packet_from_buffer`) driven
    by hand, the way the consumers drive them, so that the REMAINDER handed back with every packet and carried by every
    parse error can be looked at the moment it is produced (behind the real consumers it is only visible through what is
    delivered next, and on the buffered path the consumer re-uses the memory it points into).  After each item a line
    `rem <fed> <hex>`: <fed> = number of bytes this generator had been given, <hex> = the remainder."""
    proto = sd.make_protocol(spec, path, conv, poison)
    lines: list[str] = []
    chunks: list[bytes] = []
    keep = sd.Retain()
    budget = [len(stream) + 4]
    cleanup: list[Any] = []      # generators / views still open when the run stops early (closed in reverse order)
    acc = [b""]                  # the bytes the generator in progress has been given so far
    GIVEN.clear()

    def item(fn, fed: int) -> bytes | None:
        """run one generator step; None = it wants more data"""
        try:
            fn()
        except StopIteration as e:
            if e.value is None:
                lines.append("escape StopIteration(None)")
                raise _Stop from None
            p, rem = e.value
            rem = bytes(rem)
            keep.add(p, lines)
        except StreamProtocolParseError as e:
            rem = bytes(e.remaining_data)
            lines.append(sd.err_line(e))
        except Exception as e:  # noqa: BLE001
            lines.append(f"escape {type(e).__name__}")
            raise _Stop from None
        else:
            return None
        lines.append(f"rem {fed} {core.hexs(rem)}")
        GIVEN.append(acc[0])
        budget[0] -= 1
        if budget[0] < 0:
            lines.append("loop")
            raise _Stop
        return rem

    try:
        if path == "copy":
            buf = b""
            gen, fed = None, 0
            for ch in sd.cut(stream, cuts):
                lines.append(f"read {len(ch)}")
                chunks.append(ch)
                arg: bytes | None = ch
                while True:
                    if not arg:
                        if not buf:
                            break
                        arg = buf
                    elif buf:
                        arg = buf + arg
                    buf = b""
                    if gen is None:
                        gen, fed = proto.build_packet_from_chunks(), 0
                        cleanup[:] = [gen.close]
                        next(gen)
                        acc[0] = b""
                    fed += len(arg)
                    acc[0] += arg
                    rem = item(lambda: gen.send(arg), fed)   # noqa: B023
                    if rem is None:
                        break
                    gen, buf, arg = None, rem, None
            lines.append("buf " + core.hexs(buf))
        else:
            buffer = proto.create_buffer(hint)
            view = memoryview(buffer).cast("B")
            state = {"gen": None, "start": 0, "fed": 0}

            def ensure() -> None:
                if state["gen"] is None:
                    state["gen"] = proto.build_packet_from_buffer(buffer)
                    cleanup[:] = [view.release, state["gen"].close]
                    state["start"] = next(state["gen"]) or 0
                    state["fed"] = 0
                    acc[0] = b""

            def step(nb: int) -> None:
                state["start"] = state["gen"].send(nb) or 0

            i, k, already = 0, 0, 0
            fills = [c for c in cuts if c > 0] or [1 << 30]
            while i < len(stream):
                ensure()
                w = view[state["start"]:][already:]
                room = len(w)
                if room == 0:
                    lines.append("crashed")
                    break
                lines.append(f"room {room}")
                n = max(1, min(fills[k % len(fills)], room, len(stream) - i))
                k += 1
                w[:n] = stream[i:i + n]
                chunks.append(stream[i:i + n])
                lines.append(f"read {n}")
                i += n
                nb, already = n + already, 0
                acc[0] += stream[i - n:i]
                while nb:
                    state["fed"] += nb
                    rem = item(lambda: step(nb), state["fed"])   # noqa: B023
                    if rem is None:
                        break
                    state["gen"] = None
                    nb = 0
                    if rem:
                        # what BufferedStreamDataConsumer does with a remainder: re-inject it at the new generator's start
                        ensure()
                        view[state["start"]:][:len(rem)] = rem
                        nb = len(rem)
                        acc[0] += rem
    except _Stop:
        pass
    finally:
        keep.finish(lines)
        for fn in reversed(cleanup):
            try:
                fn()
            except Exception:  # noqa: BLE001
                pass
    return lines, chunks


class _Stop(Exception):
    pass


GIVEN: list[bytes] = []      # mode direct: for every item of the last run, the bytes its generator had been given


def _oneshot_line(spec: dict, d: bytes) -> str:
    proto = DatagramProtocol(sers.build(spec))
    try:
        p = proto.build_packet_from_datagram(d)
    except DatagramProtocolParseError:
        return "err parse"
    except Exception as e:  # noqa: BLE001
        return f"escape {type(e).__name__}"
    return sd.pkt_line(p)


def run_real(case: dict) -> list[str]:
    spec = case["spec"]
    if case["mode"] == "producer":
        ser = _build(spec)
        out = []
        for v in case["packets"]:
            chunks = list(ser.incremental_serialize(sers.dec_val(v)))
            out.extend(["nothing"] if not chunks else ["chunk " + core.hexs(c) for c in chunks])
            # the one-shot form is the join of the chunks
            if ser.serialize(sers.dec_val(v)) != b"".join(chunks):
                out.append("serialize-differs")
        return out
    if case["mode"] == "oneshot":
        return [_oneshot_line(spec, b"".join(_frame_bytes(spec, f) for f in dg)) for dg in case["datagrams"]]
    frames, stream = _stream_of(case)
    conv, poison = _conv_of(case)
    if case["mode"] == "direct":
        COUNT["direct_runs"] += 1
        lines, chunks = drive_direct(spec, case["path"], stream, case["cuts"], case["hint"], conv, poison)
    else:
        lines, chunks = drive(spec, case["path"], stream, case["cuts"], case["hint"], conv, poison)
    _aux[core.case_digest(case)] = {"chunks": chunks, "frames": [len(f) for f in frames],
                                    "given": list(GIVEN) if case["mode"] == "direct" else None}
    return lines


def real_for_diff(case: dict, real: list[str]) -> list[str]:
    if case["mode"] == "oneshot":
        return ["ok" if ln.startswith("pkt ") else ln for ln in real]
    return [ln for ln in real if not ln.startswith("read ") and ln != "serialize-differs"]


def model_input(case: dict, real: list[str]):
    spec = case["spec"]
    comp = sers.recv_spec(spec)["k"] in ("zlib", "bz2")
    if case["mode"] == "producer":
        ser = _build(spec)
        ops = []
        for v in case["packets"]:
            if comp:
                c = ser.new_compressor_stream()
                a = c.compress(sers.build(spec["inner"]).serialize(sers.dec_val(v)))
                ops.append(f"comp {core.hexs(a)} {core.hexs(c.flush())}")
            else:
                f = io.BytesIO()
                ser.dump_to_file(sers.dec_val(v), f)
                ops.append(f"dump {core.hexs(f.getvalue())}")
        return ("gprod comp" if comp else "gprod file"), ops
    if case["mode"] == "oneshot":
        ld = loader(spec)
        ops = []
        for dg in case["datagrams"]:
            d = b"".join(_frame_bytes(spec, f) for f in dg)
            r = ld(d)
            ops.append(f"dgram {core.hexs(d)} " + (r[0] if len(r) == 1 else f"{r[0]}:{r[1]}"))
        return ("gdg comp" if comp else "gdg file"), ops
    if case["mode"] == "direct":
        return None     # the protocol generators driven by hand: the consumer models do not apply, oracle only
    aux = _aux.get(core.case_digest(case))
    if aux is None or any(ln.startswith(("escape", "loop", "harness-exc", "mutated")) for ln in real):
        return None
    h = sers.model_head(spec, case["path"], case["hint"], chunks=aux["chunks"], real=real)
    if h is None:
        return None
    op = "feed" if case["path"] == "copy" else "fill"
    return h, [f"{op} {core.hexs(c)}" for c in aux["chunks"]]


def model_post(case: dict, lines: list[str]) -> list[str]:
    if case["mode"] == "producer":
        return lines
    if case["mode"] == "oneshot":
        return ["ok" if ln == "ok" else "err parse" if ln in ("missing", "invalid", "extra") else ln for ln in lines]
    lines = [ln for ln in lines if not ln.startswith("held ")]
    return sd.codec_items(case["spec"], lines, *_conv_of(case))


# ---- oracles (written from the property statements; they never look at the model) ---------------

def _expected_items(case: dict) -> list[str] | None:
    """frame-by-frame reference decoding, known by construction of the stream (None: the stream contains junk)"""
    out = []
    conv, poison = _conv_of(case)
    for f in case["frames"]:
        if f["t"] == "pkt":
            e = sers.expected_received(case["spec"], sers.dec_val(f["v"]))
            out.append("err conv" if conv and poison is not None and e == poison else sd.pkt_line(sd.Wrapped(e) if conv else e))
        elif f.get("as") == "bad":
            out.append("err parse")
        else:
            return None
    return out


def _reads(real: list[str]) -> list[int]:
    return [int(ln.split()[1]) for ln in real if ln.startswith("read ")]


def _safe(case: dict, real: list[str]) -> bool:
    """`limit` is documented as the maximum buffer size and the check is on everything accumulated: the run is in the
    accepted zone iff what is held from the frame in progress plus the read being added never exceeds `limit`.  (Written
    from the property: frame boundaries are known by construction of the stream.  This contains the row of the C07 table,
    |frame| + largest read <= limit, and is exact: |frame| - 1 + read <= limit.)"""
    lim = sers.limit_of(case["spec"])
    if lim is None:
        return True
    aux = _aux.get(core.case_digest(case))
    if aux is None:
        return False
    bounds = [0] + list(itertools.accumulate(aux["frames"]))
    total = 0
    for n in _reads(real):
        start = max(b for b in bounds if b <= total)
        if total - start + n > lim:
            return False
        total += n
    return True


def oracle(case: dict, real: list[str]) -> str | None:
    prop = case["prop"]
    bad = [ln for ln in real if ln.startswith(("escape", "harness-exc", "loop", "crashed"))]
    if bad:
        return f"not a packet / parse error: {bad[0]}"
    if case["mode"] == "producer":
        if "serialize-differs" in real:
            return "serialize() is not the join of the incremental_serialize() chunks"
        # C01: an empty dump yields no chunk at all (documented exclusion); anything else exactly the dump
        return None
    if case["mode"] == "oneshot":
        # C05: a datagram is a packet iff it is exactly one valid frame; anything else is exactly one parse error
        for dg, ln in zip(case["datagrams"], real):
            one_valid = len(dg) == 1 and dg[0]["t"] == "pkt"
            if one_valid:
                exp = sd.pkt_line(sers.expected_received(case["spec"], sers.dec_val(dg[0]["v"])))
                if ln != exp:
                    return f"datagram holding exactly one valid frame gave {ln}, expected {exp}"
            elif ln != "err parse":
                return f"datagram {[f['t'] + ':' + f.get('as', '') for f in dg]} gave {ln}, expected one parse error"
        if len(real) != len(case["datagrams"]):
            return "not exactly one result per datagram"
        return None
    why = sd.mutated(real)
    if why:
        return why
    items = [ln for ln in real if ln.startswith(("pkt ", "err "))]
    lim = sers.limit_of(case["spec"])
    why = _limit_remainder(case, real, items)
    if why:
        return why
    if any(f.get("as") == "big" for f in case["frames"]):
        return _resumes_after_big(case, real, items)
    exp = _expected_items(case)
    # C06 ("... or reports a parse error CARRYING THE UNREAD REMAINDER"): behind the real consumers the remainder is what the
    # next items are made of, so for a stream of well-delimited frames the statement means: the valid frames behind a
    # malformed one are still delivered, one error per malformed frame.  (A size error inside the safe zone is C07's and
    # C02's business, not C06's.)
    frame_by_frame = prop in ("C01", "C02", "C07") or (prop == "C06" and "err limit" not in items)
    if frame_by_frame and exp is not None and _safe(case, real):
        # C01/C02: delivered == frame-by-frame decoding (one item per frame, bad frame = one parse error, later frames
        # intact), nothing left over; C07: no frame of the safe zone is rejected for its size
        if "err limit" in items:
            return f"size error although the accumulated bytes (frame in progress + read) never exceeded limit {lim}: {items[:8]}"
        if case["mode"] == "direct":
            # the remainder itself: generator number i was started on a frame boundary and given `fed` bytes, frame i is
            # known by construction, so what it hands back must be exactly the bytes it was given beyond that frame
            aux = _aux.get(core.case_digest(case))
            stream = b"".join(aux["chunks"]) if aux else b""
            rems = [ln.split() for ln in real if ln.startswith("rem ")]
            pos = 0
            for i, (n, r) in enumerate(zip(aux["frames"] if aux else [], rems)):
                if i >= len(exp) or items[i] != exp[i]:
                    break
                fed = int(r[1])
                want = stream[pos + n:pos + fed]
                got = b"" if r[2] == "-" else bytes.fromhex(r[2])
                if got != want:
                    return (f"item #{i} ({items[i]}): the remainder carried is {got.hex() or '-'} but the unread bytes after "
                            f"that frame are {want.hex() or '-'} ({fed} bytes given, frame of {n})")
                pos += n
        if items != exp:
            return f"delivered {items[:8]} != frame-by-frame decoding {exp[:8]}"
        tail = [ln for ln in real if ln.startswith("buf ")]
        if tail and tail[-1].split()[1] != "-":
            return f"bytes left over after the last frame: {tail[-1]}"
    if lim is not None:
        for ln in real:
            if ln.startswith("room ") and int(ln.split()[1]) > lim:
                return f"buffered path offered a write buffer of {ln.split()[1]} bytes > limit {lim}"
        if case.get("unterminated"):
            # C07: once more than `limit` bytes have been received without a complete frame, the read that made it so
            # raised a size error (so never more than limit + one read is held)
            since, raised = 0, True
            for ln in real + ["read 0"]:
                if ln.startswith("read "):
                    if since > lim and not raised:
                        return f"{since} bytes held without a complete frame (limit {lim}) and no size error raised"
                    since += int(ln.split()[1])
                    raised = False
                elif ln == "err limit":
                    raised, since = True, 0
                elif ln.startswith("pkt "):
                    return f"a packet was delivered from an unterminated stream: {ln}"
    # C06: every item is a packet or a parse error (checked above: no escape), and a skip-errors loop makes progress
    if len(items) > len(b"".join(_stream_of(case)[0])):
        return f"{len(items)} items from fewer bytes: some error consumed nothing"
    return None


def _sep_tail(data: bytes, sep: bytes) -> bytes:
    """the longest suffix of `data` that is a PROPER prefix of `sep` (what may be the beginning of a terminator)"""
    for n in range(min(len(sep) - 1, len(data)), 0, -1):
        if data.endswith(sep[:n]):
            return sep[:n]
    return b""


def _limit_remainder(case: dict, real: list[str], items: list[str]) -> str | None:
    """C06 "…reports a parse error CARRYING THE UNREAD REMAINDER", for the size error of a separator framer (mode direct: the
    remainder is looked at the moment the error is raised, next to the bytes the failing generator had been given).
    A token rejected for its size extends to its terminator (C02: decoding resumes behind it), so what the error has READ is
    the token, and what it has not is
      * terminator seen   : everything behind the first terminator;
      * terminator not yet: the longest suffix of the received bytes that is a proper prefix of the separator — those bytes
        may be the beginning of the terminator; dropping one of them glues the rest of the terminator to the next frame,
        keeping anything before them re-delivers bytes that were already judged.
    Written from the property and the resumption clause; the copying reader documents the same for read_until()."""
    if case["mode"] != "direct" or case["prop"] not in ("C02", "C06"):
        return None
    sep = sers.separator(case["spec"])
    aux = _aux.get(core.case_digest(case))
    if sep is None or not aux or not aux.get("given"):
        return None
    rems = [ln.split() for ln in real if ln.startswith("rem ")]
    for i, (it, r, given) in enumerate(zip(items, rems, aux["given"])):
        if it != "err limit":
            continue
        got = b"" if r[2] == "-" else bytes.fromhex(r[2])
        j = given.find(sep)
        want = given[j + len(sep):] if j != -1 else _sep_tail(given, sep)
        COUNT["limit_remainders_checked"] += 1
        if j == -1 and want and len(sep) >= 3:
            COUNT["limit_remainders_partial_terminator_sep3"] += 1
        if got != want:
            what = "behind the terminator" if j != -1 else f"the received beginning of the terminator {sep.hex()}"
            return (f"item #{i} (err limit): the error carries the remainder {got.hex() or '-'} but the unread bytes are "
                    f"{want.hex() or '-'} ({what}; the generator had been given …{given[-24:].hex()})")
        if len(got) >= len(given):
            return f"item #{i} (err limit) consumed nothing: remainder of {len(got)} bytes from {len(given)} given"
    return None


def _resumes_after_big(case: dict, real: list[str], items: list[str]) -> str | None:
    """streams with over-long tokens (frames `as: big`): every other frame gives exactly its item, in order; a big frame gives
    at least one size error and whatever else is made of its own bytes — then decoding resumes with the frame behind its
    terminator (the item list is matched against that pattern)"""
    import functools
    conv, poison = _conv_of(case)
    pat: list[str | None] = []
    for f in case["frames"]:
        if f["t"] == "pkt":
            e = sers.expected_received(case["spec"], sers.dec_val(f["v"]))
            pat.append(sd.pkt_line(sd.Wrapped(e) if conv else e))
        elif f.get("as") == "bad":
            pat.append("err parse")
        elif f.get("as") == "big":
            pat.append(None)
        else:
            return None
    n, m = len(pat), len(items)

    @functools.lru_cache(maxsize=None)
    def match(i: int, j: int) -> bool:
        if i == n:
            return j == m
        if pat[i] is not None:
            return j < m and items[j] == pat[i] and match(i + 1, j + 1)
        seen = False
        for k in range(j, m):
            seen = seen or items[k] == "err limit"
            if seen and match(i + 1, k + 1):
                return True
        return False

    if not match(0, 0):
        return (f"delivered {items[:8]} does not resume behind the over-long token: expected "
                f"{[p or '<size error(s)>' for p in pat][:8]}")
    tail = [ln for ln in real if ln.startswith("buf ")]
    if tail and tail[-1].split()[1] != "-":
        return f"bytes left over after the last frame: {tail[-1]}"
    return None


def nontrivial(case: dict, real: list[str]) -> str | None:
    k = sers.recv_spec(case["spec"])["k"]
    if case["mode"] != "stream":
        return f"generic/{k}/{case['mode']}" + ("/big" if any(f.get("as") == "big" for f in case.get("frames", [])) else "")
    aux = _aux.get(core.case_digest(case))
    tags = set()
    if aux:
        bounds = set(itertools.accumulate(aux["frames"]))
        pos = 0
        for c in aux["chunks"]:
            start, pos = pos, pos + len(c)
            if pos not in bounds:
                tags.add("cut-inside")
            if sum(1 for b in bounds if start < b <= pos) >= 2 or (start not in bounds and any(start < b < pos for b in bounds)):
                tags.add("straddle")
    if any(f.get("as") == "bad" for f in case["frames"]):
        tags.add("bad")
    if any(f.get("as") == "big" for f in case["frames"]):
        tags.add("big")
    if "err limit" in real:
        tags.add("limit")
    if case.get("unterminated"):
        tags.add("unterminated")
    if not tags:
        return None
    return f"generic/{k}/{case['path']}/" + "+".join(sorted(tags))


def shrink(case: dict):
    if case["mode"] == "producer":
        for i in range(len(case["packets"])):
            if len(case["packets"]) > 1:
                yield {**case, "packets": case["packets"][:i] + case["packets"][i + 1:]}
        return
    if case["mode"] == "oneshot":
        for i in range(len(case["datagrams"])):
            if len(case["datagrams"]) > 1:
                yield {**case, "datagrams": case["datagrams"][:i] + case["datagrams"][i + 1:]}
        return
    fr = case["frames"]
    for i in range(len(fr)):
        if len(fr) > 1:
            yield {**case, "frames": fr[:i] + fr[i + 1:]}
    cuts = case["cuts"]
    if len(cuts) > 1:
        for i in range(len(cuts)):
            yield {**case, "cuts": cuts[:i] + cuts[i + 1:]}
    for i, c in enumerate(cuts):
        if c > 1:
            yield {**case, "cuts": cuts[:i] + [c - 1] + cuts[i + 1:]}
    if case["hint"] > 1:
        yield {**case, "hint": case["hint"] - 1}


def known_key(case: dict, real: list[str], why: str) -> str:
    return f"generic,k={sers.recv_spec(case['spec'])['k']},mode={case['mode']},path={case.get('path')}"


# ---- generators ---------------------------------------------------------------------------------

_INNERS = [{"k": "json", "use_lines": True, "limit": 65536}, {"k": "pickle"},
           {"k": "line", "newline": "LF", "limit": 65536, "encoding": "utf-8"}]


def _toy_pkt(n: int, rng) -> dict:
    return {"t": "pkt", "v": sers.enc_val(bytes(rng.randrange(256) for _ in range(n)))}


def _toy_bad(rng) -> dict:
    return {"t": "raw", "hex": bytes([rng.randint(201, 255)]).hex(), "as": "bad"}


def _comp_bad(rng, spec: dict) -> dict:
    """a well-delimited compressed frame whose decompressed payload the wrapped serializer rejects"""
    import bz2
    import zlib
    inner = spec["inner"]["k"]
    payload = {"json": b"{\"a\": tru", "pickle": b"\x80\x04nonsense", "line": b"\xff\xfe\n"}[inner]
    data = zlib.compress(payload, 1) if spec["k"] == "zlib" else bz2.compress(payload, 1)
    return {"t": "raw", "hex": data.hex(), "as": "bad"}


def _cuts(rng, lens: list[int], maxread: int) -> list[int]:
    """read sizes: drip feed, fixed size, or reads built around the frame boundaries (tail of one frame + head of the next)"""
    maxread = max(1, maxread)
    mode = rng.random()
    if mode < 0.2:
        return [1]
    if mode < 0.35:
        return [rng.randint(1, maxread)]
    if mode < 0.7 and lens:
        # cut points strictly inside frames, so that every read straddles a boundary
        points, pos = [], 0
        for n in lens:
            if n > 1:
                points.append(pos + rng.randint(1, n - 1))
            pos += n
        cuts, prev = [], 0
        for p in points + [pos]:
            d = p - prev
            while d > maxread:
                cuts.append(maxread)
                d -= maxread
            if d > 0:
                cuts.append(d)
            prev = p
        return cuts or [1]
    return [min(maxread, rng.choice([1, 1, 2, 3, 5, 8, 13, maxread])) for _ in range(rng.randint(1, 10))]


def _toy_variant(rng, spec: dict) -> dict:
    """`expected_load_error` combinations (narrow, Exception, tuples containing Exception / DeserializeError) x debug"""
    e = rng.choice(sers.EXPECTED_KEYS)
    if e != "toy":
        spec["expected"] = e
    if rng.random() < 0.3:
        spec["debug"] = True
    return spec


def _gen_stream(rng, prop: str) -> dict:
    k = rng.choice(["filetoy", "filepeek", "filepeek", "fileahead", "zlib", "bz2"] if prop != "C07" else ["filetoy", "filepeek", "fileahead"])
    path = rng.choice(["copy", "buffered"])
    case: dict[str, Any] = {"kind": "generic", "prop": prop, "mode": "stream", "path": path}
    if prop in ("C02", "C06") and rng.random() < 0.35:
        case["mode"] = "direct"
    if k in ("zlib", "bz2"):
        spec = {"k": k, "inner": rng.choice(_INNERS), "level": rng.choice([None, 1, 9])}
        if rng.random() < 0.3:
            spec["debug"] = True
        if rng.random() < 0.3:
            spec["inner"] = {**spec["inner"], "debug": True}
        frames = []
        for _ in range(rng.randint(1, 4)):
            if prop in ("C02", "C06") and rng.random() < 0.3:
                frames.append(_comp_bad(rng, spec))
            else:
                frames.append({"t": "pkt", "v": sers.enc_val(sers.gen_packet(rng, spec, 8))})
        frames.append({"t": "pkt", "v": sers.enc_val(sers.gen_packet(rng, spec, 4))})
        if prop == "C06" and case["mode"] != "direct" and rng.random() < 0.6:
            frames = _mutate(rng, spec, frames)
        lens = [len(_frame_bytes(spec, f)) for f in frames]
        hint = rng.choice([1, 2, 3, 7, 16, 64, 16384])
        case.update(spec=spec, frames=frames, hint=hint, cuts=_cuts(rng, lens, rng.choice([3, 9, 40, 200])))
        return case
    lim = rng.choice([4, 6, 8, 12, 16, 24, 32])
    spec = _toy_variant(rng, {"k": k, "limit": lim})
    maxread = rng.randint(1, max(1, lim // 2))
    hint = rng.choice([1, 2, 3, maxread, lim - 1, lim, lim + 5, 16384])
    hint = max(1, hint)
    frames: list[dict] = []
    unterminated = False
    if prop in ("C01", "C02") or (prop == "C06" and rng.random() < 0.5) or case["mode"] == "direct":
        # safe zone, pushed against its edge:  |frame| + largest read <= limit, often with equality
        hint = min(hint, maxread) if path == "buffered" else hint
        top = lim - maxread - 1            # payload length such that |frame| + maxread == limit
        for _ in range(rng.randint(1, 6)):
            if prop in ("C02", "C06") and rng.random() < 0.3:
                frames.append(_toy_bad(rng))
            elif top < 0:
                frames.append(_toy_bad(rng))
            else:
                r = rng.random()
                frames.append(_toy_pkt(top + 1 if r < 0.25 else top if r < 0.6 else rng.randint(0, top), rng))
        if top >= 0:
            frames.append(_toy_pkt(rng.randint(0, top), rng))
    else:
        # C07 / C06: frames in the band around the limit, whatever the reads
        for _ in range(rng.randint(1, 4)):
            r = rng.random()
            if r < 0.5:
                n = rng.choice([lim - 2, lim - 1, lim, lim + 1, lim - maxread - 1, lim - maxread, lim - maxread + 1])
            elif r < 0.8:
                n = rng.randint(0, lim)
            else:
                n = rng.randint(lim, lim + 10)
            n = max(0, min(200, n - 1))
            if prop == "C06" and rng.random() < 0.25:
                frames.append(_toy_bad(rng))
            else:
                frames.append(_toy_pkt(n, rng))
        if rng.random() < 0.25:
            # a header promising more than will ever come
            frames.append({"t": "raw", "hex": (bytes([200]) + b"q" * rng.randint(lim, 3 * lim + 4)).hex(), "as": "junk"})
            if len(frames) == 1 or rng.random() < 0.5:
                frames = frames[-1:]
                unterminated = True
        elif prop == "C06" and rng.random() < 0.5:
            frames = _mutate(rng, spec, frames)
    lens = [len(_frame_bytes(spec, f)) for f in frames]
    cuts = _cuts(rng, lens, maxread if (prop in ("C01", "C02") or case["mode"] == "direct") else rng.choice([maxread, lim, lim + 3]))
    case.update(spec=spec, frames=frames, hint=hint, cuts=cuts)
    if unterminated:
        case["unterminated"] = True
    return case


def _gen_stream_any(rng, prop: str) -> dict | None:
    """streams described by construction for EVERY serializer kind (rich configuration space of sers.gen_spec: debug=True
    variants, 3/4-byte separators, Base64 with long separators, packets that keep their deserialize() argument, composites,
    file toys with wide expected_load_error): valid packets and well-delimited undecodable frames (sers.bad_frame), all
    inside the safe zone of the limit, through the real consumers (mode stream) or the protocol generators (mode direct)"""
    spec = sers.gen_spec(rng, limits=(64, 256, 65536), rich=True)
    if prop == "C06" and spec["k"] not in ("stapled", "stapledbuf") and rng.random() < 0.5:
        spec["debug"] = True
    buffered_ok = sers.is_buffered(spec)
    path = "buffered" if (buffered_ok and rng.random() < 0.5) else "copy"
    lim = sers.limit_of(spec)
    sep = sers.separator(spec)
    maxlen = 10
    if sep is not None:
        maxlen = max(1, min(10, lim - len(sep) - 1 - (len(sep) if sers.keep_end(spec) else 0)))
    frames: list[dict] = []
    for _ in range(rng.randint(2, 6)):
        r = rng.random()
        if r < 0.3:
            b = sers.bad_frame(rng, spec, extreme=rng.random() < 0.12)
            if b is not None:
                frames.append({"t": "raw", "hex": b.hex(), "as": "bad"})
                continue
        frames.append({"t": "pkt", "v": sers.enc_val(sers.gen_packet(rng, spec, maxlen))})
    frames.append({"t": "pkt", "v": sers.enc_val(sers.gen_packet(rng, spec, min(4, maxlen)))})
    lens = [len(_frame_bytes(spec, f)) for f in frames]
    big = max(lens)
    if lim is not None and big + 1 > lim:
        return None
    # safe zone: frame in progress + read <= limit
    maxread = 4096 if lim is None else lim - big
    if big > 3000:
        maxread = max(512, min(maxread, 8192))      # long frames are read in realistic sizes
        if lim is not None and big + maxread > lim:
            return None
        cuts = [rng.randint(512, maxread) for _ in range(3)]
    else:
        cuts = _cuts(rng, lens, min(maxread, rng.choice([3, 9, 40, 200])))
    mode = "direct" if rng.random() < 0.4 else "stream"
    case = {"kind": "generic", "prop": prop, "mode": mode, "path": path, "spec": spec, "frames": frames,
            "hint": rng.choice([1, 2, 3, 7, 16, 64, 16384]), "cuts": cuts}
    if rng.random() < 0.3:
        # protocol with a converter; half of the time one of the stream's packets is one the converter refuses
        case["conv"] = True
        pk = [f["v"] for f in frames if f["t"] == "pkt"]
        if rng.random() < 0.5:
            case["poison"] = sers.enc_val(sers.expected_received(spec, sers.dec_val(rng.choice(pk))))
    return case


OVERLONG_SPECS = [
    {"k": "autosep", "sep": "3c454f543e", "limit": 12, "check": True},                    # <EOT>
    {"k": "autosep", "sep": "0d0a2e0d0a", "limit": 12, "check": True},                    # \r\n.\r\n  (first byte occurs twice)
    {"k": "autosep", "sep": "3c7c3e", "limit": 10, "check": True},
    {"k": "autosep", "sep": "616162", "limit": 10, "check": True},                        # aab: self-overlapping
    {"k": "autosep", "sep": "61626162", "limit": 12, "check": True},                      # abab: border of length 2
    {"k": "autosep", "sep": "0d0a", "limit": 8, "check": True},
    {"k": "autosep", "sep": "0a", "limit": 8, "check": True, "debug": True},
    {"k": "line", "newline": "CRLF", "keep_end": False, "encoding": "ascii", "limit": 10},
    {"k": "line", "newline": "CRLF", "keep_end": True, "encoding": "utf-8", "errors": "replace", "limit": 10, "debug": True},
    {"k": "json", "use_lines": True, "limit": 16},
    {"k": "b64", "inner": {"k": "json", "use_lines": True, "limit": 65536}, "alphabet": "urlsafe", "checksum": False,
     "separator": "3c454f543e", "limit": 24},
    {"k": "b64", "inner": {"k": "line", "newline": "LF", "limit": 65536, "encoding": "utf-8"}, "alphabet": "standard", "checksum": False,
     "separator": "0d0a2e0d0a", "limit": 24, "debug": True},
    {"k": "stapledbuf", "sent": {"k": "autosep", "sep": "3c2d2d3e", "limit": 12, "check": True},
     "received": {"k": "autosep", "sep": "3c2d2d3e", "limit": 12, "check": True}},
]


def _big_frame(spec: dict, n: int, tail: bytes = b"") -> dict:
    """an over-long token of n payload bytes (filler that is no separator byte; `tail` = a proper prefix of the separator kept at
    its end where that does not complete the separator early) followed by its terminator"""
    sep = sers.separator(spec)
    fill = next(bytes([c]) for c in b"qbxyz" if c not in sep)
    p = fill * (n - len(tail)) + tail
    if (p + sep).find(sep) != len(p):
        p = fill * n
    return {"t": "raw", "hex": (p + sep).hex(), "as": "big"}


def _small_packets(spec: dict) -> list[Any]:
    k = sers.recv_spec(spec)["k"]
    leaf = sers._leaf_spec(spec)["k"]
    if leaf == "json":
        return [[1], {"i": 2}]
    if leaf == "line":
        nl = sers.NEWLINES[sers.recv_spec(spec)["newline"]].decode() if (k == "line" and sers.keep_end(spec)) else ""
        return ["ab" + nl, "c" + nl]
    return [p for p in (b"ab", b"c", b"xy", b"q", b"zz") if sers.valid_packet(spec, p)][:2]


def _overlong_family(prop: str):
    """deterministic: over-long token | valid | valid, ONE cut after 0..|sep| bytes of the over-long token's terminator (k bytes of
    the separator arrive with the end of the token), the rest in one read or dripped; token lengths from just over the limit to
    limit + 2|sep| + 2 (so that on the buffered path the read that fills the buffer ends inside the terminator for some of
    them); both paths; through the consumers (stream) and the protocol generators (direct)"""
    for spec in OVERLONG_SPECS:
        sep, lim = sers.separator(spec), sers.limit_of(spec)
        small = [{"t": "pkt", "v": sers.enc_val(p)} for p in _small_packets(spec)]
        paths = ("copy", "buffered") if sers.is_buffered(spec) else ("copy",)
        flip = 0
        for n in (lim + 1, lim + len(sep) + 1, 2 * lim, 3 * lim + 1):
            for tl in ((b"", sep[:1]) if n in (lim + 1, 2 * lim) and len(sep) > 1 else (b"",)):
                frames = [_big_frame(spec, n, tl)] + small
                for k in range(0, len(sep) + 1):
                    for rest in ([1000], [1]):
                        for path in paths:
                            flip += 1
                            yield {"kind": "generic", "prop": prop, "mode": ("direct", "stream")[flip % 2], "path": path, "spec": spec,
                                   "frames": frames, "cuts": [n + k] + rest, "hint": 4}
                    flip += 1
                for path in paths:
                    # drip feed and odd read sizes from the start: the buffered path raises as soon as its buffer (= limit) is full,
                    # wherever that falls in the token or in its terminator
                    for cuts in ([1], [2], [3], [lim - 1, 1], [5, 3, 1]):
                        flip += 1
                        yield {"kind": "generic", "prop": prop, "mode": ("direct", "stream")[flip % 2], "path": path, "spec": spec,
                               "frames": frames, "cuts": [c for c in cuts if c > 0], "hint": 4}


def _gen_overlong(rng, prop: str) -> dict:
    """random: separator framers with 1..5-byte separators (rich option space), several over-long / valid / undecodable frames,
    over-long tokens ending with parts of the separator, cuts drawn around the terminators"""
    if rng.random() < 0.5:
        spec = dict(rng.choice(OVERLONG_SPECS))
        if spec["k"] == "autosep":
            spec["limit"] = rng.choice([8, 10, 12, 16, 31])
    else:
        sep = rng.choice(sers.AUTOSEP_SEPS + ["3c454f543e", "0d0a2e0d0a", "61626162", "6161616161"])
        spec = {"k": "autosep", "sep": sep, "limit": rng.choice([8, 10, 12, 16, 31]), "check": True}
        if rng.random() < 0.3:
            spec["debug"] = True
        if rng.random() < 0.3:
            spec["hold"] = rng.choice(["arg", "text"])
    sep, lim = sers.separator(spec), sers.limit_of(spec)
    small = _small_packets(spec)
    frames: list[dict] = []
    for _ in range(rng.randint(1, 4)):
        r = rng.random()
        if r < 0.5:
            n = rng.choice([lim + 1, lim + len(sep), lim + len(sep) + 1, rng.randint(lim + 1, 3 * lim + 4)])
            frames.append(_big_frame(spec, n, sep[:rng.randint(0, len(sep) - 1)] if rng.random() < 0.5 else b""))
        elif r < 0.6 and (b := sers.bad_frame(rng, spec)) is not None and len(b) + 1 < lim:
            frames.append({"t": "raw", "hex": b.hex(), "as": "bad"})
        else:
            frames.append({"t": "pkt", "v": sers.enc_val(rng.choice(small))})
    frames.append({"t": "pkt", "v": sers.enc_val(small[-1])})
    lens = [len(_frame_bytes(spec, f)) for f in frames]
    r = rng.random()
    if r < 0.3:
        cuts = [rng.choice([1, 1, 2, 3])]
    elif r < 0.75:
        # one cut inside (or next to) the terminator of every frame
        cuts, prev, pos = [], 0, 0
        for n in lens:
            pos += n
            c = pos - rng.randint(0, len(sep))
            if c > prev:
                cuts.append(c - prev)
                prev = c
        cuts.append(1000 if rng.random() < 0.5 else 1)
    else:
        cuts = [rng.choice([1, 2, 3, 5, lim - 1, lim, lim + 1, 2 * lim]) for _ in range(rng.randint(1, 8))]
    path = "buffered" if (sers.is_buffered(spec) and rng.random() < 0.5) else "copy"
    return {"kind": "generic", "prop": prop, "mode": "direct" if rng.random() < 0.5 else "stream", "path": path, "spec": spec,
            "frames": frames, "cuts": [c for c in cuts if c > 0] or [1], "hint": rng.choice([1, 2, 4, 16, 16384])}


def _mutate(rng, spec: dict, frames: list[dict]) -> list[dict]:
    """C06: the same stream with bytes flipped / dropped / inserted — no frame structure is promised any more"""
    data = bytearray(b"".join(_frame_bytes(spec, f) for f in frames))
    for _ in range(rng.randint(1, 3)):
        if not data:
            break
        i = rng.randrange(len(data))
        r = rng.random()
        if r < 0.4:
            data[i] ^= 1 << rng.randrange(8)
        elif r < 0.6:
            del data[i]
        elif r < 0.8:
            data.insert(i, rng.randrange(256))
        else:
            del data[i:]
    return [{"t": "raw", "hex": bytes(data).hex(), "as": "junk"}]


def _gen_oneshot(rng) -> dict:
    k = rng.choice(["filetoy", "filepeek", "fileahead", "zlib", "bz2"])
    if k in ("zlib", "bz2"):
        spec: dict[str, Any] = {"k": k, "inner": rng.choice(_INNERS), "level": rng.choice([None, 1, 9])}
        if rng.random() < 0.3:
            spec["debug"] = True
        def pkt() -> dict:
            return {"t": "pkt", "v": sers.enc_val(sers.gen_packet(rng, spec, 8))}
        def bad() -> dict:
            return _comp_bad(rng, spec)
    else:
        spec = _toy_variant(rng, {"k": k, "limit": rng.choice([8, 64, 256])})
        def pkt() -> dict:
            return _toy_pkt(rng.randint(0, 12), rng)
        def bad() -> dict:
            return _toy_bad(rng)
    dgs = []
    for _ in range(rng.randint(1, 6)):
        r = rng.random()
        if r < 0.35:
            dgs.append([pkt()])
        elif r < 0.5:
            dgs.append([pkt(), pkt()])                                 # two frames glued
        elif r < 0.65:
            f = _frame_bytes(spec, pkt())
            g = _frame_bytes(spec, pkt())
            dgs.append([{"t": "raw", "hex": (f + g[:max(1, len(g) // 2)]).hex(), "as": "junk"}])   # a frame and a half
        elif r < 0.8:
            f = _frame_bytes(spec, pkt())
            dgs.append([{"t": "raw", "hex": f[:rng.randint(0, max(0, len(f) - 1))].hex(), "as": "junk"}])   # truncated
        elif r < 0.9:
            dgs.append([bad()])
        else:
            dgs.append([bad(), pkt()])
    return {"kind": "generic", "prop": "C05", "mode": "oneshot", "spec": spec, "datagrams": dgs}


def _gen_producer(rng) -> dict:
    k = rng.choice(["filetoy", "zlib", "bz2"])
    if k == "filetoy":
        spec: dict[str, Any] = {"k": rng.choice(["filetoy", "filepeek", "fileahead", "fileempty"]), "limit": 64}
        pk = [sers.enc_val(bytes(rng.randrange(256) for _ in range(rng.choice([0, 0, 1, 5])))) for _ in range(rng.randint(1, 5))]
    else:
        spec = {"k": k, "inner": rng.choice(_INNERS), "level": rng.choice([None, 1, 9])}
        pk = [sers.enc_val(sers.gen_packet(rng, spec, 8)) for _ in range(rng.randint(1, 4))]
    return {"kind": "generic", "prop": "C01", "mode": "producer", "spec": spec, "packets": pk}


def corpus(prop: str) -> list[dict]:
    out: list[dict] = []
    def toy(n: int) -> dict:
        return {"t": "pkt", "v": sers.enc_val(b"q" * n)}
    if prop in ("C01", "C02", "C07"):
        for k in ("filetoy", "filepeek"):
            for path in ("copy", "buffered"):
                # limit 8, reads of 3: frames of 5 bytes are the largest safe ones; 1-byte buffer; tail+head reads
                out.append({"kind": "generic", "prop": prop, "mode": "stream", "spec": {"k": k, "limit": 8}, "path": path,
                            "frames": [toy(4), toy(4), toy(0), toy(4)], "cuts": [3], "hint": 3})
                out.append({"kind": "generic", "prop": prop, "mode": "stream", "spec": {"k": k, "limit": 8}, "path": path,
                            "frames": [toy(6), toy(2), toy(6)], "cuts": [1], "hint": 1})
        if prop == "C02":
            out.append({"kind": "generic", "prop": prop, "mode": "stream", "spec": {"k": "filepeek", "limit": 8}, "path": "copy",
                        "frames": [toy(3), {"t": "raw", "hex": "ff", "as": "bad"}, toy(3), {"t": "raw", "hex": "c9", "as": "bad"}, toy(1)],
                        "cuts": [2], "hint": 2})
        if prop == "C07":
            for path in ("copy", "buffered"):
                # the table row: a complete frame of 8 <= limit arriving together with the start of the next one
                out.append({"kind": "generic", "prop": prop, "mode": "stream", "spec": {"k": "filetoy", "limit": 8}, "path": path,
                            "frames": [toy(7), toy(2)], "cuts": [9, 2], "hint": 16})
                out.append({"kind": "generic", "prop": prop, "mode": "stream", "spec": {"k": "filetoy", "limit": 8}, "path": path,
                            "frames": [toy(7), toy(2)], "cuts": [8, 3], "hint": 16})
                out.append({"kind": "generic", "prop": prop, "mode": "stream", "spec": {"k": "filepeek", "limit": 8}, "path": path,
                            "frames": [{"t": "raw", "hex": (bytes([200]) + b"q" * 30).hex(), "as": "junk"}], "cuts": [3],
                            "hint": 4, "unterminated": True})
    if prop == "C01":
        out.append({"kind": "generic", "prop": "C01", "mode": "producer", "spec": {"k": "fileempty", "limit": 64},
                    "packets": [sers.enc_val(b""), sers.enc_val(b"ab")]})
    if prop == "C05":
        out.append({"kind": "generic", "prop": "C05", "mode": "oneshot", "spec": {"k": "filepeek", "limit": 64},
                    "datagrams": [[toy(2)], [toy(2), toy(1)], [{"t": "raw", "hex": "0371", "as": "junk"}], [{"t": "raw", "hex": "ff", "as": "bad"}]]})
    return out


def generate(prop: str, rng, tier: str, boost: int):
    n = {"C01": 700, "C02": 700, "C05": 400, "C06": 300, "C07": 900}[prop] * (1 if tier == "quick" else 20) * boost
    for i in range(n):
        if prop == "C05":
            yield _gen_oneshot(rng)
        elif prop == "C01" and i % 7 == 0:
            yield _gen_producer(rng)
        else:
            yield _gen_stream(rng, prop)
    # every serializer kind, streams known by construction (frame-by-frame decoding + remainders)
    m = {"C02": 1200, "C06": 900}.get(prop, 0) * (1 if tier == "quick" else 20) * boost
    rng2 = core.sub_rng(rng.getrandbits(32), "anykind", prop)
    for _ in range(m):
        c = _gen_stream_any(rng2, prop)
        if c is not None:
            yield c
    # over-long tokens of separator framers: the remainder carried by the size error, and the resumption behind the terminator
    if prop in ("C02", "C06"):
        yield from _overlong_family(prop)
        rng3 = core.sub_rng(rng.getrandbits(32), "overlong", prop)
        for _ in range({"C02": 300, "C06": 800}[prop] * (1 if tier == "quick" else 20) * boost):
            yield _gen_overlong(rng3, prop)


# ------------------------------------------------------------------------------------------------
# installation into a property module
# ------------------------------------------------------------------------------------------------

THEOREMS = {
    "C01": ["C01_generic_copy_roundtrip", "C01_generic_buffered_roundtrip", "C01_generic_producer_nothing_when_empty"],
    "C02": ["C02_generic_chunking_independent", "C02_generic_one_error_per_bad_frame"],
    "C05": ["C05_generic_oneshot"],
    "C06": ["C06_generic_progress"],
    "C07": ["C07_generic_bound", "C07_generic_no_false_reject"],
}


def _existing_model_input(g: dict, case: dict, real: list[str]):
    """model run for a case of the property's own kinds whose serializer is generic (no model before)"""
    spec = case.get("spec")
    if not isinstance(spec, dict) or "inject" in case or case.get("kind") is not None:
        return None
    if not is_generic(spec):
        return None
    if g.get("SKIP") and core.case_digest(case) in g["SKIP"]:
        return None         # the property module sub-samples the model runs of its big frames (counted in its evidence)
    path = case.get("path") or case.get("mode")
    if path not in ("copy", "buffered"):
        return None
    aux = g.get("_aux", {}).get(core.case_digest(case))
    if aux is None or "chunks" not in aux:
        return None
    if any(ln.startswith(("escape", "hang", "loop", "harness-exc")) for ln in real):
        return None
    h = sers.model_head(spec, path, case.get("hint", 0), chunks=aux["chunks"], real=real)
    if h is None:
        return None
    op = "feed" if path == "copy" else "fill"
    return h, [f"{op} {core.hexs(c)}" for c in aux["chunks"]]


class _Hang(BaseException):
    pass


_HANGS = [0]
SKIPPED = "skipped: not run, the watchdog fired 3 times already in this run"


def _watchdog(fn, case, seconds: float = 4.0) -> list[str]:
    import signal

    if _HANGS[0] >= 3:
        # the code under test hangs: three witnesses are enough, do not spend 4 s on each further case
        return [SKIPPED]

    def on_alarm(signum, frame):
        raise _Hang()

    prev = signal.signal(signal.SIGALRM, on_alarm)
    signal.setitimer(signal.ITIMER_REAL, seconds)
    try:
        return fn(case)
    except _Hang:
        _HANGS[0] += 1
        return ["harness-exc hang: the receive loop did not finish within %.0f s (watchdog)" % seconds]
    finally:
        signal.setitimer(signal.ITIMER_REAL, 0)
        signal.signal(signal.SIGALRM, prev)


def install(g: dict, prop: str) -> None:
    o = {k: g.get(k) for k in ("run_real", "model_input", "model_post", "real_for_diff", "oracle", "nontrivial", "shrink",
                               "known_key", "corpus", "generate", "after_batch", "extra_coverage")}
    gen = lambda c: isinstance(c, dict) and c.get("kind") == "generic"     # noqa: E731

    def run_real(case):
        if gen(case):
            return _watchdog(run_real_generic, case)
        if isinstance(case, dict) and is_generic(case.get("spec")) and "inject" not in case and case.get("kind") is None:
            # the property's own drive loops have no item budget: a framer that hands the same bytes back for ever
            # (or never yields) would hang the check instead of failing it
            return _watchdog(o["run_real"], case)
        return o["run_real"](case)

    def model_input_(case, real):
        if real == [SKIPPED]:
            return None
        if gen(case):
            return model_input(case, real)
        r = o["model_input"](case, real) if o["model_input"] else None
        return r if r is not None else _existing_model_input(g, case, real)

    def model_post_(case, lines):
        if gen(case):
            return model_post(case, lines)
        return o["model_post"](case, lines) if o["model_post"] else lines

    def real_for_diff_(case, real):
        if gen(case):
            return real_for_diff(case, real)
        return o["real_for_diff"](case, real) if o["real_for_diff"] else real

    def oracle_(case, real):
        if real == [SKIPPED]:
            return None
        return oracle(case, real) if gen(case) else o["oracle"](case, real)

    def nontrivial_(case, real):
        if real == [SKIPPED]:
            return None
        if gen(case):
            return nontrivial(case, real)
        return o["nontrivial"](case, real) if o["nontrivial"] else "case"

    def shrink_(case):
        if gen(case):
            return shrink(case)
        return o["shrink"](case) if o["shrink"] else iter(())

    def known_key_(case, real, why):
        if gen(case):
            return known_key(case, real, why)
        return o["known_key"](case, real, why) if o["known_key"] else ""

    def corpus_():
        return (o["corpus"]() if o["corpus"] else []) + corpus(prop)

    def generate_(rng, tier, boost):
        yield from o["generate"](rng, tier, boost)
        yield from generate(prop, core.sub_rng(rng.getrandbits(32), "generic", prop), tier, boost)

    def after_batch_():
        _aux.clear()
        if o["after_batch"]:
            o["after_batch"]()

    def extra_coverage_(stats):
        d = dict(o["extra_coverage"](stats)) if o["extra_coverage"] else {}
        d["generic_framers"] = {"model_runs": COUNT["model_runs"], "loader_tables": LAW["tables"], "table_entries": LAW["entries"],
                                "loader_law_samples": LAW["samples"], "loader_law_violations": LAW["violations"],
                                "skipped_too_many_starts": LAW["skipped_too_many_starts"],
                                "direct_mode_cases_oracle_only_no_model_run": COUNT["direct_runs"],
                                "limit_error_remainders_checked": COUNT["limit_remainders_checked"],
                                "of_which_partial_terminator_of_a_separator_of_3_bytes_or_more": COUNT["limit_remainders_partial_terminator_sep3"]}
        if "serializer_models" in d:
            d["serializer_models"] += ("; [generic framers] file-based (ToyFile, PeekFile) and zlib/bz2 wrappers are now compared "
                                       "with the Lean model GenericFr (loader/decompressor supplied as a table computed with the real library)")
        return d

    def counted_model_input(case, real):
        r = model_input_(case, real)
        if r is not None and r[0].split()[0] in ("gfr", "bgfr", "gdg", "gprod"):
            COUNT["model_runs"] += 1
        return r

    g.update(run_real=run_real, model_input=counted_model_input, model_post=model_post_, real_for_diff=real_for_diff_,
             oracle=oracle_, nontrivial=nontrivial_, shrink=shrink_, known_key=known_key_, corpus=corpus_,
             generate=generate_, after_batch=after_batch_, extra_coverage=extra_coverage_)
    g["REQUIRED_THEOREMS"] = list(g.get("REQUIRED_THEOREMS", [])) + THEOREMS[prop]


COUNT = {"model_runs": 0, "direct_runs": 0, "limit_remainders_checked": 0, "limit_remainders_partial_terminator_sep3": 0}
run_real_generic = run_real
