"""
C09 — default client contexts.  `TCPNetworkClient(…, ssl=True)` / `AsyncTCPNetworkClient(…, ssl=True)` build their own context
with `ssl.create_default_context()`.  The harness replaces that stdlib function, in its own process only, by a wrapper that
calls the original, adds the committed test CA and remembers the object; the constructors' own logic then runs unchanged on it.
Observed: the OP_IGNORE_UNEXPECTED_EOF bit before / after the constructor, and — end to end over a loopback TCP connection to
an independent stdlib TLS server thread that sends one record and then drops the connection WITHOUT close_notify — what
`recv_packet()` reports.
"""
from __future__ import annotations

import asyncio
import os
import socket
import ssl
import threading
from typing import Any

from vlib import core  # noqa: F401
from vlib import c09_env as e9
from vlib import c09_sync as s9

LIMIT = s9.LIMIT
OPT = getattr(ssl, "OP_IGNORE_UNEXPECTED_EOF", 0)


class _Patch:
    def __enter__(self):
        self.orig = ssl.create_default_context
        self.made: list[tuple[ssl.SSLContext, int]] = []
        # (load_default_certs() of the original reads the system CA bundle, 30 ms per call: point OpenSSL's default verify paths
        #  at the test CA while the constructor runs)
        self.env = {k: os.environ.get(k) for k in ("SSL_CERT_FILE", "SSL_CERT_DIR")}
        os.environ["SSL_CERT_FILE"] = e9.CERT
        os.environ["SSL_CERT_DIR"] = "/nonexistent"

        def create_default_context(*a, **kw):
            ctx = self.orig(*a, **kw)
            ctx.load_verify_locations(e9.CERT)
            # the adversarial default: the bit set, as CPython >= 3.10 documents for new contexts (this build's default
            # context happens to come without it; the constructor's job is to clear it whatever the default is)
            if OPT:
                ctx.options |= OPT
            self.made.append((ctx, int(ctx.options)))
            return ctx

        ssl.create_default_context = create_default_context  # type: ignore[assignment]
        return self

    def __exit__(self, *a):
        ssl.create_default_context = self.orig  # type: ignore[assignment]
        for k, v in self.env.items():
            if v is None:
                os.environ.pop(k, None)
            else:
                os.environ[k] = v


def _ssl_in_chain(e: BaseException | None) -> bool:
    """is the TLS error visible on the exception or its cause / context chain?"""
    seen = 0
    while e is not None and seen < 10:
        if isinstance(e, ssl.SSLError):
            return True
        e = e.__cause__ or e.__context__
        seen += 1
    return False


def _server(tls: str, notify: bool, cut: int | None = None):
    """loopback listener + feeder thread started on accept; returns (port, box) — box['fd'] is the Feeder once connected; the
    feeder forwards at most `cut` bytes of the server's stream, then shuts its write side down"""
    lst = socket.socket(socket.AF_INET, socket.SOCK_STREAM)
    lst.bind(("127.0.0.1", 0))
    lst.listen(1)
    lst.settimeout(LIMIT)
    box: dict[str, Any] = {}
    peer = e9.Peer("server", tls, [6], notify)
    # the record is a complete line for the line protocol
    box["peer"] = peer

    def run():
        try:
            conn, _ = lst.accept()
        except OSError as e:
            box["problem"] = f"accept {type(e).__name__}"
            return
        finally:
            lst.close()
        fd = s9.Feeder(conn, peer, cut, 1, shut_after_script=True)
        box["fd"] = fd
        fd.run()

    th = threading.Thread(target=run, daemon=True)
    th.start()
    box["thread"] = th
    return lst.getsockname()[1], box


def _protocol():
    from easynetwork.protocol import StreamProtocol
    from easynetwork.serializers.line import StringLineSerializer
    return StreamProtocol(StringLineSerializer("LF", encoding="latin-1"))


def run_client(case: dict) -> tuple[list[str], dict[str, Any]]:
    which = case["which"]
    # "sc": null = the parameter is OMITTED (the documented default is the standard-compatible mode)
    sc_kw = {} if case.get("sc", True) is None else {"ssl_standard_compatible": bool(case.get("sc", True))}
    tls = case.get("tls", "1.3")
    notify = bool(case.get("notify", False))
    lines: list[str] = []
    port, box = _server(tls, notify, case.get("cut"))
    with _Patch() as patch:
        try:
            if which == "tcp":
                from easynetwork.clients.tcp import TCPNetworkClient
                try:
                    client = TCPNetworkClient(("127.0.0.1", port), _protocol(), ssl=True, server_hostname="localhost",
                                              connect_timeout=LIMIT, ssl_handshake_timeout=LIMIT, **sc_kw)
                except TimeoutError:
                    return ["infra-timeout client connect"], {}
                except Exception as e:  # noqa: BLE001
                    lines.append("hs exc:" + type(e).__name__)
                    client = None
                if client is not None:
                    lines.append("hs ok")
                    try:
                        for _ in range(3):
                            try:
                                p = client.recv_packet(timeout=LIMIT)
                                lines.append(f"recv packet {len(p)}")
                            except TimeoutError:
                                return ["infra-timeout client recv"], {}
                            except Exception as e:  # noqa: BLE001
                                lines.append("recv exc:" + type(e).__name__ + (":ssl" if _ssl_in_chain(e) else ""))
                                break
                    finally:
                        client.close()
            else:
                from easynetwork.clients.async_tcp import AsyncTCPNetworkClient

                async def main():
                    client = AsyncTCPNetworkClient(("127.0.0.1", port), _protocol(), ssl=True, server_hostname="localhost",
                                                   **sc_kw)
                    try:
                        try:
                            await asyncio.wait_for(client.wait_connected(), LIMIT)
                        except (TimeoutError, asyncio.TimeoutError):
                            lines.append("infra-timeout client connect")
                            return
                        except Exception as e:  # noqa: BLE001
                            lines.append("hs exc:" + type(e).__name__)
                            return
                        lines.append("hs ok")
                        for _ in range(3):
                            try:
                                p = await asyncio.wait_for(client.recv_packet(), LIMIT)
                                lines.append(f"recv packet {len(p)}")
                            except (TimeoutError, asyncio.TimeoutError):
                                lines.append("infra-timeout client recv")
                                return
                            except Exception as e:  # noqa: BLE001
                                lines.append("recv exc:" + type(e).__name__ + (":ssl" if _ssl_in_chain(e) else ""))
                                break
                    finally:
                        await client.aclose()

                asyncio.run(main())
        finally:
            made = list(patch.made)
    lines.insert(0, f"ctx-created {len(made)}")
    if made:
        ctx, before = made[0]
        lines.insert(1, f"bit-before {int(bool(before & OPT))}")
        lines.insert(2, f"bit-after {int(bool(int(ctx.options) & OPT))}")
        lines.insert(3, f"default-options {before}")
    box["thread"].join(LIMIT)
    if box["thread"].is_alive() or box.get("problem"):
        lines.append("infra-timeout " + str(box.get("problem") or "server-thread-alive"))
    return lines, {}


def payload_line() -> bytes:
    return b"hello\n"


def oracle(case: dict, real: list[str]) -> str | None:
    """ssl=True: the context the constructor built has OP_IGNORE_UNEXPECTED_EOF cleared WHATEVER the mode (what the unchanged
    constructors do: `options &= ~OP_IGNORE_UNEXPECTED_EOF`, unconditionally; with the bit left set OpenSSL itself turns a
    truncation into a clean shutdown and the mode is no longer the library's decision), and the BEHAVIOUR: the server's stream
    ended without a complete close_notify (dropped after the record, cut inside the close_notify, no close_notify at all) =>
    mode omitted / True: recv_packet() raises with the TLS error on its chain; False: the same report as a clean close."""
    sc = case.get("sc", True) is None or bool(case.get("sc", True))
    where = (f"client {case['which']} ssl=True sc={'omitted' if case.get('sc', True) is None else bool(case.get('sc', True))}"
             + (f" server stream cut at {case['cut']}" if case.get("cut") is not None else ""))
    f = {ln.split()[0]: ln.split(None, 1)[1] for ln in real if " " in ln}
    if f.get("ctx-created") != "1":
        return f"{where}: expected exactly one create_default_context() call, saw {f.get('ctx-created')}"
    why = _behaviour(case, real, where, sc, f)
    if why:
        return why
    if OPT and f.get("bit-after") != "0":
        return f"{where}: the default context still has OP_IGNORE_UNEXPECTED_EOF set after the constructor"
    return None


def _behaviour(case: dict, real: list[str], where: str, sc: bool, f: dict) -> str | None:
    if f.get("hs") != "ok":
        return f"{where}: connection / handshake failed ({f.get('hs')})"
    recv = [ln for ln in real if ln.startswith("recv ")]
    last = recv[-1] if recv else ""
    # the high-level API has no end-of-stream value: a closed connection is ConnectionAbortedError either way; what must not
    # happen is that a truncation is indistinguishable from the peer's clean close: the TLS error stays on the chain
    if not last.startswith("recv exc:"):
        return f"{where}: the connection ended but recv_packet() reports {last!r}"
    complete = bool(case.get("notify"))
    if complete and case.get("cut") is not None:
        complete = case["cut"] >= e9.baseline("client", case.get("tls", "1.3"), [6], True)["cn_end"]
    if complete:
        if last.endswith(":ssl"):
            return f"{where}: the peer closed with close_notify but recv_packet() reports a TLS error ({last})"
        return None
    if sc and not last.endswith(":ssl"):
        return (f"{where}: the connection was dropped without close_notify; recv_packet() reports it exactly like a clean "
                f"close, no TLS error on the exception chain ({last})")
    if not sc and last.endswith(":ssl"):
        return f"{where}: standard_compatible=False: an abrupt end must look like a closed connection, got {last}"
    return None


def model_input(case: dict, real: list[str]):
    d = next((ln.split()[1] for ln in real if ln.startswith("default-options ")), None)
    if d is None:
        return None
    return "tlseof misc", [f"ctx {case['which']} {d}"]


def real_for_diff(case: dict, real: list[str]) -> list[str]:
    ctx = None
    d = next((ln.split()[1] for ln in real if ln.startswith("default-options ")), None)
    after_bit = next((ln.split()[1] for ln in real if ln.startswith("bit-after ")), None)
    if d is None:
        return []
    opts = int(d) & ~OPT if after_bit == "0" else int(d)
    return ["guards ssl && isinstance(ssl, bool)", f"opts {opts}"]


def cases(tier: str) -> list[dict]:
    """both client classes x ssl_standard_compatible omitted (null) / True / False x the server's stream: no close_notify at
    all, dropped right before / cut inside / one byte before the end of its close_notify, complete"""
    out = []
    for which in ("tcp", "async_tcp"):
        for sc in (None, True, False):
            for tls in (("1.3",) if tier == "quick" else ("1.3", "1.2")):
                out.append({"kind": "client", "which": which, "sc": sc, "tls": tls})
                out.append({"kind": "client", "which": which, "sc": sc, "tls": tls, "notify": True})
                m = e9.baseline("client", tls, [6], True)
                cuts = (m["cn_start"], m["cn_start"] + 3, m["cn_end"] - 1) if tier != "quick" or sc is not False else (m["cn_start"] + 3,)
                for cut in cuts:
                    out.append({"kind": "client", "which": which, "sc": sc, "tls": tls, "notify": True, "cut": cut})
    return out
