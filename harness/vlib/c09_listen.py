"""
C09 — server side THROUGH THE LISTENER: the real `AsyncTLSListener` wraps an in-memory listener (c15_env.MemListener) whose
accepted connections are `ListenTransport`s (c09_env.CutTransport in lock-step with an independent stdlib TLS CLIENT).  The
client's stream toward the server is cut at a chosen byte offset — every offset of the client's handshake flights, and the
usual offsets after the handshake — or the handshake fails in another way.

case = {"kind": "listen", "tls": "1.2"|"1.3", "sc": bool, "eh": "default"|"custom"|"raising",
        "conns": [ {"recs": [sizes], "notify": bool, "cut": offset|None,
                    "fault": None | "stall" (after `cut` bytes nothing more arrives, no EOF either: the handshake timeout ends it)
                                  | "garbage" (the byte at offset `cut` of the client's stream is corrupted)
                                  | "cancel"  (after `cut` bytes nothing more arrives; the serving task group is cancelled - the
                                               server shuts down - while the handshake is parked),
                    "method": "recv"|"recv_into", "bufsize": n, "frag": seed, "max_frag": n,
                    "after_close": "ebadf" (a receive call on the closed raw transport raises OSError(EBADF))
                                   | "eof" (it returns 0 once the end of the stream was seen: what the asyncio stream adapter does)}, ... ]}

The handler given to `AsyncTLSListener.serve()` records what it was started with and reads until three terminal results (like the
`cut` cases).  Lines, per connection i (prefix "c<i> "):
   hs ok | hs exc:<Class>            a handler was started with an AsyncTLSStreamTransport / the handshake error handler was called
                                      (`hs none`: neither happened - only legitimate for fault=cancel)
   hs-errors <n>                     calls of the handshake error handler for this connection (attributed by order of failure)
   handler <n> <type names>          how often the connection handler was started for this connection, with what
   r data <n> | r eof | r exc:<Class> | r late-data <n> ; plain <hex>      the handler's receive loop
   inner-closed <0|1>                the accepted (raw) transport is closed when everything is over
   marks …                           the client's stream offsets (same as the cut cases)
"""
from __future__ import annotations

import asyncio
import contextlib
import logging
import ssl
from typing import Any

from vlib import core
from vlib import c09_env as e9
from vlib import c15_env as env
from vlib.c09_run import kind

from easynetwork.lowlevel.api_async.transports.tls import AsyncTLSListener, AsyncTLSStreamTransport

HANDSHAKE_TIMEOUT = 5.0

_CLR_CTX: ssl.SSLContext | None = None


def clear_openssl_error_queue() -> None:
    """CPython's `SSLObject.unwrap()` can return successfully and leave an entry in the calling thread's OpenSSL error queue
    (observed: the object has received a fatal alert - e.g. the `decode_error` OpenSSL sends when a read meets a ragged EOF -
    and `SSL_shutdown()` reports the connection as shut down: queue = `SSL alert decode error`).  `SSL_get_error()` of the
    NEXT TLS operation of the thread - any SSL object - then answers SSL_ERROR_SSL with that stale reason instead of
    WANT_READ.  Here the harness's in-process client peers and the library's transports of OTHER connections share the thread,
    so a peer of a failed connection would break a healthy one: an artefact of running the remote ends in-process.  Every
    peer operation is therefore followed by an ERR_clear_error() (a failing `set_ciphers` does it: `_setSSLError`)."""
    global _CLR_CTX
    if _CLR_CTX is None:
        _CLR_CTX = ssl.SSLContext(ssl.PROTOCOL_TLS_CLIENT)
    try:
        _CLR_CTX.set_ciphers("no-such-cipher")
    except ssl.SSLError:
        pass


class QuietPeer(e9.Peer):
    def pump(self) -> None:
        try:
            super().pump()
        finally:
            clear_openssl_error_queue()

    def read_reader(self) -> None:
        try:
            super().read_reader()
        finally:
            clear_openssl_error_queue()


class ListenTransport(e9.CutTransport):
    def __init__(self, *a, fault: str | None = None, after_close: str = "ebadf", **kw) -> None:
        super().__init__(*a, **kw)
        self.fault = fault
        self.after_close = after_close
        self.fault_at = self.cut
        if fault in ("stall", "cancel", "garbage"):
            self.cut = None
        self.recv_after_close = 0
        self.stalled = asyncio.Event()

    async def recv_into(self, buffer) -> int:
        if self.closing:
            self.recv_after_close += 1
            if self.after_close == "eof" and self.eof_reported:
                self.log.append("t recv 0 (closed)")
                await asyncio.sleep(0)
                return 0
            return await super().recv_into(buffer)
        if self.fault in ("stall", "cancel"):
            self.peer.pump()
            room = min(len(self.peer.stream), int(self.fault_at or 0)) - self.delivered
            if room <= 0:
                self.log.append("t recv park")
                self.stalled.set()
                self._parked = asyncio.get_running_loop().create_future()
                try:
                    await self._parked
                finally:
                    self._parked = None
                raise OSError(9, "transport closed")  # pragma: no cover
            with memoryview(buffer) as mv:
                mv = mv.cast("B") if mv.itemsize != 1 else mv
                n = self._pick(min(room, mv.nbytes))
                mv[:n] = self.peer.stream[self.delivered:self.delivered + n]
            self.delivered += n
            self.log.append(f"t recv {n}")
            await asyncio.sleep(0)
            return n
        if self.fault == "garbage":
            start = self.delivered
            n = await super().recv_into(buffer)
            k = int(self.fault_at or 0)
            if n and start <= k < start + n:
                with memoryview(buffer) as mv:
                    mv = mv.cast("B") if mv.itemsize != 1 else mv
                    mv[k - start] ^= 0x5A
            return n
        return await super().recv_into(buffer)


def run_listen(case: dict) -> tuple[list[str], dict[str, Any]]:
    tls = case["tls"]
    sc = bool(case.get("sc", True))
    conns = list(case["conns"])
    eh_mode = case.get("eh", "custom")
    lines: list[str] = []
    peers: list[e9.Peer] = []
    trs: list[ListenTransport] = []
    for c in conns:
        peer = QuietPeer("client", tls, list(c.get("recs") or []), bool(c.get("notify", True)))
        t = ListenTransport(peer, c.get("cut"), int(c.get("frag", 0)), max_frag=int(c.get("max_frag", 4096)),
                            fault=c.get("fault"), after_close=c.get("after_close", "ebadf"))
        peers.append(peer)
        trs.append(t)
    started: dict[int, list[str]] = {i: [] for i in range(len(conns))}
    results: dict[int, list[str]] = {i: [] for i in range(len(conns))}
    plains: dict[int, bytearray] = {i: bytearray() for i in range(len(conns))}
    hs_errors: list[BaseException] = []
    logged: list[str] = []

    def index_of(stream: Any) -> int:
        for i, t in enumerate(trs):
            if stream is t or getattr(stream, "_transport", None) is t:
                return i
        return -1

    async def handler(stream: Any) -> None:
        i = index_of(stream)
        started[i].append(type(stream).__name__)
        c = conns[i]
        method = c.get("method", "recv")
        bufsize = int(c.get("bufsize", 4096))
        out = results[i]
        term = 0
        try:
            for _ in range(100000):
                if term >= 3:
                    break
                try:
                    if method == "recv_into":
                        buf = bytearray(bufsize)
                        n = await stream.recv_into(buf)
                        d = bytes(buf[:n])
                    else:
                        d = await stream.recv(bufsize)
                except Exception as e:  # noqa: BLE001
                    out.append("r exc:" + kind(e))
                    term += 1
                    continue
                if d:
                    if term:
                        out.append(f"r late-data {len(d)}")
                        term += 1
                    else:
                        plains[i].extend(d)
                        out.append(f"r data {len(d)}")
                else:
                    out.append("r eof")
                    term += 1
        finally:
            with contextlib.suppress(Exception):
                await stream.aclose()

    def on_handshake_error(exc: Exception) -> None:
        hs_errors.append(exc)
        if eh_mode == "raising":
            raise RuntimeError("handshake error handler failed")

    class _Catch(logging.Handler):
        def emit(self, record: logging.LogRecord) -> None:
            ei = record.exc_info
            logged.append(kind(ei[1]) if ei and ei[1] is not None else record.getMessage())

    catcher = _Catch(level=logging.DEBUG)
    tls_logger = logging.getLogger("easynetwork.lowlevel.api_async.transports.tls")
    old_level, old_prop = tls_logger.level, tls_logger.propagate
    tls_logger.addHandler(catcher)
    tls_logger.setLevel(logging.DEBUG)
    tls_logger.propagate = False

    async def main() -> None:
        be = env.backend()
        base = env.MemListener(trs, be=be)          # type: ignore[arg-type]
        listener = AsyncTLSListener(base, e9.make_context("server", tls), handshake_timeout=HANDSHAKE_TIMEOUT,
                                    shutdown_timeout=5.0, standard_compatible=sc,
                                    handshake_error_handler=None if eh_mode == "default" else on_handshake_error)
        st = asyncio.ensure_future(listener.serve(handler))
        while base.all_done is None and not st.done():
            await asyncio.sleep(0)
        if any(c.get("fault") == "cancel" for c in conns):
            # the server shuts down while those handshakes are parked
            for t, c in zip(trs, conns):
                if c.get("fault") == "cancel":
                    with contextlib.suppress(asyncio.TimeoutError):
                        await asyncio.wait_for(t.stalled.wait(), 1000.0)
            st.cancel()
        elif base.all_done is not None:
            await base.all_done.wait()
        for _ in range(4):
            await asyncio.sleep(0)
        st.cancel()
        with contextlib.suppress(BaseException):
            await st
        await listener.aclose()
        lines.append("tasks " + ",".join(k for k, _ in base.task_results))

    try:
        try:
            out, _ = env.run(main, max_turns=int(case.get("max_turns", 60000)))
        except env.Stuck as e:
            lines.append("hang " + str(e))
            out = ("ok", None)
    finally:
        tls_logger.removeHandler(catcher)
        tls_logger.setLevel(old_level)
        tls_logger.propagate = old_prop
    if out[0] == "exc":
        lines.append("main-exc " + kind(out[1]))
    # which connection does a reported handshake error belong to?  the connections whose handler was not started with a TLS
    # transport, in the order in which their raw transports were closed (one error each)
    errs = [kind(e) for e in hs_errors] if eh_mode != "default" else list(logged)
    failed = [i for i in range(len(conns)) if "AsyncTLSStreamTransport" not in started[i]]
    per: dict[int, list[str]] = {i: [] for i in range(len(conns))}
    if len(conns) == 1:
        per[0] = errs
    else:
        # (multi-connection cases: every failed connection gets one error; surplus / missing ones show up in `hs-errors-total`)
        for i, e in zip(failed, errs):
            per[i] = [e]
    lines.append(f"hs-errors-total {len(errs)} failed-connections {len(failed)}")
    if eh_mode == "raising":
        lines.append("logged " + (",".join(logged) or "-"))
    for i, (c, peer, t) in enumerate(zip(conns, peers, trs)):
        p = f"c{i} "
        if "AsyncTLSStreamTransport" in started[i]:
            lines.append(p + "hs ok")
        elif per[i]:
            lines.append(p + "hs exc:" + per[i][0])
        else:
            lines.append(p + "hs none")
        lines.append(p + f"hs-errors {len(per[i])}")
        lines.append(p + f"handler {len(started[i])} " + (",".join(started[i]) or "-"))
        lines.extend(p + r for r in results[i])
        lines.append(p + "plain " + core.hexs(bytes(plains[i])))
        lines.append(p + f"inner-closed {int(t.closed)}")
        lines.append(p + f"recv-after-close {t.recv_after_close}")
        m = peer.marks()
        lines.append(p + f"marks hs_end={m['hs_end']} cn_start={m['cn_start']} cn_end={m['cn_end']} total={m['total']} "
                         f"delivered={t.delivered}")
    return lines, {}
