"""
C08 — full-duplex sessions with BACKPRESSURE.

  run_duplex(case)   two REAL AsyncTLSStreamTransport endpoints (real OpenSSL, committed certificate), each made by its own
                     wrap(), joined by two BOUNDED in-memory pipes (capacity `cap` bytes per direction).  The wrapped
                     transport's `send_all` copies into the pipe while there is room and SUSPENDS while the pipe is full
                     (exactly what a socket with a full send buffer does); `recv_into` takes what is there and wakes the
                     sender.  On each side: one reader task and one or two sender tasks, all running at the same time, the
                     senders writing more than the pipe holds.

Everything runs on the virtual-time loop of c08_env: "no runnable task, nothing scheduled, main not done" is detected
exactly (Hang) and reported as a deadlock — a RESULT of the run, independent of the load of the machine.

Side "a" is recorded (logged locks, recording proxy around the real SSLObject, logged wrapped transport) and replayed to the
Lean wrapper machine like the other session cases; side "b" is a plain second AsyncTLSStreamTransport.

case = {"kind": "duplex", "seed": n, "cap": bytes per pipe, "ver": "1.3" | "1.2", "role": "client" | "server" (side a),
        "a_send": [[size…] per sender task] (1 or 2 tasks), "b_send": the same for side b,
        "a_recv": ["recv" | "recvinto", bufsize], "b_recv": bufsize,
        "order": "readers-first" | "senders-first" | "mixed",       order in which the tasks are created
        "start": {"a1": k, "a2": k, "a3": k, "b1": k, "b2": k, "b3": k}   bare yields before a task starts (default 0)
        "b_after": n   side b's senders start only once b's reader has received n bytes (request / response), default 0
        "frag": [a, b] largest piece the pipe hands to one recv_into of side a / b (0 = everything)
        "chunk": [a, b] bytes copied per step of send_all, with a yield between two steps (0 = as much as fits)
        "lend": bool   the wrapped transports KEEP the buffer given to recv_into across the suspension and a loop callback
                       fills it one loop iteration BEFORE the waiting task resumes (what asyncio's BufferedProtocol does:
                       get_buffer() returns the caller's buffer, the selector callback fills it, buffer_updated() resolves a
                       future).  Both ends live in this process and both readers are parked at the same time, so two
                       deliveries land in the same loop iteration: a buffer (or any other state) shared between two
                       transports, or a buffer re-used while it is lent, shows up as corrupted ciphertext.  Default false.}
"""
from __future__ import annotations

import asyncio
from typing import Any

from vlib import core
from vlib import c08_env as env
from vlib import c08_run as R

from easynetwork.lowlevel.api_async.transports.abc import AsyncStreamTransport
from easynetwork.lowlevel.api_async.transports.tls import AsyncTLSStreamTransport


class Pipe:
    """one direction: a bounded FIFO of bytes"""

    def __init__(self, cap: int) -> None:
        self.cap = max(1, int(cap))
        self.buf = bytearray()
        self.data_waiters: list[asyncio.Future] = []
        self.space_waiters: list[asyncio.Future] = []
        self.closed = False
        self.full_waits = 0            # how many times a sender had to wait for room (backpressure really happened)
        self.total = 0
        self.reader_cb = None          # "lend" mode: the delivery callback of the transport whose recv_into is parked

    def notify_reader(self) -> None:
        """lend mode: something changed (bytes arrived / closed) -> the delivery runs as a LOOP CALLBACK, like a selector event"""
        cb = self.reader_cb
        if cb is not None:
            asyncio.get_running_loop().call_soon(cb)

    @staticmethod
    def _wake(ws: list[asyncio.Future]) -> None:
        for w in ws:
            if not w.done():
                w.set_result(None)
        ws.clear()

    async def _wait(self, ws: list[asyncio.Future]) -> None:
        fut = asyncio.get_running_loop().create_future()
        ws.append(fut)
        try:
            await fut
        finally:
            if fut in ws:
                ws.remove(fut)

    def close(self) -> None:
        self.closed = True
        self._wake(self.data_waiters)
        self._wake(self.space_waiters)
        try:
            self.notify_reader()
        except RuntimeError:           # closed from outside a running loop (tear-down)
            pass


class PipeTransport(AsyncStreamTransport):
    """one end of a pair of bounded pipes (EasyNetwork's own transport ABC).  `rec` = the recorder of side a, or None."""

    def __init__(self, backend: env.HBackend, rec: env.Rec | None, inp: Pipe, out: Pipe, *, frag: int = 0, chunk: int = 0,
                 lend: bool = False) -> None:
        super().__init__()
        self._backend = backend
        self.rec = rec
        self.inp, self.out = inp, out
        self.frag, self.chunk = int(frag), int(chunk)
        self.lend = bool(lend)
        self.collisions = 0            # lend mode: deliveries made while the peer's lent buffer was filled but not yet read
        self.filled_unread = False
        self.peer_tr: "PipeTransport | None" = None
        self.classify = None
        self.sent: list[bytes] = []
        self.taken = bytearray()
        self.active_recv = 0
        self.active_send = 0
        self.overlap: list[str] = []
        self.closing = False

    def backend(self):
        return self._backend

    def is_closing(self) -> bool:
        return self.closing

    @property
    def extra_attributes(self):
        return {}

    def _line(self, s: str) -> None:
        if self.rec is not None:
            self.rec.line(s)

    def _op(self, s: str) -> None:
        if self.rec is not None:
            self.rec.op(s)

    async def aclose(self) -> None:
        self._line(f"inner.aclose {env.cur()}")
        self.closing = True
        self.out.close()
        self.inp.close()
        await asyncio.sleep(0)

    async def _recv_lent(self, buffer) -> tuple[int, bytes]:
        """the buffer is LENT: it stays with the transport while the caller is suspended; a loop callback copies the bytes
        into it and resolves the future, the caller resumes one loop iteration later"""
        loop = asyncio.get_running_loop()
        fut: asyncio.Future = loop.create_future()
        with memoryview(buffer) as mv0:
            mv = mv0.cast("B") if mv0.itemsize != 1 else mv0

            def deliver() -> None:
                if fut.done():
                    return
                if not self.inp.buf:
                    if self.inp.closed or self.closing:
                        fut.set_result((0, b""))
                    return                                      # nothing yet: the next write schedules another delivery
                n = min(len(self.inp.buf), mv.nbytes, self.frag or (1 << 30))
                data = bytes(self.inp.buf[:n])
                mv[:n] = data
                del self.inp.buf[:n]
                self.taken += data
                self.filled_unread = True
                if self.peer_tr is not None and self.peer_tr.filled_unread:
                    self.collisions += 1
                Pipe._wake(self.inp.space_waiters)
                fut.set_result((n, data))

            self.inp.reader_cb = deliver
            try:
                loop.call_soon(deliver)                         # (bytes may be there already: "the socket is readable")
                return await fut
            finally:
                self.inp.reader_cb = None
                self.filled_unread = False

    async def recv_into(self, buffer) -> int:
        t = env.cur()
        self._line(f"rcv {t}")
        self.active_recv += 1
        if self.active_recv > 1:
            self.overlap.append("recv_into")
        try:
            if self.lend and memoryview(buffer).nbytes:
                n, data = await self._recv_lent(buffer)
                if n == 0:
                    self._op(f"resume {t} eof")
                    return 0
                self._op(f"resume {t} data {data.hex()}")
                return n
            while not self.inp.buf:
                if self.inp.closed or self.closing:
                    self._op(f"resume {t} eof")
                    return 0
                await self.inp._wait(self.inp.data_waiters)
            with memoryview(buffer) as mv:
                mv = mv.cast("B") if mv.itemsize != 1 else mv
                n = min(len(self.inp.buf), mv.nbytes, self.frag or (1 << 30))
                data = bytes(self.inp.buf[:n])
                mv[:n] = data
            del self.inp.buf[:n]
            self.taken += data
            Pipe._wake(self.inp.space_waiters)
            self._op(f"resume {t} data {data.hex()}")
            return n
        finally:
            self.active_recv -= 1

    async def send_all(self, data) -> None:
        t = env.cur()
        data = bytes(data)
        self.sent.append(data)
        kind = self.classify(data) if self.classify is not None else ("empty" if not data else "bio")
        self._line(f"xmit {t} {len(data)} {kind}")
        self.active_send += 1
        if self.active_send > 1:
            self.overlap.append("send_all")
        try:
            view = memoryview(data)
            while len(view):
                while len(self.out.buf) >= self.out.cap:           # the pipe is full: backpressure
                    if self.out.closed or self.closing:
                        self._op(f"resume {t} err")
                        raise OSError(32, "pipe closed")
                    self.out.full_waits += 1
                    await self.out._wait(self.out.space_waiters)
                k = min(self.out.cap - len(self.out.buf), len(view), self.chunk or (1 << 30))
                self.out.buf += view[:k]
                self.out.total += k
                view = view[k:]
                Pipe._wake(self.out.data_waiters)
                self.out.notify_reader()
                if len(view) and self.chunk:
                    await asyncio.sleep(0)
        finally:
            self.active_send -= 1
        self._op(f"resume {t} ok")

    async def send_eof(self) -> None:
        await asyncio.sleep(0)


def _sizes(tasks: list) -> int:
    return sum(sum(t) for t in tasks)


def run_duplex(case: dict) -> list[str]:
    rec = env.Rec()
    seed = case["seed"]
    ver = case.get("ver", "1.3")
    role = case.get("role", "client")
    a_send: list[list[int]] = [list(x) for x in case.get("a_send", [[]])][:2]
    b_send: list[list[int]] = [list(x) for x in case.get("b_send", [[]])][:2]
    total_a, total_b = _sizes(a_send), _sizes(b_send)
    src_a = R.plaintext(seed, "dup-a", total_a)
    src_b = R.plaintext(seed, "dup-b", total_b)
    start = case.get("start") or {}
    b_after = min(int(case.get("b_after", 0)), total_a)
    box: dict[str, Any] = {"stage": "handshake", "a_written": bytearray(), "b_written": bytearray(),
                           "a_received": bytearray(), "b_received": bytearray(), "pos_a": 0, "pos_b": 0, "errors": [],
                           "done": [], "inflight_a": 0, "inflight_b": 0, "left_behind": []}

    async def a_reader(tls) -> None:
        await env.pause(start.get("a1", 0))
        t = env.cur()
        op = case.get("a_recv") or ["recv", 16384]
        while len(box["a_received"]) < total_b:
            try:
                if op[0] == "recv":
                    rec.op(f"call {t} recv {op[1]}")
                    data = await tls.recv(op[1])
                else:
                    buf = bytearray(op[1])
                    rec.op(f"call {t} recvinto {op[1]}")
                    n = await tls.recv_into(buf)
                    data = bytes(buf[:n])
            except Exception as e:  # noqa: BLE001
                rec.line(f"ret {t} raise {R.errname(e)}")
                box["errors"].append(f"a-reader {R.errname(e)}")
                return
            rec.line(f"ret {t} data {env.fmt(data)}")
            if not data:
                box["errors"].append("a-reader eof")
                return
            box["a_received"] += data
        box["done"].append("a1")

    async def a_sender(tls, sizes: list[int], key: str) -> None:
        await env.pause(start.get(key, 0))
        t = env.cur()
        for n in sizes:
            d = src_a[box["pos_a"]:box["pos_a"] + n]
            box["pos_a"] += n
            box["a_written"] += d               # plaintext order = order of the send_all calls (no await before the write loop)
            rec.op(f"call {t} send {core.hexs(d)}")
            box["inflight_a"] += 1
            try:
                await tls.send_all(d)
            except Exception as e:  # noqa: BLE001
                rec.line(f"ret {t} raise {R.errname(e)}")
                box["errors"].append(f"a-sender {R.errname(e)}")
                return
            finally:
                box["inflight_a"] -= 1
            rec.line(f"ret {t} sent")
            # a write call has returned: unless another write call of this side is in progress, the outgoing BIO is empty
            if box["inflight_a"] == 0 and (tls._write_bio.pending or tls._data_deque):
                box["left_behind"].append(f"a:{key}:{n}:pending={tls._write_bio.pending}:backlog={len(tls._data_deque)}")
        box["done"].append(key)

    async def b_reader(tls) -> None:
        await env.pause(start.get("b1", 0))
        size = int(case.get("b_recv") or 16384)
        while len(box["b_received"]) < total_a:
            try:
                data = await tls.recv(size)
            except Exception as e:  # noqa: BLE001
                box["errors"].append(f"b-reader {R.errname(e)}")
                return
            if not data:
                box["errors"].append("b-reader eof")
                return
            box["b_received"] += data
            ev = box.get("b_gate")
            if ev is not None and len(box["b_received"]) >= b_after:
                ev.set()
        box["done"].append("b1")

    async def b_sender(tls, sizes: list[int], key: str) -> None:
        await env.pause(start.get(key, 0))
        if b_after:
            await box["b_gate"].wait()
        for n in sizes:
            d = src_b[box["pos_b"]:box["pos_b"] + n]
            box["pos_b"] += n
            box["b_written"] += d
            box["inflight_b"] += 1
            try:
                await tls.send_all(d)
            except Exception as e:  # noqa: BLE001
                box["errors"].append(f"b-sender {R.errname(e)}")
                return
            finally:
                box["inflight_b"] -= 1
            if box["inflight_b"] == 0 and (tls._write_bio.pending or tls._data_deque):
                box["left_behind"].append(f"b:{key}:{n}:pending={tls._write_bio.pending}:backlog={len(tls._data_deque)}")
        box["done"].append(key)

    async def main() -> None:
        cap = int(case.get("cap", 65536))
        frag = case.get("frag") or [0, 0]
        chunk = case.get("chunk") or [0, 0]
        ab, ba = Pipe(cap), Pipe(cap)
        box["ab"], box["ba"] = ab, ba
        lend = bool(case.get("lend"))
        A = PipeTransport(env.HBackend(rec), rec, ba, ab, frag=frag[0], chunk=chunk[0], lend=lend)
        B = PipeTransport(env.HBackend(None), None, ab, ba, frag=frag[1], chunk=chunk[1], lend=lend)
        A.peer_tr, B.peer_tr = B, A
        box["A"], box["B"] = A, B
        box["b_gate"] = asyncio.Event()
        a_server = role == "server"
        ctx = env.RecordingContext(rec, R.server_ctx(ver, 0) if a_server else R.client_ctx(ver))
        peer_ctx = R.client_ctx(ver) if a_server else R.server_ctx(ver, 0)
        box["ctx"] = ctx
        off = [0]

        def classify(data: bytes) -> str:
            eng = ctx.engine
            if not data:
                return "empty"
            if eng is not None and bytes(eng.out_all[off[0]:off[0] + len(data)]) == data:
                off[0] += len(data)
                return "bio"
            return "mixed"

        A.classify = classify
        loop = asyncio.get_running_loop()

        async def peer_wrap():
            return await AsyncTLSStreamTransport.wrap(B, peer_ctx, server_side=not a_server,
                                                      server_hostname=None if not a_server else "localhost",
                                                      handshake_timeout=1e9)

        peer_hs = loop.create_task(peer_wrap(), name="peer-hs")
        rec.op("call 0 hs")
        try:
            tls_a = await AsyncTLSStreamTransport.wrap(A, ctx, server_side=a_server,  # type: ignore[arg-type]
                                                       server_hostname=None if a_server else "localhost",
                                                       handshake_timeout=1e9)
        except Exception as e:  # noqa: BLE001
            rec.line(f"ret 0 raise {R.errname(e)}")
            box["hs_error"] = R.errname(e)
            peer_hs.cancel()
            return
        rec.line("ret 0 hs-ok")
        box["tls"] = tls_a
        try:
            tls_b = await peer_hs
        except Exception as e:  # noqa: BLE001
            box["hs_error"] = "peer:" + type(e).__name__
            return
        box["stage"] = "transfer"
        readers = [(a_reader(tls_a), "1"), (b_reader(tls_b), "b1")]
        senders = [(a_sender(tls_a, s, f"a{i + 2}"), str(i + 2)) for i, s in enumerate(a_send)]
        senders += [(b_sender(tls_b, s, f"b{i + 2}"), f"b{i + 2}") for i, s in enumerate(b_send)]
        order = case.get("order", "readers-first")
        if order == "readers-first":
            plan = readers + senders
        elif order == "senders-first":
            plan = senders + readers
        else:                                   # a's reader, everybody's senders, b's reader
            plan = readers[:1] + senders + readers[1:]
        tasks = [loop.create_task(c, name=name) for c, name in plan]
        await asyncio.gather(*tasks)
        box["stage"] = "done"
        box["final"] = f"bio-eof r=0 w=0 backlog={len(tls_a._data_deque)} pending={tls_a._write_bio.pending}"
        rec.enabled = False
        A.closing = True
        B.closing = True
        ab.close()
        ba.close()

    out, loop = env.run(main)
    lines = list(rec.entries)
    if out[0] == "hang":
        ab, ba = box.get("ab"), box.get("ba")
        fill = f" pipe-a2b={len(ab.buf)}/{ab.cap} pipe-b2a={len(ba.buf)}/{ba.cap}" if ab is not None and ba is not None else ""
        lines.append(f"deadlock stage={box['stage']} {out[1]};{fill} finished={','.join(sorted(box['done'])) or '-'}")
    elif out[0] == "exc":
        lines.append(f"harness-exc {type(out[1]).__name__}: {out[1]}")
    elif "final" in box:
        lines.append(box["final"])
    if loop.unhandled:
        lines.append("unhandled " + "|".join(loop.unhandled))
    A, ctx = box.get("A"), box.get("ctx")
    if "hs_error" in box:
        lines.append(f"o.hs-error {box['hs_error']}")
    if box["errors"]:
        lines.append("o.task-error " + ",".join(box["errors"]).replace(" ", ":"))
    if box["left_behind"]:
        lines.append("o.left-behind " + ",".join(box["left_behind"]))
    if A is not None:
        aw, bw = bytes(box["a_written"]), bytes(box["b_written"])
        ar, br = bytes(box["a_received"]), bytes(box["b_received"])
        lines.append(f"o.a2b written={R.dg(aw)} received={R.dg(br)} prefix={int(aw.startswith(br))} planned={total_a}")
        lines.append(f"o.b2a written={R.dg(bw)} received={R.dg(ar)} prefix={int(bw.startswith(ar))} planned={total_b}")
        wire = b"".join(A.sent)
        ops = [["send", n] for s in a_send for n in s]
        leak = R._leak(wire, aw, ops) if len(aw) == total_a and len(a_send) == 1 else None
        lines.append(f"o.leak {leak if leak is not None else '-'}")
        B = box.get("B")
        lines.append("o.overlap " + (",".join(sorted(set(A.overlap + (B.overlap if B is not None else [])))) or "-"))
        ab, ba = box.get("ab"), box.get("ba")
        if ab is not None and ba is not None:
            lines.append(f"o.backpressure a2b={ab.full_waits} b2a={ba.full_waits} cap={ab.cap}")
        if case.get("lend") and B is not None:
            # how many deliveries filled one side's lent buffer while the other side's was filled and not yet read
            lines.append(f"o.lent-collisions {A.collisions + B.collisions}")
        eng = ctx.engine if ctx is not None else None
        if eng is not None:
            lines.append(f"o.wire-is-bio {int(bytes(eng.out_all).startswith(wire))} wire={len(wire)} out={len(eng.out_all)}")
            lines.append(f"o.accepted-prefix {int(aw.startswith(bytes(eng.accepted)))} accepted={len(eng.accepted)}")
            if out[0] == "ok":
                for msg in R.check_laws(eng, bytes(A.taken), ver, 0):
                    lines.append("o.law " + msg)
    return lines
