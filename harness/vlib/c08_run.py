"""
C08 runners.

  run_script(case)    the REAL AsyncTLSStreamTransport, created by its own `wrap()`, around a ScriptedEngine, over a MemTransport,
                      a reader task ("1"), a writer task ("2") and optionally a second writer ("3") on the virtual-time loop
  run_session(case)   the same transport around a REAL ssl.SSLObject (RecordingSSLObject), talking over an in-memory pipe that
                      re-fragments the ciphertext to an independent stdlib-ssl peer (or to a second, unrecorded
                      AsyncTLSStreamTransport); both directions active
  run_blocking(case)  SSLStreamTransport over a socketpair, a relay thread re-fragments the ciphertext, stdlib SSLSocket peer

All return canonical lines:
    <driver-format line>       what the wrapper did (compared with the Lean model)
    op … / eng …               the model's inputs (schedule, environment answers, engine answers)
    o.<key> …                  raw material for the oracle
"""
from __future__ import annotations

import array
import asyncio
import errno
import random
import ssl
from pathlib import Path
from typing import Any

from vlib import core
from vlib import c08_env as env

from easynetwork.lowlevel.api_async.transports.tls import AsyncTLSStreamTransport

CERT = str(Path(__file__).with_name("c14_certs") / "cert.pem")
KEY = str(Path(__file__).with_name("c14_certs") / "key.pem")


def errname(e: BaseException) -> str:
    if isinstance(e, ssl.SSLZeroReturnError):
        return "sslzeroreturn"
    if isinstance(e, ssl.SSLEOFError):
        return "ssleof"
    if isinstance(e, ssl.SSLError):
        return "sslerror"
    if isinstance(e, OSError):
        return "connreset" if e.errno == errno.ECONNRESET else "oserror"
    if isinstance(e, asyncio.CancelledError):
        return "cancelled"
    return type(e).__name__


def dg(b: bytes) -> str:
    return env.fmt(bytes(b))


# ------------------------------------------------------------------------------------------------
# (i) scripted engine
# ------------------------------------------------------------------------------------------------

def _chunks_of(op: list) -> list[bytes]:
    if op[0] in ("send", "sendw"):
        return [bytes.fromhex(op[1])]
    return [bytes.fromhex(h) for h in op[1]]


def run_script(case: dict) -> list[str]:
    rec = env.Rec()
    box: dict[str, Any] = {"written": bytearray(), "returned": bytearray(), "marks": []}

    async def reader(tls, ops: list, start: float) -> None:
        await env.pause(start)
        t = env.cur()
        for op in ops:
            try:
                if op[0] == "recv":
                    rec.op(f"call {t} recv {op[1]}")
                    data = await tls.recv(op[1])
                else:
                    buf = bytearray(op[1])
                    rec.op(f"call {t} recvinto {op[1]}")
                    n = await tls.recv_into(buf)
                    data = bytes(buf[:n])
            except Exception as e:  # noqa: BLE001
                rec.line(f"ret {t} raise {errname(e)}")
                break
            box["returned"] += data
            rec.line(f"ret {t} data {env.fmt(data)}")
            if len(op) > 2:
                await env.pause(op[2])

    async def writer(tls, ops: list, start: float) -> None:
        await env.pause(start)
        t = env.cur()
        for op in ops:
            chunks = _chunks_of(op)
            box["written"] += b"".join(chunks)
            mark = len(box["written"])
            try:
                if op[0] == "send":
                    rec.op(f"call {t} send {core.hexs(chunks[0])}")
                    await tls.send_all(chunks[0])
                elif op[0] == "sendw":
                    rec.op(f"call {t} send {core.hexs(chunks[0])}")
                    await tls.send_all(memoryview(array.array("H", chunks[0])))
                else:
                    rec.op(f"call {t} senditer" + "".join(" " + core.hexs(c) for c in chunks))
                    await tls.send_all_from_iterable(iter(chunks))
            except Exception as e:  # noqa: BLE001
                rec.line(f"ret {t} raise {errname(e)}")
                break
            rec.line(f"ret {t} sent")
            box["marks"].append((t, mark, len(box["engine"].accepted)))

    async def main() -> None:
        net = case.get("net", {})
        backend = env.HBackend(rec)
        tr = env.MemTransport(backend, rec, frags=net.get("frags"), rpause=net.get("rpause"), spause=net.get("spause"),
                              recv_err_at=net.get("recv_err_at", 0), send_err_at=net.get("send_err_at", 0))
        box["tr"] = tr
        tr.feed(bytes((i * 7 + 3) % 251 for i in range(net.get("incoming", 0))))
        tr.feed_eof()
        ctx = env.ScriptedContext(rec, case.get("hs", []), case.get("reads", []), case.get("writes", []))
        box["ctx"] = ctx
        off = [0]

        def classify(data: bytes) -> str:
            eng = ctx.engine
            if not data:
                return "empty"
            if eng is not None and bytes(eng.out_all[off[0]:off[0] + len(data)]) == data:
                off[0] += len(data)
                return "bio"
            return "plain" if all(x < 0x80 for x in data) else "mixed"

        tr.classify = classify
        rec.op("call 0 hs")
        try:
            tls = await AsyncTLSStreamTransport.wrap(tr, ctx, server_hostname="c08.test",  # type: ignore[arg-type]
                                                     handshake_timeout=1e9,
                                                     standard_compatible=bool(case.get("compat", True)))
        except Exception as e:  # noqa: BLE001
            box["engine"] = ctx.engine
            rec.line(f"ret 0 raise {errname(e)}")
            return
        rec.line("ret 0 hs-ok")
        box["engine"] = ctx.engine
        box["tls"] = tls
        loop = asyncio.get_running_loop()
        start = case.get("start", {})
        tasks = [loop.create_task(reader(tls, case.get("reader", []), start.get("1", 0)), name="1"),
                 loop.create_task(writer(tls, case.get("writer", []), start.get("2", 0)), name="2")]
        if case.get("writer2"):
            tasks.append(loop.create_task(writer(tls, case["writer2"], start.get("3", 0)), name="3"))
        await asyncio.gather(*tasks)

    out, loop = env.run(main)
    lines = list(rec.entries)
    eng = box.get("engine")
    tls = box.get("tls")
    tr = box.get("tr")
    if out[0] == "hang":
        lines.append("deadlock " + out[1])
    elif out[0] == "exc":
        lines.append(f"harness-exc {type(out[1]).__name__}: {out[1]}")
    elif eng is not None:
        backlog = len(tls._data_deque) if tls is not None else 0
        pending = eng.wbio.pending          # before the probes, which may add a byte
        lines.append(f"bio-eof r={int(env.bio_eof(eng.rbio))} w={int(env.bio_eof(eng.wbio))} backlog={backlog} pending={pending}")
    if loop.unhandled:
        lines.append("unhandled " + "|".join(loop.unhandled))
    if eng is not None and tr is not None:
        lines.append(f"o.written {core.hexs(bytes(box['written']))}")
        lines.append(f"o.accepted {core.hexs(bytes(eng.accepted))}")
        lines.append(f"o.handed {core.hexs(bytes(eng.handed))}")
        lines.append(f"o.returned {core.hexs(bytes(box['returned']))}")
        wire = b"".join(tr.sent)
        lines.append(f"o.wire-is-bio {int(bytes(eng.out_all).startswith(wire))} wire={len(wire)} out={len(eng.out_all)}")
        lines.append(f"o.wire-has-plain {int(any(x < 0x80 for x in wire))}")
        lines.append(f"o.fed-is-taken {int(bytes(tr.taken).startswith(bytes(eng.consumed)))} taken={len(tr.taken)} consumed={len(eng.consumed)}")
        lines.append("o.marks " + (",".join(f"{t}:{m}:{a}" for t, m, a in box["marks"]) or "-"))
        lines.append("o.overlap " + (",".join(tr.overlap) or "-"))
    return lines


# ------------------------------------------------------------------------------------------------
# (ii) real OpenSSL sessions
# ------------------------------------------------------------------------------------------------

_CTX: dict[tuple, ssl.SSLContext] = {}


def server_ctx(ver: str, tickets: int) -> ssl.SSLContext:
    key = ("s", ver, tickets)
    if key not in _CTX:
        c = ssl.SSLContext(ssl.PROTOCOL_TLS_SERVER)
        c.load_cert_chain(CERT, KEY)
        if ver == "1.2":
            c.maximum_version = ssl.TLSVersion.TLSv1_2
        else:
            c.minimum_version = ssl.TLSVersion.TLSv1_3
        c.num_tickets = tickets
        _CTX[key] = c
    return _CTX[key]


def client_ctx(ver: str) -> ssl.SSLContext:
    key = ("c", ver)
    if key not in _CTX:
        c = ssl.create_default_context(cafile=CERT)
        if ver == "1.2":
            c.maximum_version = ssl.TLSVersion.TLSv1_2
        else:
            c.minimum_version = ssl.TLSVersion.TLSv1_3
        _CTX[key] = c
    return _CTX[key]


def plaintext(seed: int, tag: str, n: int) -> bytes:
    return random.Random(f"c08-{seed}-{tag}").randbytes(n)


class RawPeer:
    """independent stdlib-ssl endpoint: an ssl.SSLObject over two MemoryBIOs, pumped by harness tasks over `tr`"""

    def __init__(self, tr: env.MemTransport, ctx: ssl.SSLContext, server_side: bool) -> None:
        self.tr = tr
        self.inc, self.out = ssl.MemoryBIO(), ssl.MemoryBIO()
        self.obj = ctx.wrap_bio(self.inc, self.out, server_side=server_side,
                                server_hostname=None if server_side else "localhost")
        self.flush_lock = asyncio.Lock()
        self.recv_lock = asyncio.Lock()
        self.received = bytearray()
        self.error: str | None = None

    async def flush(self) -> None:
        async with self.flush_lock:
            if self.out.pending:
                await self.tr.send_all(self.out.read())

    async def pump(self, method, *args):
        buf = bytearray(65536)
        while True:
            try:
                r = method(*args)
            except ssl.SSLWantReadError:
                await self.flush()
                async with self.recv_lock:
                    if self.inc.pending:      # somebody else fed the BIO while we waited for the lock
                        continue
                    n = await self.tr.recv_into(buf)
                    if n == 0:
                        self.inc.write_eof()
                    else:
                        self.inc.write(bytes(buf[:n]))
            except ssl.SSLWantWriteError:
                await self.flush()
            else:
                await self.flush()
                return r

    async def handshake(self) -> None:
        await self.pump(self.obj.do_handshake)

    async def read_until(self, total: int, sizes: list[int]) -> None:
        i = 0
        while len(self.received) < total:
            try:
                d = await self.pump(self.obj.read, sizes[i % len(sizes)])
            except ssl.SSLZeroReturnError:
                break
            except (ssl.SSLError, OSError) as e:
                self.error = f"{type(e).__name__}:{getattr(e, 'reason', '')}"
                break
            i += 1
            if not d:
                break
            self.received += d

    async def write_all(self, chunks: list[bytes], pauses: list[float]) -> None:
        for i, c in enumerate(chunks):
            view = memoryview(c)
            while len(view):
                n = await self.pump(self.obj.write, view)
                view = view[n:]
            await env.pause(pauses[i % len(pauses)] if pauses else 0)


class EasyPeer:
    """the other side is a second, unrecorded AsyncTLSStreamTransport"""

    def __init__(self, tr: env.MemTransport, ctx: ssl.SSLContext, server_side: bool) -> None:
        self.tr, self.ctx, self.server_side = tr, ctx, server_side
        self.tls: AsyncTLSStreamTransport | None = None
        self.received = bytearray()
        self.error: str | None = None

    async def handshake(self) -> None:
        self.tls = await AsyncTLSStreamTransport.wrap(self.tr, self.ctx, server_side=self.server_side,
                                                      server_hostname=None if self.server_side else "localhost",
                                                      handshake_timeout=1e9)

    async def read_until(self, total: int, sizes: list[int]) -> None:
        assert self.tls is not None
        i = 0
        while len(self.received) < total:
            try:
                d = await self.tls.recv(sizes[i % len(sizes)])
            except (ssl.SSLError, OSError) as e:
                self.error = f"{type(e).__name__}:{getattr(e, 'reason', '')}"
                break
            i += 1
            if not d:
                break
            self.received += d

    async def write_all(self, chunks: list[bytes], pauses: list[float]) -> None:
        assert self.tls is not None
        for i, c in enumerate(chunks):
            await self.tls.send_all(c)
            await env.pause(pauses[i % len(pauses)] if pauses else 0)


def parse_records(blob: bytes) -> tuple[list[tuple[int, int]], int]:
    """TLS record headers in `blob`: ([(type, length)…] of the COMPLETE records, number of bytes they span)"""
    i, recs = 0, []
    while i + 5 <= len(blob):
        ln = int.from_bytes(blob[i + 3:i + 5], "big")
        if i + 5 + ln > len(blob):
            break
        recs.append((blob[i], ln))
        i += 5 + ln
    return recs, i


def check_laws(eng: env.RecordingSSLObject, taken: bytes, ver: str, tickets: int) -> list[str]:
    """TlsLaws on the recorded trace of the side under test (assumption validation).
    W  every call leaves the outgoing stream at a record boundary (whole records only);
    W' TLS 1.3: the records appended by `write -> ok n` are application-data records carrying exactly n plaintext bytes;
    R  (TLS 1.3, no session tickets) `read -> WANT_READ` only when every complete record fed so far has been handed out,
       and what `read` has handed out never exceeds what the complete records fed so far carry."""
    bad: list[str] = []
    out_pos = 0
    consumed = 0
    hs_off: int | None = None
    handed = 0
    for k, c in enumerate(eng.calls):
        cout = bytes(c["cout"])
        recs, span = parse_records(cout)
        if span != len(cout) or any(t not in (20, 21, 22, 23) for t, _ in recs):
            bad.append(f"call {k} ({c['kind']} -> {c['out']}): output of {len(cout)} bytes is not a sequence of whole TLS records")
        out_pos += len(cout)
        if c["kind"] == "write" and c["out"] == "ok" and ver == "1.3":
            carried = sum(ln - 17 for t, ln in recs if t == 23)
            if carried != c["n"] or any(t != 23 for t, _ in recs):
                bad.append(f"call {k}: write accepted {c['n']} bytes but appended records carrying {carried}")
        fed = consumed + c["pend"]
        consumed += c["cin"]
        if c["kind"] == "hs" and c["out"] == "ok" and hs_off is None:
            hs_off = consumed
        if c["kind"] == "read" and ver == "1.3" and tickets == 0 and hs_off is not None:
            recs_in, _ = parse_records(bytes(taken[hs_off:fed]))
            avail = sum(max(ln - 17, 0) for t, ln in recs_in if t == 23)
            if c["out"] == "ok":
                handed += len(c["data"])
                if handed > avail:
                    bad.append(f"call {k}: read handed out {handed} bytes in total, complete records fed so far carry {avail}")
            elif c["out"] == "wantread" and handed != avail:
                bad.append(f"call {k}: read -> WANT_READ although complete records carrying {avail - handed} unread bytes were fed")
    return bad


def run_session(case: dict) -> list[str]:
    rec = env.Rec()
    seed = case["seed"]
    ver = case.get("ver", "1.3")
    tickets = case.get("tickets", 0)
    role = case.get("role", "client")
    a2b_ops = case["a2b"]                       # [["send", n] | ["senditer", [n…]]] with an optional pause as last item
    b2a_sizes = case["b2a"]
    pa = plaintext(seed, "a2b", sum((op[1] if op[0] == "send" else sum(op[1])) for op in a2b_ops))
    pb = plaintext(seed, "b2a", sum(b2a_sizes))
    box: dict[str, Any] = {"received": bytearray(), "marks": [], "stage": "handshake"}

    async def a_reader(tls) -> None:
        t = env.cur()
        ops = case.get("a_reads") or [["recv", 16384]]
        i = 0
        while len(box["received"]) < len(pb):
            op = ops[i % len(ops)]
            i += 1
            try:
                if op[0] == "recv":
                    rec.op(f"call {t} recv {op[1]}")
                    data = await tls.recv(op[1])
                else:
                    buf = bytearray(op[1])
                    rec.op(f"call {t} recvinto {op[1]}")
                    n = await tls.recv_into(buf)
                    data = bytes(buf[:n])
            except Exception as e:  # noqa: BLE001
                rec.line(f"ret {t} raise {errname(e)}")
                box["a_read_error"] = errname(e)
                return
            rec.line(f"ret {t} data {env.fmt(data)}")
            if not data:
                box["a_read_error"] = "eof"
                return
            box["received"] += data
            if len(op) > 2:
                await env.pause(op[2])

    async def a_writer(tls) -> None:
        t = env.cur()
        pos = 0
        for op in a2b_ops:
            try:
                if op[0] == "send":
                    d = pa[pos:pos + op[1]]
                    pos += op[1]
                    rec.op(f"call {t} send {core.hexs(d)}")
                    await tls.send_all(d)
                else:
                    chunks = []
                    for n in op[1]:
                        chunks.append(pa[pos:pos + n])
                        pos += n
                    rec.op(f"call {t} senditer" + "".join(" " + core.hexs(c) for c in chunks))
                    await tls.send_all_from_iterable(chunks)
            except Exception as e:  # noqa: BLE001
                rec.line(f"ret {t} raise {errname(e)}")
                box["a_write_error"] = errname(e)
                return
            rec.line(f"ret {t} sent")
            # the only writer of this side has returned from a write call: the outgoing BIO is empty
            if tls._write_bio.pending or tls._data_deque:
                box.setdefault("left_behind", []).append(f"a:{op[0]}:pending={tls._write_bio.pending}:backlog={len(tls._data_deque)}")
            if len(op) > 2:
                await env.pause(op[2])

    async def main() -> None:
        net = case.get("net", {})
        backend_a = env.HBackend(rec)
        backend_b = env.HBackend(None)
        lend = bool(case.get("lend"))       # the wrapped transports keep the recv_into buffer across a suspension (c08_env)
        A = env.MemTransport(backend_a, rec, frags=net.get("a_frags"), cycle=True, rpause=net.get("a_rpause"),
                             spause=net.get("a_spause"), lend=lend)
        B = env.MemTransport(backend_b, None, frags=net.get("b_frags"), cycle=True, rpause=net.get("b_rpause"),
                             spause=net.get("b_spause"), lend=lend)
        A.on_send, B.on_send = B.feed, A.feed
        box["A"], box["B"] = A, B
        a_server = role == "server"
        real_ctx = server_ctx(ver, tickets) if a_server else client_ctx(ver)
        peer_ctx = client_ctx(ver) if a_server else server_ctx(ver, tickets)
        peer = (EasyPeer if case.get("peer") == "easynet" else RawPeer)(B, peer_ctx, not a_server)
        box["peer"] = peer
        ctx = env.RecordingContext(rec, real_ctx)
        box["ctx"] = ctx
        off = [0]

        def classify(data: bytes) -> str:
            eng = ctx.engine
            if not data:
                return "empty"
            if eng is not None and bytes(eng.out_all[off[0]:off[0] + len(data)]) == data:
                off[0] += len(data)
                return "bio"
            return "mixed"

        A.classify = classify
        loop = asyncio.get_running_loop()
        peer_hs = loop.create_task(peer.handshake(), name="peer-hs")
        rec.op("call 0 hs")
        try:
            tls = await AsyncTLSStreamTransport.wrap(A, ctx, server_side=a_server,  # type: ignore[arg-type]
                                                     server_hostname=None if a_server else "localhost",
                                                     handshake_timeout=1e9,
                                                     standard_compatible=bool(case.get("compat", True)))
        except Exception as e:  # noqa: BLE001
            rec.line(f"ret 0 raise {errname(e)}")
            box["hs_error"] = errname(e)
            peer_hs.cancel()
            return
        rec.line("ret 0 hs-ok")
        box["tls"] = tls
        try:
            await peer_hs
        except Exception as e:  # noqa: BLE001
            box["hs_error"] = "peer:" + type(e).__name__
            return
        box["stage"] = "transfer"
        chunks_b = []
        pos = 0
        for n in b2a_sizes:
            chunks_b.append(pb[pos:pos + n])
            pos += n
        tasks = [loop.create_task(a_reader(tls), name="1"), loop.create_task(a_writer(tls), name="2"),
                 loop.create_task(peer.read_until(len(pa), case.get("b_reads") or [16384]), name="peer-r"),
                 loop.create_task(peer.write_all(chunks_b, net.get("b_wpause") or [0]), name="peer-w")]
        await asyncio.gather(*tasks)
        box["stage"] = "done"
        eng = ctx.engine
        box["final"] = (f"bio-eof r=0 w=0 backlog={len(tls._data_deque)} pending={tls._write_bio.pending}")
        rec.enabled = False
        # closing is C09 / C14's business: just release everything
        A.closing = True
        B.closing = True
        A._wake()
        B._wake()

    out, loop = env.run(main)
    lines = list(rec.entries)
    if out[0] == "hang":
        lines.append(f"deadlock stage={box['stage']} {out[1]}")
    elif out[0] == "exc":
        lines.append(f"harness-exc {type(out[1]).__name__}: {out[1]}")
    elif "final" in box:
        lines.append(box["final"])
    if loop.unhandled:
        lines.append("unhandled " + "|".join(loop.unhandled))
    A, peer, ctx = box.get("A"), box.get("peer"), box.get("ctx")
    if "hs_error" in box:
        lines.append(f"o.hs-error {box['hs_error']}")
    for k in ("a_read_error", "a_write_error"):
        if k in box:
            lines.append(f"o.{k} {box[k]}")
    if peer is not None and peer.error:
        lines.append(f"o.peer-error {peer.error}")
    if box.get("left_behind"):
        lines.append("o.left-behind " + ",".join(box["left_behind"]))
    if A is not None and peer is not None:
        lines.append(f"o.a2b written={dg(pa)} received={dg(bytes(peer.received))} prefix={int(pa.startswith(bytes(peer.received)))}")
        lines.append(f"o.b2a written={dg(pb)} received={dg(bytes(box['received']))} prefix={int(pb.startswith(bytes(box['received'])))}")
        wire = b"".join(A.sent)
        leak = _leak(wire, pa, a2b_ops)
        lines.append(f"o.leak {leak if leak is not None else '-'}")
        lines.append("o.overlap " + (",".join(A.overlap) or "-"))
        eng = ctx.engine if ctx is not None else None
        if eng is not None:
            lines.append(f"o.wire-is-bio {int(bytes(eng.out_all).startswith(wire))} wire={len(wire)} out={len(eng.out_all)}")
            lines.append(f"o.accepted-prefix {int(pa.startswith(bytes(eng.accepted)))} accepted={len(eng.accepted)}")
            for msg in check_laws(eng, bytes(A.taken), ver, tickets):
                lines.append("o.law " + msg)
    return lines


def _leak(wire: bytes, pa: bytes, ops: list) -> int | None:
    """offset in the plaintext stream of an 8-byte window (one per chunk start, plus every 512 bytes) that occurs verbatim in
    the bytes handed to the wrapped transport"""
    starts = set(range(0, max(len(pa) - 7, 0), 512))
    pos = 0
    for op in ops:
        for n in ([op[1]] if op[0] == "send" else op[1]):
            if n >= 8:
                starts.add(pos)
                starts.add(pos + n - 8)
            pos += n
    for s in sorted(starts):
        w = pa[s:s + 8]
        if len(w) == 8 and w in wire:
            return s
    return None
