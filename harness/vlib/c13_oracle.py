"""
C13 — the property's clauses judged directly on the trace of the REAL run (independent of the Lean model).

Static facts come from the program text (which scopes / shields enclose a statement inside its task), dynamic
facts from the trace lines of c13_run.py.  Timing ties are accepted either way.

  O1 interrupt      an unshielded blocking operation started while an enclosing scope had cancel_called(), or strictly
                    after an enclosing scope's deadline, does not complete (it raises CancelledError)
  O2 never-swallow  a scope with cancel_called() false: cancelled_caught() false and the exception leaves unchanged
  O3 caught         caught => called and a CancelledError reached __exit__; move_on: caught <=> swallowed;
                    timeout(): TimeoutError leaves <=> caught; not caught => the exception leaves unchanged
  O4 propagate      a cancelled scope that lets the CancelledError through: an enclosing scope was cancelled or an
                    external cancel() had been issued
  O5 no leftover    after a scope exit with no cancelled scope around, task.cancelling() == external cancels so far;
                    no handle of the scope is left scheduled; nothing of the scope machinery survives the task
  O6 shield         every blocking operation inside ignore_cancellation completes; the shielded coroutine ends normally
  O7 external       after an external cancel() (not absorbed by a racing scope catch / user swallow) no later unshielded
                    blocking operation of the task completes
  O8 group cancel   the same for the one-shot cancellation a task group sends to its host task when the first of its
                    children fails: no unshielded blocking operation of the group's body started after it completes
  O1c in progress   an unshielded blocking operation that is IN PROGRESS when the deadline of an enclosing scope passes
                    does not complete later than that tick (the scope's timer cancels the task: CancelledError at its next step)
  O7b in progress   an unshielded blocking operation in progress when an external cancel() arrives does not complete
                    (asyncio throws CancelledError into the task at its next step; operations that clean up first —
                    TaskGroup.start(), Condition.wait() — must re-raise it)
  O9 unowned        nobody's cancellation: an operation of the main task raises CancelledError, or the program ends
                    cancelled, although no enclosing scope was cancelled, no external cancel() was issued and no task group
                    had a reason to cancel its host ("after a scope exits the task carries no leftover cancellation request")

"Blocking operation" = every checkpoint of the backend / task-group API the programs use: sleep, sleep_until,
sleep_forever, coro_yield, TaskGroup.start(), Task.join()/wait()/join_or_cancel(), Event.wait(), Lock.acquire(),
Condition.wait(), run_in_thread(abandon_on_cancel=True), a future awaited directly.  Shielded by themselves (they must
complete, O6): cancel_shielded_coro_yield, run_in_thread() (abandon_on_cancel=False).  Operations of a `finally` clean-up
(`tryf`) run while an exception is on its way out: a one-shot cancellation (O7/O8) has been delivered by then, so they
are not counted as "completed after the cancel"; a cancelled scope keeps re-delivering, so O1 applies to them.

Operations that fail (`fwait` of a harness future resolved with FutError, `join` of a failing child, `fail`) end with
`err` / class `ferr`: a shielded coroutine that ends with the error of what it awaited did run to completion (O6
accepts `sout … ferr`); an operation that ends with its own error is not counted as "completed" by O1/O7/O8 (only
`ret` is).  `join` of a child that was itself cancelled raises CancelledError without any request on the host
(`icancel`): not an interruption of the shield.
"""
from __future__ import annotations

from typing import Any

from . import c13_run


class Static:
    def __init__(self, prog: list[str]) -> None:
        self.words = [ln.split() for ln in prog]
        self.scopes: dict[int, list[int]] = {}     # stmt id -> enclosing scope ids in its task, inner first
        self.shielded: dict[int, bool] = {}
        self.task: dict[int, int] = {}             # stmt id -> child stmt id, -1 = main
        self.cleanup: dict[int, bool] = {}         # stmt id -> inside the `finally` part of a `tryf` of its task
        self.groups: dict[int, list[int]] = {}     # stmt id -> enclosing group ids in its task, inner first
        self.parent_group: dict[int, int] = {}     # child / start / soon block id -> the group that runs it
        tree = c13_run.parse(prog)
        self._walk(tree, [], False, -1, False, [])

    def _walk(self, stmts, scopes, sh, task, cl, groups) -> None:
        for sid, w, kids in stmts:
            self.scopes[sid] = list(scopes)
            self.shielded[sid] = sh
            self.task[sid] = task
            self.cleanup[sid] = cl
            self.groups[sid] = list(groups)
            op = w[0]
            if op == "scope":
                self._walk(kids, [sid] + scopes, sh, task, cl, groups)
            elif op == "shield":
                self._walk(kids, scopes, True, task, cl, groups)
            elif op in ("try", "trye"):
                self._walk(kids, scopes, sh, task, cl, groups)
            elif op == "tryf":
                body, cleanup = c13_run.split_finally(kids)
                self._walk(body, scopes, sh, task, cl, groups)
                for k in kids:
                    if k[1][0] == "finally":
                        self.scopes[k[0]], self.shielded[k[0]], self.task[k[0]] = list(scopes), sh, task
                        self.cleanup[k[0]], self.groups[k[0]] = cl, list(groups)
                self._walk(cleanup, scopes, sh, task, True, groups)
            elif op == "group":
                self._walk(kids, scopes, sh, task, cl, [sid] + groups)
            elif op in c13_run.CHILD_BLOCKS:
                if groups:
                    self.parent_group[sid] = groups[0]
                self._walk(kids, [], False, sid, False, [])

    def unshielded_op(self, sid: int) -> bool:
        """a blocking operation a cancellation may interrupt: no ignore_cancellation around it, not shielded by itself"""
        return not self.shielded[sid] and not c13_run.is_shielded_op(self.words[sid])


def _kv(parts: list[str]) -> dict[str, str]:
    return dict(p.split("=", 1) for p in parts if "=" in p)


def judge(case: dict, real: list[str]) -> str | None:
    prog = case["prog"]
    st = Static(prog)
    W = st.words
    lines = [ln.split() for ln in real]
    for ln in real:
        if ln.startswith("harness-exc") or ln == "assertion" or " error:" in ln:
            return f"unexpected: {ln}"
    if real and (real[-1] == "overrun" or real[-1].startswith("deadlock")):
        hung = _start_hang(st, W, lines)
        if hung is not None:
            return hung
        if real[-1] == "overrun":
            return "unexpected: overrun (the program did not terminate)"
        return f"unexpected: {real[-1]}"
    for ln in real:
        if ln.startswith("deadlock"):
            return f"unexpected: {ln}"

    # asyncio.TaskGroup calls parent.cancel()/uncancel() itself: the cancelling() accounting of the host task is then
    # not attributable to scopes and external cancels alone
    has_group = any(w[0] == "group" for w in W)
    done_at: dict[int, str] = {}          # blocking stmt id -> ret | exc
    for p in lines:
        if p[0] in ("ret", "exc", "err", "icancel"):
            done_at[int(p[1])] = p[0]

    enter_t: dict[int, int] = {}
    enter_c: dict[int, int] = {}
    deadline: dict[int, float] = {}       # current deadline of each entered scope
    swallow_seen = False                  # user code (`try`) swallowed a CancelledError: outside the property's quantifier
    uncaught_exit_seen = False            # a cancelled scope was left without a CancelledError reaching __exit__
    ext_seen = 0                          # external cancels counted by the (main) task so far
    ext_pos: list[int] = []
    own_errors: set[str] = set()          # classes of the errors operations of the program ended with by themselves
    inner_cancel = False                  # the task awaited something that ended cancelled by itself (join of an aborted child)
    grp_pos: list[tuple[int, int]] = []   # (trace position, group id): a group of the main task cancelled its host (`gcancel`)
    grp_failed: set[int] = set()
    grp_open: set[int] = set()
    parent_of: dict[int, int] = st.parent_group     # child / start / soon block id -> its group stmt id
    exit_called: dict[int, bool] = {}     # scope id -> cancel_called() at its exit (pre-pass; absent = never exited)
    for p in lines:
        if p[0] == "exit":
            exit_called[int(p[1])] = "called=1" in p
    blk_t: dict[int, int] = {}
    blk_bits: dict[int, str] = {}
    gjoin: dict[int, tuple[int, str, int]] = {}      # group id -> (tick, cc bits, external cancels so far) when its body ended
    # start() on a task group that is shutting down: the new child is cancelled before its first step.  A start() that
    # then ends with CancelledError (its child was cancelled, not the caller) is the operation's own outcome, like the
    # RuntimeError ("is shutting down") create_task() raises one turn later: not an interruption of a shield (see
    # docs/C13.md section 5.4: before commit f0fd355 such a start(), run under a shield, never returned)
    started = {int(p[1]) for p in lines if p[0] == "cin"}
    aborted_start: set[int] = set()
    failed_so_far: set[int] = set()
    for p in lines:
        if p[0] == "cout" and p[3] not in ("ok", "cancel") and int(p[1]) in parent_of:
            failed_so_far.add(parent_of[int(p[1])])
        elif p[0] == "exc" and W[int(p[1])][0] == "start" and int(p[1]) not in started:
            g = st.groups[int(p[1])]
            if g and g[0] in failed_so_far:
                aborted_start.add(int(p[1]))
    INF = float("inf")

    for pos, p in enumerate(lines):
        k = p[0]
        if k == "ext":
            if p[2] == "0":
                ext_seen += 1
                ext_pos.append(pos)
        elif k == "swallow":
            swallow_seen = True
        elif k == "icancel" or (k == "imm" and p[3] == "cancel"):
            inner_cancel = True
        elif k == "err":
            own_errors.add(p[3])
        elif k == "imm" and p[3] == "err":
            own_errors.add("*")
        elif k == "gin":
            grp_open.add(int(p[1]))
        elif k == "gjoin":
            gjoin[int(p[1])] = (int(p[2]), "" if p[3] == "-" else p[3], ext_seen)
        elif k == "gout":
            grp_open.discard(int(p[1]))
            g = int(p[1])
            if (p[3] == "ok" and g in gjoin and not st.shielded[g] and int(p[2]) > gjoin[g][0]
                    and not (swallow_seen and ext_seen > 0)):
                # TaskGroup.__aexit__ waited for its children (time passed): an unshielded blocking operation like any other
                t1, bits, ext_at_join = gjoin[g]
                t2 = int(p[2])
                if "1" in bits and not (st.cleanup[g] and (ext_seen > 0 or grp_failed)):
                    return (f"O1 interrupt: the join of task group {g} (TaskGroup.__aexit__ waiting for its children from {t1} "
                            f"to {t2}) started inside a cancelled scope (cc={bits}) and completed")
                for j, s_ in enumerate(st.scopes[g]):
                    d = deadline.get(s_, INF)
                    if bits[j:j + 1] == "0" and t1 <= d < t2:
                        return (f"O1c interrupt: the join of task group {g} (TaskGroup.__aexit__) was in progress (since {t1}) when "
                                f"the deadline {d} of scope {s_} passed, yet it completed at {t2}")
                if st.task[g] == -1 and ext_seen > ext_at_join:
                    return (f"O7b external: the join of task group {g} (TaskGroup.__aexit__) was in progress (since {t1}) when an "
                            f"external cancel() arrived, yet it completed at {t2}")
        elif k == "cout":
            g = parent_of.get(int(p[1]))
            if g is not None and p[3] not in ("ok", "cancel") and g not in grp_failed:
                grp_failed.add(g)
        elif k == "gcancel":
            g = int(p[1])
            if st.task[g] == -1 and g in grp_open:
                grp_pos.append((pos, g))
        elif k == "enter":
            sid = int(p[1])
            enter_t[sid] = int(p[2])
            enter_c[sid] = int(p[3])
            d = W[sid][2]
            deadline[sid] = INF if d == "inf" else int(p[2]) + int(d)
        elif k == "do":
            sid = int(p[1])
            w = W[sid]
            if w[0] == "resched":
                target = st.scopes[sid][int(w[1])]
                deadline[target] = INF if w[2] == "inf" else int(p[2]) + int(w[2])
        elif k == "blk":
            sid, t, cc = int(p[1]), int(p[2]), p[3]
            op = W[sid][0]
            if st.shielded[sid]:
                if done_at.get(sid) == "exc":
                    if sid in aborted_start:
                        inner_cancel = True
                    else:
                        return f"O6 shield: blocking operation {sid} inside ignore_cancellation raised CancelledError"
                continue
            if c13_run.is_shielded_op(W[sid]):
                if done_at.get(sid) == "exc":
                    return f"O6 shield: cancel-shielded operation {sid} ({' '.join(W[sid])}) raised CancelledError"
                continue
            blk_t[sid] = t
            enc = st.scopes[sid]
            bits = "" if cc == "-" else cc
            blk_bits[sid] = bits
            if len(bits) != len(enc):
                return f"unexpected: scope stack of {sid} is {cc}, statically {enc}"
            if ("1" in bits and done_at.get(sid) == "ret" and not (swallow_seen and ext_seen > 0)
                    and not (st.cleanup[sid] and (ext_seen > 0 or grp_failed))):
                # (user code that swallows an external CancelledError — or runs checkpoints in a `finally` while a one-shot
                #  CancelledError that a shield had postponed is on its way out — can make a scope lose its re-delivery:
                #  __deliver_cancellation gives up while a delayed cancel with another message is pending; docs/C13.md 5.3)
                return f"O1 interrupt: operation {sid} started at {t} inside a cancelled scope (cc={cc}) completed"
            for j, s in enumerate(enc):
                if bits[j] == "0" and t > deadline.get(s, INF):
                    return f"O1 interrupt: operation {sid} started at {t} after the deadline {deadline[s]} of scope {s}, scope not cancelled"
        elif k == "ret" and int(p[1]) in blk_t:
            sid, t = int(p[1]), int(p[2])
            if not (swallow_seen and ext_seen > 0):
                for j, s_ in enumerate(st.scopes[sid]):
                    d = deadline.get(s_, INF)
                    # (a scope that already had cancel_called() when the operation started is O1's business; its timer is gone)
                    if blk_bits[sid][j:j + 1] == "0" and blk_t[sid] <= d < t:
                        return (f"O1c interrupt: operation {sid} ({' '.join(W[sid])}) was in progress (since {blk_t[sid]}) when the "
                                f"deadline {d} of scope {s_} passed, yet it completed at {t}")
        elif k == "exc" and st.task[int(p[1])] == -1 and int(p[1]) in blk_t:
            sid = int(p[1])
            if (ext_seen == 0 and not grp_failed and not inner_cancel
                    and not any(exit_called.get(s_, True) for s_ in st.scopes[sid])):
                return (f"O9 unowned: operation {sid} ({' '.join(W[sid])}) raised CancelledError at {p[2]} although no enclosing "
                        f"scope was cancelled and nobody cancelled the task")
        elif k == "exit":
            sid, t = int(p[1]), int(p[2])
            kv = _kv(p[3:])
            called, caught = kv["called"] == "1", kv["caught"] == "1"
            kind = W[sid][1]
            main = st.task[sid] == -1
            if not called:
                if caught:
                    return f"O2 never-swallow: scope {sid} not cancelled but cancelled_caught()"
                if kv["out"] != kv["in"]:
                    return f"O2 never-swallow: scope {sid} not cancelled, {kv['in']} entered __exit__, {kv['out']} left"
            if caught:
                if not called or kv["in"] != "cancel":
                    return f"O3 caught: scope {sid} caught with called={called} in={kv['in']}"
                want = "timeout" if kind == "t" else "ok"
                if kv["out"] != want:
                    return f"O3 caught: scope {sid} ({kind}) caught but {kv['out']} left the block"
            else:
                if kv["out"] != kv["in"]:
                    return f"O3 caught: scope {sid} did not catch but {kv['in']} became {kv['out']}"
            if called and not caught and kv["in"] == "cancel" and main and not has_group:
                if "1" not in kv["pc"] and ext_seen == 0:
                    return f"O4 propagate: scope {sid} was cancelled, nobody else cancelled the task, yet it did not catch"
            if kv["handles"] != "0":
                return f"O5 leftover: scope {sid} left {kv['handles']} handle(s) scheduled after exit"
            if called and not caught and kv["in"] != "cancel":
                uncaught_exit_seen = True
            if main and "1" not in kv["pc"] and not has_group:
                if int(kv["cancelling"]) != ext_seen:
                    how = "uncaught-exit" if uncaught_exit_seen else "other"
                    return (f"O5 leftover[{how}]: after exit of scope {sid} task.cancelling()={kv['cancelling']}, "
                            f"external cancels so far={ext_seen}")
        elif k == "sout":
            if p[3] == "ferr" or p[3] in own_errors or "*" in own_errors or (p[3] == "cancel" and inner_cancel):
                pass     # the shielded coroutine ended with the error of what it awaited: it ran to completion
            elif p[3] != "ok" and not _has_group(prog, int(p[1])):
                return f"O6 shield: shielded coroutine {p[1]} ended with {p[3]}"
        elif k == "end":
            kv = _kv(p[3:])
            left = kv.get("left", "-")
            if "cs.__deliver_cancellation" in left or "cs.cancel" in left.split(","):
                return f"O5 leftover: scope handles alive after the task ended: {left}"
            if p[2] == "cancel" and ext_seen == 0 and not grp_failed and not inner_cancel:
                return "O9 unowned: the program ended cancelled although nobody cancelled the task from outside"
            if int(kv["cancelling"]) != ext_seen and not has_group:
                if uncaught_exit_seen:
                    return f"O5 leftover[uncaught-exit]: task ended with cancelling()={kv['cancelling']}, external cancels={ext_seen}"
                return f"O5 leftover[end]: task ended with cancelling()={kv['cancelling']}, external cancels={ext_seen}"

    # O7b: the operation in progress when an external cancel() arrives does not complete
    for pos in ext_pos:
        parked = None
        for p in lines[:pos]:
            if p[0] == "blk" and st.task[int(p[1])] == -1:
                parked = int(p[1])
            elif p[0] in ("ret", "exc", "err", "icancel") and parked is not None and int(p[1]) == parked:
                parked = None
        if parked is not None and st.unshielded_op(parked) and done_at.get(parked) == "ret":
            return (f"O7b external: operation {parked} ({' '.join(W[parked])}) was in progress when the external cancel() "
                    f"arrived at {lines[pos][1]}, yet it completed")

    # O7: external cancel is not lost
    lost: list[tuple[int, int]] = []      # (trace position of the lost cancel, first operation that completed after it)
    for pos in ext_pos:
        later = lines[pos + 1:]
        if any(_absorbs(st, p) for p in later):
            continue     # absorbed by a racing scope catch / user code
        for p in later:
            if p[0] == "blk":
                sid = int(p[1])
                if st.task[sid] != -1 or not st.unshielded_op(sid) or st.cleanup[sid]:
                    continue
                if done_at.get(sid) == "ret":
                    lost.append((pos, sid))
                    break
    if lost:
        # the open finding covers the run only if EVERY lost cancel has its signature
        how = "merged" if all(_merged_with_redelivery(st, W, lines, pos) for pos, _ in lost) else "other"
        return f"O7 external[{how}]: operation {lost[0][1]} started after the external cancel() and completed"

    # O8: the cancellation a task group sends to its host when a child fails is not lost either
    lost = []
    for pos, g in grp_pos:
        # (pos = the `gcancel` line: the group cancels its host from the done-callback of the failed child, one loop turn
        #  after the child's last step, before or after the host's own step of that turn)
        later = []
        for p in lines[pos + 1:]:
            if p[0] == "gout" and int(p[1]) == g:
                break
            later.append(p)
        if any(_absorbs(st, p) for p in later):
            continue
        body = _body_ids(W, g)
        for p in later:
            if p[0] == "blk":
                sid = int(p[1])
                if sid not in body or st.task[sid] != -1 or not st.unshielded_op(sid) or st.cleanup[sid]:
                    continue
                if done_at.get(sid) == "ret":
                    lost.append((pos, sid, g))
                    break
    if lost:
        how = "merged" if all(_merged_with_redelivery(st, W, lines, pos) for pos, _, _ in lost) else "other"
        return (f"O8 group cancel[{how}]: operation {lost[0][1]} of the body of task group {lost[0][2]} started after a "
                f"child failed (the group cancelled its host task) and completed")
    return None


def _start_hang(st: "Static", W, lines) -> str | None:
    """the run did not terminate: is a task parked for ever in a cancel-shielded TaskGroup.start() whose child never
    ran (cancelled before its first step: the group aborted in the loop turn in which start() created it)?"""
    parked: dict[int, int] = {}           # task -> blk stmt
    for p in lines:
        if p[0] == "blk":
            parked[st.task[int(p[1])]] = int(p[1])
        elif p[0] in ("ret", "exc", "err", "icancel") and parked.get(st.task[int(p[1])]) == int(p[1]):
            del parked[st.task[int(p[1])]]
    started = {int(p[1]) for p in lines if p[0] == "cin"}
    for sid in parked.values():
        if W[sid][0] == "start" and st.shielded[sid] and sid not in started:
            return (f"O6 shield[start-hang]: TaskGroup.start() {sid} run under ignore_cancellation never returned: the task group "
                    f"aborted and cancelled the new child before its first step, so nobody resolves the future start() waits "
                    f"for, and the cancellation the group sent to its host was swallowed by the shield")
    return None


def _absorbs(st: Static, p: list[str]) -> bool:
    """trace events after which a one-shot cancellation may legitimately be gone: user code swallowed it (`try`), a
    cancelled scope caught the CancelledError that carried it (racing scope cancel), or clean-up code of a `finally`
    ended with an error of its own, which replaces the CancelledError on its way out (plain Python semantics)"""
    if p[0] == "swallow" or (p[0] == "exit" and "caught=1" in p):
        return True
    if p[0] in ("err", "raise") or (p[0] == "imm" and p[3] == "err"):
        return st.cleanup[int(p[1])]
    return False


def _body_ids(W, g: int) -> set[int]:
    """statement ids between `group` (line g) and its `endgroup`"""
    depth = 0
    out = set()
    for j in range(g + 1, len(W)):
        o = W[j][0]
        if o == "endgroup" and depth == 0:
            break
        out.add(j)
        if o in c13_run.OPEN:
            depth += 1
        elif o in c13_run.OPEN.values():
            depth -= 1
    return out


def _tick(p: list[str]) -> int | None:
    if p[0] in ("blk", "ret", "exc", "err", "icancel", "imm", "do", "enter", "exit", "sin", "sout", "gin", "gout", "cin",
                "cout", "swallow", "caught", "raise", "fut", "fin", "spawn", "gcancel", "gjoin") and len(p) > 2:
        return int(p[2])
    if p[0] in ("ext", "end", "deadlock") and len(p) > 1:
        return int(p[1])
    return None


def _merged_with_redelivery(st: Static, W, lines, pos: int) -> bool:
    """signature of the open finding `ext-cancel-lost,shielded,scope-cancel-interleaved`, for the one-shot cancellation
    (external cancel() / task group cancelling its host) recorded at trace position `pos`:
      (a) it arrived while the task was inside a shielded section: an `ignore_cancellation` block of the task (whatever
          the task was parked on inside it: an operation, a task group's join, …) or a `cancel_shielded_coro_yield`;
          the section lasts until the task's next unshielded checkpoint (nested blocks, and blocks that follow one
          another with no checkpoint in between, keep the cancellation postponed: one section), and
      (b) a cancel scope of the task that was still active when it arrived, or was entered later, had or got
          `cancel_called()` before that shielded section ended.
    Mechanism: the shield driver remembers ONE swallowed CancelledError message (the last one; two requests in one loop
    turn arrive as one error carrying the first message), so the scope's request replaces the external one and the
    scope's __exit__ then discards the delayed re-delivery as its own.
    Anything else (a cancel lost with no scope cancelled, or outside any shield) is NOT this finding."""
    INF = float("inf")
    # ---- (a) the shielded section around `pos`
    depth = 0
    parked = None         # blk line of the main task's current operation
    for i, p in enumerate(lines[:pos]):
        k = p[0]
        if k == "sin" and st.task[int(p[1])] == -1:
            depth += 1
        elif k == "sout" and st.task[int(p[1])] == -1:
            depth -= 1
        elif k == "blk" and st.task[int(p[1])] == -1:
            parked = (i, p)
        elif k in ("ret", "exc", "err", "icancel") and parked is not None and p[1] == parked[1][1]:
            parked = None
    if depth == 0 and not (parked is not None and c13_run.is_shielded_op(W[int(parked[1][1])])):
        return False
    # the cancellation stays postponed until the task's next unshielded checkpoint: shielded sections that follow one
    # another without a checkpoint in between form one section
    end = len(lines) - 1
    for i in range(pos, len(lines)):
        p = lines[i]
        if p[0] == "blk" and st.task[int(p[1])] == -1 and st.unshielded_op(int(p[1])):
            end = i
            break
    end_tick = next((t for t in (_tick(lines[i]) for i in range(end, -1, -1)) if t is not None), 0)
    # ---- (b) when did each scope of the main task get cancel_called()?  (explicit cancel, pre-cancelled, deadline;
    # cross-checked with what the exit line says; a deadline equal to the tick of the section's end counts: tie)
    deadline: dict[int, float] = {}
    called: dict[int, float] = {}
    enter_pos: dict[int, int] = {}
    exit_pos: dict[int, int] = {}
    exit_called: dict[int, bool] = {}
    for i, p in enumerate(lines):
        k = p[0]
        if k == "enter" and st.task[int(p[1])] == -1:
            sid = int(p[1])
            enter_pos[sid] = i
            d = W[sid][2]
            deadline[sid] = INF if d == "inf" else int(p[2]) + int(d)
            if W[sid][3] == "1":
                called[sid] = int(p[2])
        elif k == "do":
            sid = int(p[1])
            w = W[sid]
            if st.task[sid] == -1:
                target = st.scopes[sid][int(w[1])]
                if w[0] == "cancel":
                    called.setdefault(target, int(p[2]))
                elif w[0] == "resched" and target not in called and deadline.get(target, INF) >= int(p[2]):
                    deadline[target] = INF if w[2] == "inf" else int(p[2]) + int(w[2])
        elif k == "blk" and st.task[int(p[1])] == -1 and p[3] != "-":
            for j, s in enumerate(st.scopes[int(p[1])]):
                if p[3][j] == "1":
                    called.setdefault(s, min(int(p[2]), deadline.get(s, INF)))
        elif k == "exit" and st.task[int(p[1])] == -1:
            sid = int(p[1])
            exit_pos[sid] = i
            exit_called[sid] = "called=1" in p
            if exit_called[sid]:
                called.setdefault(sid, min(int(p[2]), deadline.get(sid, INF)))
    for s in enter_pos:
        if s in exit_pos and not exit_called[s]:
            continue
        if exit_pos.get(s, len(lines)) <= pos:
            continue      # the scope had already exited when the cancellation arrived
        if enter_pos[s] >= end:
            continue      # entered after the shielded section
        when = called.get(s)
        if when is None and s not in exit_pos:
            when = deadline.get(s, INF)      # the task ended inside the scope: only the deadline is known
        if when is not None and when <= end_tick:
            return True
    return False


def _has_group(prog: list[str], sid: int) -> bool:
    """does the compound statement opened at line sid contain a task group (whose children are not shielded)?"""
    depth = 0
    for ln in prog[sid:]:
        w = ln.split()[0]
        if w in c13_run.OPEN:
            depth += 1
            if w == "group":
                return True
        elif w in c13_run.OPEN.values():
            depth -= 1
            if depth == 0:
                break
    return False


def completed_under_cancelled_scope(prog: list[str], real: list[str]) -> bool:
    """the event the model's ghost flag `bad` records, recomputed from the real trace: an unshielded blocking
    operation (not cancel_shielded_coro_yield) that started while a scope of its task had cancel_called() completed"""
    st = Static(prog)
    flagged = set()
    for ln in real:
        p = ln.split()
        if p[0] == "blk" and "1" in p[3]:
            sid = int(p[1])
            if st.unshielded_op(sid):
                flagged.add(sid)
        elif p[0] == "ret" and int(p[1]) in flagged:
            return True
    return False


def key_of(why: str) -> str:
    if why.startswith("M0 correspondence"):
        return "M0-correspondence"
    if why.startswith("O5 leftover[uncaught-exit]"):
        return "leftover-cancelling,exit-without-catch"
    if why.startswith("O5 leftover[end]"):
        return "leftover-cancelling,task-end"
    if why.startswith("O6 shield[start-hang]"):
        return "start-never-returns,shielded,child-cancelled-before-first-step"
    if why.startswith("O7 external[merged]") or why.startswith("O8 group cancel[merged]"):
        return "ext-cancel-lost,shielded,scope-cancel-interleaved"
    return why.split(":")[0].replace(" ", "-").replace("[", "-").replace("]", "")


def features(case: dict, real: list[str]) -> str | None:
    tags = set()
    sw = False
    for ln in real:
        p = ln.split()
        if p[0] == "exc":
            tags.add("redeliver" if sw else "interrupt")
        elif p[0] == "swallow":
            sw = True
        elif p[0] == "exit":
            if "caught=1" in p:
                tags.add("caught")
            elif "in=cancel" in p:
                tags.add("propagate")
            if "out=timeout" in p:
                tags.add("timeout")
            if "called=1" in p and "caught=0" in p and "in=ok" in p:
                tags.add("uncaught-exit")
        elif p[0] == "ext" and p[2] == "0":
            tags.add("ext")
        elif p[0] == "blk" and len(p) > 3:
            w = case["prog"][int(p[1])].split()
            if w[0] in ("start", "pwait", "twait", "joinc", "sleepu", "forever"):
                tags.add("op-" + (w[1] if w[0] == "pwait" else w[0]))
            if "1" in p[3]:
                tags.add("cancelled-syield" if w[0] == "syield" else "blk-in-cancelled")
        elif p[0] == "fin":
            tags.add("finally")
        elif p[0] == "cin":
            tags.add("child")
        elif p[0] == "err":
            tags.add("op-failed")
        elif p[0] == "cout" and p[3] not in ("ok", "cancel"):
            tags.add("child-failed")
    if not tags or tags == {"child"}:
        return None
    return "+".join(sorted(tags))
