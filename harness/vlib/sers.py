"""
Serializer configurations shared by the framing properties (C01 C02 C03 C05 C06 C07 C15).

A *spec* is a JSON-serialisable dict; `build(spec)` returns the real EasyNetwork serializer.
A *packet value* is stored in cases in a tagged JSON form (`enc_val` / `dec_val`).
`model_head(spec, path, hint)` names the Lean model (endriver) that mirrors the serializer's framer, if any.
"""
from __future__ import annotations

import collections
import io
import struct as _struct
from typing import Any

from vlib import core  # noqa: F401  (sets sys.path for /repo/src)

from easynetwork.exceptions import DeserializeError
from easynetwork.serializers.base_stream import (
    AutoSeparatedPacketSerializer,
    FileBasedPacketSerializer,
    FixedSizePacketSerializer,
)
from easynetwork.serializers.composite import (
    StapledBufferedIncrementalPacketSerializer,
    StapledIncrementalPacketSerializer,
)
from easynetwork.serializers.json import JSONSerializer
from easynetwork.serializers.line import StringLineSerializer
from easynetwork.serializers.pickle import PickleSerializer
from easynetwork.serializers.struct import NamedTupleStructSerializer, StructSerializer
from easynetwork.serializers.wrapper.base64 import Base64EncoderSerializer
from easynetwork.serializers.wrapper.compressor import BZ2CompressorSerializer, ZlibCompressorSerializer

NEWLINES = {"LF": b"\n", "CR": b"\r", "CRLF": b"\r\n"}


def _held(data: Any, hold: str | None) -> Any:
    """what a harness `deserialize(data)` makes of its argument (spec key `hold`):
        None    a private copy (the historical behaviour of the harness serializers)
        "arg"   the argument object ITSELF is the packet ("the packet is the raw record"): if the library hands over a view
                of its receive buffer instead of the documented `bytes`, the packet changes under the application's feet
                when later data arrives (seen by the retained-packet re-check of streamdrive.Retain)
        "text"  uses the `bytes` API of the documented argument type (`data.decode`), as a text-record subclass would"""
    if hold == "arg":
        return data
    if hold == "text":
        return data.decode("latin-1").encode("latin-1")
    return bytes(data)


class RawAutoSep(AutoSeparatedPacketSerializer[bytes, bytes]):
    """harness subclass of the public base class: packets are raw byte strings; payloads starting with
    0xff are *undecodable* (DeserializeError) so that malformed-but-well-delimited frames exist"""

    def __init__(self, *args: Any, hold: str | None = None, **kwargs: Any) -> None:
        super().__init__(*args, **kwargs)
        self.hold = hold

    def serialize(self, packet: bytes) -> bytes:
        return bytes(packet)

    def deserialize(self, data: bytes) -> bytes:
        if data[:1] == b"\xff":
            raise DeserializeError("undecodable payload (starts with 0xff)")
        return _held(data, self.hold)


class RawFixed(FixedSizePacketSerializer[bytes, bytes]):
    def __init__(self, *args: Any, hold: str | None = None, **kwargs: Any) -> None:
        super().__init__(*args, **kwargs)
        self.hold = hold

    def serialize(self, packet: bytes) -> bytes:
        return bytes(packet)

    def deserialize(self, data: bytes) -> bytes:
        if len(data) != self.packet_size:
            raise DeserializeError("bad size")
        if data[:1] == b"\xff":
            raise DeserializeError("undecodable payload (starts with 0xff)")
        return _held(data, self.hold)


class ToyFileError(Exception):
    pass


# `expected_load_error` configurations of the file toys (spec key `expected`).  The loader only ever raises ToyFileError (or
# EOFError); the wide ones are what a subclass wrapping an API with an open-ended error set declares (the library's own
# MessagePackSerializer passes `Exception`), and they also cover the library's own DeserializeError / LimitOverrunError.
EXPECTED_LOAD_ERRORS: dict[str, Any] = {
    "toy": ToyFileError,
    "exception": Exception,
    "tuple": (ValueError, Exception),
    "narrowtuple": (KeyError, ToyFileError, ValueError),
    "deser": (ToyFileError, DeserializeError),
}
FILE_TOYS = ("filetoy", "filepeek", "fileahead")


class ToyFile(FileBasedPacketSerializer[bytes, bytes]):
    """length-prefixed toy file format: 1 byte n (0..200), then n bytes. n > 200 is a format error."""

    def __init__(self, limit: int, expected: str = "toy", debug: bool = False) -> None:
        super().__init__(expected_load_error=EXPECTED_LOAD_ERRORS[expected], limit=limit, debug=debug)

    def dump_to_file(self, packet: bytes, file: io.IOBase) -> None:
        assert len(packet) <= 200
        file.write(bytes([len(packet)]) + bytes(packet))

    def load_from_file(self, file: io.IOBase) -> bytes:
        h = file.read(1)
        if not h:
            raise EOFError
        n = h[0]
        if n > 200:
            raise ToyFileError(f"bad length byte {n}")
        data = file.read(n)
        if len(data) < n:
            raise EOFError
        return data


class PeekFile(ToyFile):
    """same format as ToyFile, but the loader looks at the header and raises EOFError as soon as it sees that the body is
    incomplete, WITHOUT reading the partial body (the file position is then not at the end) — allowed by the documented
    contract of load_from_file()"""

    def load_from_file(self, file: io.IOBase) -> bytes:
        h = file.read(1)
        if not h:
            raise EOFError
        n = h[0]
        if n > 200:
            raise ToyFileError(f"bad length byte {n}")
        here = file.tell()
        end = file.seek(0, 2)
        file.seek(here)
        if end - here < n:
            raise EOFError
        return file.read(n)


class AheadFile(ToyFile):
    """same format as ToyFile, but the loader reads EVERYTHING available first (as decoders with an internal read-ahead
    buffer do), works on that, and then seeks back to the end of what it used: the file position moves forwards and
    backwards during one load.  After a format error the position is just behind the bad header byte, as for ToyFile."""

    def load_from_file(self, file: io.IOBase) -> bytes:
        start = file.tell()
        data = file.read()
        if not data:
            raise EOFError
        n = data[0]
        if n > 200:
            file.seek(start + 1)
            raise ToyFileError(f"bad length byte {n}")
        if len(data) < 1 + n:
            raise EOFError          # (position left at the end, like ToyFile)
        file.seek(start + 1 + n)
        return data[1:1 + n]


Point = collections.namedtuple("Point", ["x", "y", "name"])


def build(spec: dict) -> Any:
    """every kind takes the optional key `debug` (the serializers' `debug=True` mode: error reports carry `error_info`)"""
    k = spec["k"]
    dbg = bool(spec.get("debug", False))
    if k == "line":
        return StringLineSerializer(spec["newline"], encoding=spec.get("encoding", "ascii"),
                                    limit=spec["limit"], keep_end=spec.get("keep_end", False), debug=dbg)
    if k == "json":
        return JSONSerializer(limit=spec["limit"], use_lines=spec.get("use_lines", True), debug=dbg)
    if k == "struct":
        return StructSerializer(spec["format"], debug=dbg)
    if k == "ntstruct":
        return NamedTupleStructSerializer(Point, {"x": "i", "y": "H", "name": "6s"}, format_endianness="!", debug=dbg)
    if k == "b64":
        return Base64EncoderSerializer(build(spec["inner"]), alphabet=spec.get("alphabet", "urlsafe"),
                                       checksum=spec.get("checksum", False),
                                       separator=bytes.fromhex(spec.get("separator", "0d0a")), limit=spec["limit"], debug=dbg)
    if k == "zlib":
        return ZlibCompressorSerializer(build(spec["inner"]), compress_level=spec.get("level"), debug=dbg)
    if k == "bz2":
        return BZ2CompressorSerializer(build(spec["inner"]), compress_level=spec.get("level"), debug=dbg)
    if k == "autosep":
        return RawAutoSep(bytes.fromhex(spec["sep"]), limit=spec["limit"],
                          incremental_serialize_check_separator=spec.get("check", True), debug=dbg, hold=spec.get("hold"))
    if k == "fixed":
        return RawFixed(spec["size"], debug=dbg, hold=spec.get("hold"))
    if k == "filetoy":
        return ToyFile(spec["limit"], spec.get("expected", "toy"), dbg)
    if k == "filepeek":
        return PeekFile(spec["limit"], spec.get("expected", "toy"), dbg)
    if k == "fileahead":
        return AheadFile(spec["limit"], spec.get("expected", "toy"), dbg)
    if k == "pickle":
        return PickleSerializer(debug=dbg)
    if k == "stapled":
        return StapledIncrementalPacketSerializer(build(spec["sent"]), build(spec["received"]))
    if k == "stapledbuf":
        return StapledBufferedIncrementalPacketSerializer(build(spec["sent"]), build(spec["received"]))
    raise ValueError(k)


def recv_spec(spec: dict) -> dict:
    """the serializer actually used on the receive side"""
    return recv_spec(spec["received"]) if spec["k"] in ("stapled", "stapledbuf") else spec


def send_spec(spec: dict) -> dict:
    return send_spec(spec["sent"]) if spec["k"] in ("stapled", "stapledbuf") else spec


def is_buffered(spec: dict) -> bool:
    k = spec["k"]
    if k in ("json", "pickle", "stapled"):
        return False
    return True


def separator(spec: dict) -> bytes | None:
    spec = recv_spec(spec)
    k = spec["k"]
    if k == "line":
        return NEWLINES[spec["newline"]]
    if k == "json" and spec.get("use_lines", True):
        return b"\n"
    if k == "b64":
        return bytes.fromhex(spec.get("separator", "0d0a"))
    if k == "autosep":
        return bytes.fromhex(spec["sep"])
    return None


def limit_of(spec: dict) -> int | None:
    spec = recv_spec(spec)
    return spec.get("limit")


def keep_end(spec: dict) -> bool:
    spec = recv_spec(spec)
    if spec["k"] == "line":
        return bool(spec.get("keep_end", False))
    if spec["k"] == "json":
        return True  # read_until default keep_end=True (the JSON decoder ignores the trailing newline)
    return False


def fixed_size(spec: dict) -> int | None:
    spec = recv_spec(spec)
    if spec["k"] == "struct":
        return _struct.calcsize(spec["format"])
    if spec["k"] == "ntstruct":
        return _struct.calcsize("!iH6s")
    if spec["k"] == "fixed":
        return spec["size"]
    return None


MODEL_RUNS: dict[str, int] = {}   # ---- raw JSON framer ---- (how often each framer model was named: evidence `model_runs_by_framer`)


def model_head(spec: dict, path: str, hint: int, fixed_variant: bool = True, *,
               chunks: "list[bytes] | None" = None, real: "list[str] | None" = None) -> str | None:
    """endriver model + config for the receive side, or None if the framer has no Lean model (yet)"""
    head = _model_head(spec, path, hint, fixed_variant, chunks, real)
    if head is not None:
        MODEL_RUNS[head.split()[0]] = MODEL_RUNS.get(head.split()[0], 0) + 1
    return head


def _model_head(spec: dict, path: str, hint: int, fixed_variant: bool = True,
                chunks: "list[bytes] | None" = None, real: "list[str] | None" = None) -> str | None:
    sep = separator(spec)
    if sep is not None:
        lim = limit_of(spec)
        ke = 1 if keep_end(spec) else 0
        if path == "copy":
            return f"ru {sep.hex()} {lim} {ke}"
        return f"bru {1 if fixed_variant else 0} {sep.hex()} {lim} {ke}"
    n = fixed_size(spec)
    if n is not None:
        if path == "copy":
            return f"re {n}"
        return f"bfx {n} {max(n, hint)}"
    # ---- raw JSON framer ----
    r = recv_spec(spec)
    if r["k"] == "json" and not r.get("use_lines", True) and path == "copy":
        # _JSONParser.raw_parse under the copying consumer (JSONSerializer has no buffered variant)
        return f"jraw {limit_of(spec)}"
    # ---- end raw JSON framer ----
    # ---- generic framers ----
    # file-based toys and zlib/bz2 wrappers: the model needs the loader/decompressor boundaries of the case's stream,
    # computed with the real library from the reads (`chunks`) actually made; without them there is no model run
    if chunks is not None:
        from vlib import genericfr
        return genericfr.head(spec, path, hint, chunks, real)
    # ---- end generic framers ----
    return None


# ------------------------------------------------------------------------------------------------
# packet values
# ------------------------------------------------------------------------------------------------

def enc_val(v: Any) -> Any:
    if isinstance(v, (bytes, bytearray, memoryview)):
        return {"t": "b", "v": bytes(v).hex()}
    if isinstance(v, Point):
        return {"t": "pt", "v": [v.x, v.y, v.name]}
    if isinstance(v, tuple):
        return {"t": "tu", "v": [enc_val(x) for x in v]}
    if isinstance(v, str):
        return {"t": "s", "v": v}
    return {"t": "j", "v": v}


def dec_val(o: Any) -> Any:
    t = o["t"]
    if t == "b":
        return bytes.fromhex(o["v"])
    if t == "pt":
        return Point(*o["v"])
    if t == "tu":
        return tuple(dec_val(x) for x in o["v"])
    return o["v"]


def show(v: Any) -> str:
    """canonical text of a packet value"""
    if isinstance(v, (bytes, bytearray, memoryview)):
        return "b:" + (bytes(v).hex() or "-")
    return repr(v)


ALPHA = "abcxyz01 \t"


def gen_packet(rng, spec: dict, maxlen: int = 12) -> Any:
    """a *valid* packet for the send side of `spec` (one the producer accepts and that yields a non-empty frame)"""
    spec = send_spec(spec)
    k = spec["k"]
    if k == "line":
        nl = NEWLINES[spec["newline"]].decode()
        chars = ALPHA + ("é€" if spec.get("encoding") == "utf-8" else "")
        # payloads may contain *parts* of the newline sequence (a lone \r for CRLF) but not the sequence
        if spec["newline"] == "CRLF":
            chars += "\r" if rng.random() < 0.5 else "\n" if rng.random() < 0.5 else ""
        while True:
            n = rng.randint(1, maxlen)
            s = "".join(rng.choice(chars) for _ in range(n))
            if nl in s or (s + nl).find(nl) != len(s):
                continue
            if spec.get("keep_end"):
                s += nl
            return s
    if k == "json":
        def val(d: int) -> Any:
            r = rng.random()
            if d > 2 or r < 0.3:
                return rng.choice([0, -3, 17, 2.5, True, None, "a", "x\"y\\", "{[", "é", "", "\n",
                                   "\\\"", "C:\\dir\\\"q\"", "\\\\\"]", "\\" * rng.randint(1, 4) + "\"" + "}" * rng.randint(0, 2)])
            if r < 0.65:
                return [val(d + 1) for _ in range(rng.randint(0, 3))]
            return {rng.choice(["k", "a b", "}", "\\"]): val(d + 1) for _ in range(rng.randint(0, 2))}
        return val(0)
    if k == "struct":
        fmt = spec["format"]
        vals = []
        for ch in fmt:
            if ch in "bB":
                vals.append(rng.randint(0, 127))
            elif ch in "hH":
                vals.append(rng.randint(0, 30000))
            elif ch in "iIlLqQ":
                vals.append(rng.randint(0, 2**31 - 1))
        return tuple(vals)
    if k == "ntstruct":
        return Point(rng.randint(-1000, 1000), rng.randint(0, 65535), rng.choice(["a", "abc", "abcdef", ""]))
    if k in ("b64", "zlib", "bz2"):
        return gen_packet(rng, spec["inner"], maxlen)
    if k == "autosep":
        sep = bytes.fromhex(spec["sep"])
        alphabet = bytes(set(sep)) + b"ab"
        ser = build(spec)
        while True:
            n = rng.randint(1, maxlen)
            p = bytes(rng.choice(alphabet) for _ in range(n))
            if p[:1] == b"\xff" or p.endswith(sep):
                continue
            # valid = what the producer itself accepts (its separator check raises ValueError otherwise)
            try:
                list(ser.incremental_serialize(p))
            except ValueError:
                continue
            return p
    if k == "fixed":
        p = bytes(rng.randrange(0, 255) for _ in range(spec["size"]))
        return p if p[:1] != b"\xff" else b"a" + p[1:]
    if k in FILE_TOYS:
        return bytes(rng.randrange(256) for _ in range(rng.randint(0, maxlen)))
    if k == "pickle":
        return rng.choice([1, "a", [1, 2], {"k": (1, 2)}, None, b"xyz"])
    raise ValueError(k)


def expected_received(spec: dict, packet: Any) -> Any:
    """what the receive side should return for a sent packet (identity but for representation changes)"""
    r = recv_spec(spec)
    if r["k"] in ("autosep", "fixed") + FILE_TOYS:
        return bytes(packet)
    if r["k"] == "struct":
        return tuple(packet)
    return packet


# separators: 1 to 4 bytes; self-overlapping ones (7c7c, 616162, 2d2d3e: first byte repeated; 616261, 0d0a0d: first byte = last
# byte) and ones made of distinct bytes (3c7c3e "<|>", 0d0a2e, 61626364): for the latter a terminator cut after its
# last-but-one byte leaves a buffer that ends neither with the separator's first byte nor with a repeated byte
AUTOSEP_SEPS = ["0a", "0d0a", "7c7c", "616162", "2d2d3e", "00", "3c7c3e", "616261", "0d0a2e", "61626364", "0d0a0d0a", "3c2d2d3e"]
B64_SEPS = ["0d0a", "0a", "7c", "2323", "3c7c3e", "0d0a2e", "2e2e2e", "0d0a0d0a"]
EXPECTED_KEYS = ["toy", "toy", "exception", "tuple", "narrowtuple", "deser"]


def gen_spec(rng, *, limits=(8, 16, 64, 65536), allow=None, rich: bool = False) -> dict:
    """a random serializer configuration (receive and send side identical).
    rich=False: the historical configuration space and random stream (other checks, e.g. C15, depend on it).
    rich=True : adds debug=True variants of everything, packets that keep their deserialize() argument (`hold`), separators
                of 3 and 4 bytes, Base64 with 3/4-byte separators, file toys with wide `expected_load_error` and with a
                read-ahead loader, and the non-buffered composite (StapledIncrementalPacketSerializer)."""
    if not rich:
        return _gen_spec(rng, rng.choice(allow or ["line", "line", "json", "jsonraw", "struct", "ntstruct", "b64", "zlib", "bz2",
                                                   "autosep", "autosep", "fixed", "filetoy", "filepeek", "stapledbuf"]),
                         rng.choice(limits), limits, False)
    kinds = allow or ["line", "line", "json", "jsonraw", "struct", "ntstruct", "b64", "zlib", "bz2",
                      "autosep", "autosep", "fixed", "filetoy", "filepeek", "fileahead", "stapledbuf", "stapled"]
    k = rng.choice(kinds)
    lim = rng.choice(limits)
    spec = _gen_spec(rng, k, lim, limits, True)
    # debug=True variants of everything (error reports then carry error_info; the framing must not change)
    if spec["k"] not in ("stapled", "stapledbuf") and rng.random() < 0.3:
        spec["debug"] = True
    return spec


def _gen_spec(rng, k: str, lim: int, limits, rich: bool) -> dict:
    if k == "line":
        return {"k": "line", "newline": rng.choice(["LF", "CR", "CRLF"]), "keep_end": rng.random() < 0.4,
                "encoding": rng.choice(["ascii", "utf-8"]), "limit": max(lim, 4)}
    if k == "json":
        return {"k": "json", "use_lines": True, "limit": max(lim, 64)}
    if k == "jsonraw":
        return {"k": "json", "use_lines": False, "limit": max(lim, 64)}
    if k == "struct":
        return {"k": "struct", "format": rng.choice(["!B", "!HB", "!IH", "<qB"])}
    if k == "ntstruct":
        return {"k": "ntstruct"}
    if k in ("b64", "zlib", "bz2"):
        inner = rng.choice([{"k": "json", "use_lines": True, "limit": 65536}, {"k": "pickle"},
                            {"k": "line", "newline": "LF", "limit": 65536, "encoding": "utf-8"}])
        if rich and rng.random() < 0.3:
            inner = {**inner, "debug": True}
        if k == "b64":
            return {"k": "b64", "inner": inner, "alphabet": rng.choice(["standard", "urlsafe"]),
                    "checksum": rng.random() < 0.5, "separator": rng.choice(B64_SEPS if rich else B64_SEPS[:4]), "limit": 65536}
        return {"k": k, "inner": inner, "level": rng.choice([None, 1, 9])}
    if k == "autosep":
        if not rich:
            return {"k": "autosep", "sep": rng.choice(AUTOSEP_SEPS[:6]), "limit": max(lim, 4), "check": True}
        spec = {"k": "autosep", "sep": rng.choice(AUTOSEP_SEPS), "limit": max(lim, 6), "check": True}
        if rng.random() < 0.4:
            spec["hold"] = rng.choice(["arg", "text"])
        return spec
    if k == "fixed":
        spec = {"k": "fixed", "size": rng.choice([1, 2, 5, 9])}
        if rich and rng.random() < 0.6:
            spec["hold"] = rng.choice(["arg", "arg", "text"])
        return spec
    if k in FILE_TOYS:
        spec = {"k": k, "limit": max(lim, 32)}
        if rich and (e := rng.choice(EXPECTED_KEYS)) != "toy":
            spec["expected"] = e
        return spec
    if k in ("stapledbuf", "stapled"):
        # composite: a sending half and a receiving half (same configuration; built as two objects)
        sub = ["line", "autosep", "fixed"] if k == "stapledbuf" else ["line", "json", "jsonraw", "autosep", "fixed", "filetoy"]
        a = gen_spec(rng, limits=limits, allow=sub, rich=rich)
        return {"k": k, "sent": a, "received": a}
    raise ValueError(k)


# ------------------------------------------------------------------------------------------------
# malformed frames, by construction
# ------------------------------------------------------------------------------------------------

def bad_frame(rng, spec: dict, extreme: bool = False) -> bytes | None:
    """a WELL-DELIMITED frame of the receive side of `spec` whose payload is undecodable: frame-by-frame decoding gives
    exactly one parse error for exactly these bytes, whatever follows (None: the format has no such frame).
    extreme=True (JSON only): structurally extreme documents — nesting deeper than the interpreter's recursion limit, an
    integer literal beyond the int/str conversion limit (10 KB frames: only for limits that hold them)."""
    r = recv_spec(spec)
    k = r["k"]
    sep = separator(spec)
    if k == "line":
        body = bytes(rng.choice(b"abxyz \t") for _ in range(rng.randint(0, 5)))
        i = rng.randint(0, len(body))
        return body[:i] + rng.choice([b"\xff", b"\xc3", b"\xe2\x82"]) + body[i:] + sep
    if k == "json":
        if extreme and (r.get("limit") or 0) >= 16384:
            d = rng.choice([2500, 5000])
            doc = rng.choice([b"[" * d + b"]" * d, b'{"a":' * d + b"1" + b"}" * d, b"[" + b"9" * rng.choice([4301, 5000]) + b"]"])
            return doc + (sep or b"")
        if r.get("use_lines", True):
            return rng.choice([b'{"a": tru', b'[1,,2]', b'"\xff"', b"{]}", b"nul", b'{"a":"b",}', b"[01]"]) + sep
        return rng.choice([b'{"a":}', b"[1,,2]", b"{]}", b'["a" "b"]', b"[tru]", b'{"a" 1}', b"[01]", b'{"k":[}', b'"\xff"', b"{,}"])
    if k == "ntstruct":
        return _struct.pack("!iH6s", rng.randint(-5, 5), rng.randint(0, 9), rng.choice([b"\xff\xfeab", b"ab\xc3", b"\xe2\x82"]))
    if k == "b64":
        # not a base64 token (incorrect padding), whatever the alphabet / checksum
        return rng.choice([b"QUJ", b"Q", b"QUJDR", b"QUJDRA="]) + sep
    if k in ("zlib", "bz2"):
        import bz2
        import zlib
        inner = r["inner"]["k"]
        payload = {"json": b"{\"a\": tru", "pickle": b"\x80\x04nonsense", "line": b"\xff\xfe\n"}.get(inner)
        if payload is None:
            return None
        return zlib.compress(payload, 1) if k == "zlib" else bz2.compress(payload, 1)
    if k == "autosep":
        fill = next(bytes([c]) for c in b"bcxyz" if c not in sep)
        return b"\xff" + fill * rng.randint(0, 4) + sep
    if k == "fixed":
        return b"\xff" + bytes(rng.randrange(1, 255) for _ in range(r["size"] - 1))
    if k in FILE_TOYS:
        return bytes([rng.randint(201, 255)])
    return None
