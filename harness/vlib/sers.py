"""
Serializer configurations shared by the framing properties (C01 C02 C03 C05 C06 C07 C15).

A *spec* is a JSON-serialisable dict; `build(spec)` returns the real EasyNetwork serializer.
A *packet value* is stored in cases in a tagged JSON form (`enc_val` / `dec_val`).
`model_head(spec, path, hint)` names the Lean model (endriver) that mirrors the serializer's framer, if any.
Session 4: every constructor option is a spec key (`build`), `vary` draws them from their legal domain, `valid_packet` /
`codec_roundtrips` define the valid packets of an option-varied spec, `CODEC_BAD` / `HOSTILE_PICKLES` the malformed ones.
"""
from __future__ import annotations

import collections
import functools
import io
import json as _json
import os
import re as _re
import struct as _struct
from typing import Any

from vlib import core  # noqa: F401  (sets sys.path for /repo/src)

from easynetwork.exceptions import DeserializeError
from easynetwork.serializers.base_stream import (
    AutoSeparatedPacketSerializer,
    FileBasedPacketSerializer,
    FixedSizePacketSerializer,
)
from easynetwork.serializers.composite import (
    StapledBufferedIncrementalPacketSerializer,
    StapledIncrementalPacketSerializer,
)
from easynetwork.serializers.json import JSONSerializer
from easynetwork.serializers.line import StringLineSerializer
from easynetwork.serializers.pickle import PickleSerializer
from easynetwork.serializers.struct import NamedTupleStructSerializer, StructSerializer
from easynetwork.serializers.wrapper.base64 import Base64EncoderSerializer
from easynetwork.serializers.wrapper.compressor import BZ2CompressorSerializer, ZlibCompressorSerializer

NEWLINES = {"LF": b"\n", "CR": b"\r", "CRLF": b"\r\n"}


def _held(data: Any, hold: str | None) -> Any:
    """what a harness `deserialize(data)` makes of its argument (spec key `hold`):
        None    a private copy (the historical behaviour of the harness serializers)
        "arg"   the argument object ITSELF is the packet ("the packet is the raw record"): if the library hands over a view
                of its receive buffer instead of the documented `bytes`, the packet changes under the application's feet
                when later data arrives (seen by the retained-packet re-check of streamdrive.Retain)
        "text"  uses the `bytes` API of the documented argument type (`data.decode`), as a text-record subclass would"""
    if hold == "arg":
        return data
    if hold == "text":
        return data.decode("latin-1").encode("latin-1")
    return bytes(data)


class RawAutoSep(AutoSeparatedPacketSerializer[bytes, bytes]):
    """harness subclass of the public base class: packets are raw byte strings; payloads starting with
    0xff are *undecodable* (DeserializeError) so that malformed-but-well-delimited frames exist"""

    def __init__(self, *args: Any, hold: str | None = None, **kwargs: Any) -> None:
        super().__init__(*args, **kwargs)
        self.hold = hold

    def serialize(self, packet: bytes) -> bytes:
        return bytes(packet)

    def deserialize(self, data: bytes) -> bytes:
        if data[:1] == b"\xff":
            raise DeserializeError("undecodable payload (starts with 0xff)")
        return _held(data, self.hold)


class RawFixed(FixedSizePacketSerializer[bytes, bytes]):
    def __init__(self, *args: Any, hold: str | None = None, **kwargs: Any) -> None:
        super().__init__(*args, **kwargs)
        self.hold = hold

    def serialize(self, packet: bytes) -> bytes:
        return bytes(packet)

    def deserialize(self, data: bytes) -> bytes:
        if len(data) != self.packet_size:
            raise DeserializeError("bad size")
        if data[:1] == b"\xff":
            raise DeserializeError("undecodable payload (starts with 0xff)")
        return _held(data, self.hold)


class ToyFileError(Exception):
    pass


# `expected_load_error` configurations of the file toys (spec key `expected`).  The loader only ever raises ToyFileError (or
# EOFError); the wide ones are what a subclass wrapping an API with an open-ended error set declares (the library's own
# MessagePackSerializer passes `Exception`), and they also cover the library's own DeserializeError / LimitOverrunError.
EXPECTED_LOAD_ERRORS: dict[str, Any] = {
    "toy": ToyFileError,
    "exception": Exception,
    "tuple": (ValueError, Exception),
    "narrowtuple": (KeyError, ToyFileError, ValueError),
    "deser": (ToyFileError, DeserializeError),
}
FILE_TOYS = ("filetoy", "filepeek", "fileahead")


class ToyFile(FileBasedPacketSerializer[bytes, bytes]):
    """length-prefixed toy file format: 1 byte n (0..200), then n bytes. n > 200 is a format error.
    Spec key `hdr` (session 4, default 1): width of the big-endian length header; with hdr > 1 payloads up to 1 MiB are legal
    (frames far above the 16 KiB default read size, for limits of tens of kilobytes); a larger length is a format error and the
    position is then just behind the header, as for the 1-byte format."""

    def __init__(self, limit: int, expected: str = "toy", debug: bool = False, hdr: int = 1) -> None:
        super().__init__(expected_load_error=EXPECTED_LOAD_ERRORS[expected], limit=limit, debug=debug)
        self.hdr = hdr
        self.maxlen = 200 if hdr == 1 else min(1 << 20, 256 ** hdr - 1)

    def dump_to_file(self, packet: bytes, file: io.IOBase) -> None:
        assert len(packet) <= self.maxlen
        file.write(len(packet).to_bytes(self.hdr, "big") + bytes(packet))

    def _header(self, h: bytes) -> int:
        n = int.from_bytes(h, "big")
        if n > self.maxlen:
            raise ToyFileError(f"bad length {n}")
        return n

    def load_from_file(self, file: io.IOBase) -> bytes:
        h = file.read(self.hdr)
        if len(h) < self.hdr:
            raise EOFError
        n = self._header(h)
        data = file.read(n)
        if len(data) < n:
            raise EOFError
        return data


class PeekFile(ToyFile):
    """same format as ToyFile, but the loader looks at the header and raises EOFError as soon as it sees that the body is
    incomplete, WITHOUT reading the partial body (the file position is then not at the end) — allowed by the documented
    contract of load_from_file()"""

    def load_from_file(self, file: io.IOBase) -> bytes:
        h = file.read(self.hdr)
        if len(h) < self.hdr:
            raise EOFError
        n = self._header(h)
        here = file.tell()
        end = file.seek(0, 2)
        file.seek(here)
        if end - here < n:
            raise EOFError
        return file.read(n)


class AheadFile(ToyFile):
    """same format as ToyFile, but the loader reads EVERYTHING available first (as decoders with an internal read-ahead
    buffer do), works on that, and then seeks back to the end of what it used: the file position moves forwards and
    backwards during one load.  After a format error the position is just behind the bad header byte, as for ToyFile."""

    def load_from_file(self, file: io.IOBase) -> bytes:
        start = file.tell()
        data = file.read()
        w = self.hdr
        if len(data) < w:
            raise EOFError
        n = int.from_bytes(data[:w], "big")
        if n > self.maxlen:
            file.seek(start + w)
            raise ToyFileError(f"bad length {n}")
        if len(data) < w + n:
            raise EOFError          # (position left at the end, like ToyFile)
        file.seek(start + w + n)
        return data[w:w + n]


Point = collections.namedtuple("Point", ["x", "y", "name"])

_NT_CLASSES: dict[tuple, Any] = {}


def nt_class(names) -> Any:
    """the named-tuple class of a `ntstruct` spec with explicit `fields` (one class object per field-name tuple: the real
    serializer checks `isinstance(packet, namedtuple_cls)`)"""
    key = tuple(names)
    if key not in _NT_CLASSES:
        _NT_CLASSES[key] = collections.namedtuple("Rec", list(key))
    return _NT_CLASSES[key]


# ---- JSON encoder / decoder configuration knobs, named so that a spec stays JSON-serialisable -------------------------------
def _json_default(o: Any) -> Any:
    if isinstance(o, (set, frozenset)):
        return sorted(o)
    raise TypeError(f"not JSON serialisable: {o!r}")


_JSON_CALLABLES: dict[str, Any] = {
    "int": int, "float": float, "dict": dict, "ident": lambda d: d, "constfloat": float, "setlist": _json_default,
}


def _json_configs(spec: dict):
    from easynetwork.serializers.json import JSONDecoderConfig, JSONEncoderConfig
    enc = dec = None
    if spec.get("enc"):
        e = dict(spec["enc"])
        if "default" in e:
            e["default"] = _JSON_CALLABLES[e["default"]]
        enc = JSONEncoderConfig(**e)
    if spec.get("dec"):
        d = {k: (_JSON_CALLABLES[v] if isinstance(v, str) else v) for k, v in spec["dec"].items()}
        dec = JSONDecoderConfig(**d)
    return enc, dec


B64_KEYS = ["MDEyMzQ1Njc4OWFiY2RlZjAxMjM0NTY3ODlhYmNkZWY=", "_-_-_-_-_-_-_-_-_-_-_-_-_-_-_-_-_-_-_-_-_-8="]   # 32-byte url-safe keys


def _pickle_kwargs(spec: dict) -> dict:
    import pickle
    from easynetwork.serializers.pickle import PicklerConfig, UnpicklerConfig
    kw: dict[str, Any] = {}
    if "proto" in spec or "fix_imports" in spec:
        kw["pickler_config"] = PicklerConfig(protocol=spec.get("proto", pickle.DEFAULT_PROTOCOL), fix_imports=spec.get("fix_imports", False))
    if "unpickler" in spec:
        kw["unpickler_config"] = UnpicklerConfig(**spec["unpickler"])
    if spec.get("optimize"):
        kw["pickler_optimize"] = True
    if spec.get("classes"):
        # user-supplied Pickler / Unpickler classes (the documented way to restrict what may be loaded)
        class _P(pickle.Pickler):
            pass

        class _U(pickle.Unpickler):
            def find_class(self, module: str, name: str) -> Any:
                if module in ("os", "posix", "nt", "subprocess", "sys"):
                    raise pickle.UnpicklingError(f"global {module}.{name} is forbidden")
                return super().find_class(module, name)
        kw["pickler_cls"], kw["unpickler_cls"] = _P, _U
    return kw


def nt_format(spec: dict) -> str:
    """struct format of a `ntstruct` spec (as the real serializer builds it: no byte-order character = network order)"""
    if "fields" not in spec:
        return "!iH6s"
    return (spec.get("endian", "") or "!") + "".join(f for _, f in spec["fields"])


def build(spec: dict) -> Any:
    """every kind takes the optional key `debug` (the serializers' `debug=True` mode: error reports carry `error_info`).
    Session 4: every constructor option is a spec key (absent = the library's / the harness' historical default):
      line      newline keep_end limit encoding errors(=unicode_errors)
      json      use_lines limit encoding errors enc{skipkeys check_circular ensure_ascii allow_nan default} dec{strict parse_int
                parse_float parse_constant object_hook object_pairs_hook}
      struct    format (byte order, repeat counts, pad bytes, s / p / c / ? / e f d)
      ntstruct  fields[[name, fmt]…] endian encoding(None = bytes fields) errors strip(=strip_string_trailing_nul_bytes)
      b64       inner alphabet checksum(False | True | {"key": <32-byte url-safe key>, "as": "str" | "bytes"}) separator limit
      zlib bz2  inner level
      pickle    proto fix_imports unpickler{fix_imports encoding errors} optimize classes(user Pickler / Unpickler subclasses)
      autosep   sep limit check(=incremental_serialize_check_separator) hold      fixed  size hold
      file toys limit expected hdr"""
    k = spec["k"]
    dbg = bool(spec.get("debug", False))
    if k == "line":
        return StringLineSerializer(spec["newline"], encoding=spec.get("encoding", "ascii"), unicode_errors=spec.get("errors", "strict"),
                                    limit=spec["limit"], keep_end=spec.get("keep_end", False), debug=dbg)
    if k == "json":
        enc, dec = _json_configs(spec)
        return JSONSerializer(enc, dec, encoding=spec.get("encoding", "utf-8"), unicode_errors=spec.get("errors", "strict"),
                              limit=spec["limit"], use_lines=spec.get("use_lines", True), debug=dbg)
    if k == "struct":
        return StructSerializer(spec["format"], debug=dbg)
    if k == "ntstruct":
        if "fields" not in spec:
            return NamedTupleStructSerializer(Point, {"x": "i", "y": "H", "name": "6s"}, format_endianness="!", debug=dbg)
        names = [n for n, _ in spec["fields"]]
        return NamedTupleStructSerializer(nt_class(names), dict(spec["fields"]), spec.get("endian", ""), spec.get("encoding", "utf-8"),
                                          spec.get("errors", "strict"), spec.get("strip", True), debug=dbg)
    if k == "b64":
        ck = spec.get("checksum", False)
        if isinstance(ck, dict):
            ck = ck["key"] if ck.get("as") == "str" else ck["key"].encode("ascii")
        return Base64EncoderSerializer(build(spec["inner"]), alphabet=spec.get("alphabet", "urlsafe"),
                                       checksum=ck,
                                       separator=bytes.fromhex(spec.get("separator", "0d0a")), limit=spec["limit"], debug=dbg)
    if k == "zlib":
        return ZlibCompressorSerializer(build(spec["inner"]), compress_level=spec.get("level"), debug=dbg)
    if k == "bz2":
        return BZ2CompressorSerializer(build(spec["inner"]), compress_level=spec.get("level"), debug=dbg)
    if k == "autosep":
        return RawAutoSep(bytes.fromhex(spec["sep"]), limit=spec["limit"],
                          incremental_serialize_check_separator=spec.get("check", True), debug=dbg, hold=spec.get("hold"))
    if k == "fixed":
        return RawFixed(spec["size"], debug=dbg, hold=spec.get("hold"))
    if k == "filetoy":
        return ToyFile(spec["limit"], spec.get("expected", "toy"), dbg, spec.get("hdr", 1))
    if k == "filepeek":
        return PeekFile(spec["limit"], spec.get("expected", "toy"), dbg, spec.get("hdr", 1))
    if k == "fileahead":
        return AheadFile(spec["limit"], spec.get("expected", "toy"), dbg, spec.get("hdr", 1))
    if k == "pickle":
        return PickleSerializer(debug=dbg, **_pickle_kwargs(spec))
    if k == "stapled":
        return StapledIncrementalPacketSerializer(build(spec["sent"]), build(spec["received"]))
    if k == "stapledbuf":
        return StapledBufferedIncrementalPacketSerializer(build(spec["sent"]), build(spec["received"]))
    raise ValueError(k)


def recv_spec(spec: dict) -> dict:
    """the serializer actually used on the receive side"""
    return recv_spec(spec["received"]) if spec["k"] in ("stapled", "stapledbuf") else spec


def send_spec(spec: dict) -> dict:
    return send_spec(spec["sent"]) if spec["k"] in ("stapled", "stapledbuf") else spec


def is_buffered(spec: dict) -> bool:
    k = spec["k"]
    if k in ("json", "pickle", "stapled"):
        return False
    return True


def separator(spec: dict) -> bytes | None:
    spec = recv_spec(spec)
    k = spec["k"]
    if k == "line":
        return NEWLINES[spec["newline"]]
    if k == "json" and spec.get("use_lines", True):
        return b"\n"
    if k == "b64":
        return bytes.fromhex(spec.get("separator", "0d0a"))
    if k == "autosep":
        return bytes.fromhex(spec["sep"])
    return None


def limit_of(spec: dict) -> int | None:
    spec = recv_spec(spec)
    return spec.get("limit")


def keep_end(spec: dict) -> bool:
    spec = recv_spec(spec)
    if spec["k"] == "line":
        return bool(spec.get("keep_end", False))
    if spec["k"] == "json":
        return True  # read_until default keep_end=True (the JSON decoder ignores the trailing newline)
    return False


def fixed_size(spec: dict) -> int | None:
    spec = recv_spec(spec)
    if spec["k"] == "struct":
        return _struct.calcsize(spec["format"])
    if spec["k"] == "ntstruct":
        return _struct.calcsize(nt_format(spec))
    if spec["k"] == "fixed":
        return spec["size"]
    return None


MODEL_RUNS: dict[str, int] = {}   # ---- raw JSON framer ---- (how often each framer model was named: evidence `model_runs_by_framer`)


def model_head(spec: dict, path: str, hint: int, fixed_variant: bool = True, *,
               chunks: "list[bytes] | None" = None, real: "list[str] | None" = None) -> str | None:
    """endriver model + config for the receive side, or None if the framer has no Lean model (yet)"""
    head = _model_head(spec, path, hint, fixed_variant, chunks, real)
    if head is not None:
        MODEL_RUNS[head.split()[0]] = MODEL_RUNS.get(head.split()[0], 0) + 1
    return head


def _model_head(spec: dict, path: str, hint: int, fixed_variant: bool = True,
                chunks: "list[bytes] | None" = None, real: "list[str] | None" = None) -> str | None:
    sep = separator(spec)
    if sep is not None:
        lim = limit_of(spec)
        ke = 1 if keep_end(spec) else 0
        if path == "copy":
            return f"ru {sep.hex()} {lim} {ke}"
        return f"bru {1 if fixed_variant else 0} {sep.hex()} {lim} {ke}"
    n = fixed_size(spec)
    if n is not None:
        if path == "copy":
            return f"re {n}"
        return f"bfx {n} {max(n, hint)}"
    # ---- raw JSON framer ----
    r = recv_spec(spec)
    if r["k"] == "json" and not r.get("use_lines", True) and path == "copy":
        # _JSONParser.raw_parse under the copying consumer (JSONSerializer has no buffered variant)
        return f"jraw {limit_of(spec)}"
    # ---- end raw JSON framer ----
    # ---- generic framers ----
    # file-based toys and zlib/bz2 wrappers: the model needs the loader/decompressor boundaries of the case's stream,
    # computed with the real library from the reads (`chunks`) actually made; without them there is no model run
    if chunks is not None:
        from vlib import genericfr
        return genericfr.head(spec, path, hint, chunks, real)
    # ---- end generic framers ----
    return None


# ------------------------------------------------------------------------------------------------
# packet values
# ------------------------------------------------------------------------------------------------

def enc_val(v: Any) -> Any:
    if isinstance(v, (bytes, bytearray, memoryview)):
        return {"t": "b", "v": bytes(v).hex()}
    if isinstance(v, Point):
        return {"t": "pt", "v": [v.x, v.y, v.name]}
    if isinstance(v, tuple) and hasattr(v, "_fields"):
        return {"t": "nt", "f": list(v._fields), "v": [enc_val(x) for x in v]}
    if isinstance(v, tuple):
        return {"t": "tu", "v": [enc_val(x) for x in v]}
    if isinstance(v, str):
        return {"t": "s", "v": v}
    return {"t": "j", "v": v}


def dec_val(o: Any) -> Any:
    t = o["t"]
    if t == "b":
        return bytes.fromhex(o["v"])
    if t == "pt":
        return Point(*o["v"])
    if t == "tu":
        return tuple(dec_val(x) for x in o["v"])
    if t == "nt":
        return nt_class(o["f"])(*[dec_val(x) for x in o["v"]])
    return o["v"]


def show(v: Any) -> str:
    """canonical text of a packet value"""
    if isinstance(v, (bytes, bytearray, memoryview)):
        return "b:" + (bytes(v).hex() or "-")
    return repr(v)


ALPHA = "abcxyz01 \t"


def gen_packet(rng, spec: dict, maxlen: int = 12) -> Any:
    """a *valid* packet for the send side of `spec` (one the producer accepts and that yields a non-empty frame)"""
    if has_options(spec):
        return _gen_packet_opt(rng, spec, maxlen)
    spec = send_spec(spec)
    k = spec["k"]
    if k == "line":
        nl = NEWLINES[spec["newline"]].decode()
        chars = ALPHA + ("é€" if spec.get("encoding") == "utf-8" else "")
        # payloads may contain *parts* of the newline sequence (a lone \r for CRLF) but not the sequence
        if spec["newline"] == "CRLF":
            chars += "\r" if rng.random() < 0.5 else "\n" if rng.random() < 0.5 else ""
        while True:
            n = rng.randint(1, maxlen)
            s = "".join(rng.choice(chars) for _ in range(n))
            if nl in s or (s + nl).find(nl) != len(s):
                continue
            if spec.get("keep_end"):
                s += nl
            return s
    if k == "json":
        def val(d: int) -> Any:
            r = rng.random()
            if d > 2 or r < 0.3:
                return rng.choice([0, -3, 17, 2.5, True, None, "a", "x\"y\\", "{[", "é", "", "\n",
                                   "\\\"", "C:\\dir\\\"q\"", "\\\\\"]", "\\" * rng.randint(1, 4) + "\"" + "}" * rng.randint(0, 2)])
            if r < 0.65:
                return [val(d + 1) for _ in range(rng.randint(0, 3))]
            return {rng.choice(["k", "a b", "}", "\\"]): val(d + 1) for _ in range(rng.randint(0, 2))}
        return val(0)
    if k == "struct":
        fmt = spec["format"]
        vals = []
        for ch in fmt:
            if ch in "bB":
                vals.append(rng.randint(0, 127))
            elif ch in "hH":
                vals.append(rng.randint(0, 30000))
            elif ch in "iIlLqQ":
                vals.append(rng.randint(0, 2**31 - 1))
        return tuple(vals)
    if k == "ntstruct":
        return Point(rng.randint(-1000, 1000), rng.randint(0, 65535), rng.choice(["a", "abc", "abcdef", ""]))
    if k in ("b64", "zlib", "bz2"):
        return gen_packet(rng, spec["inner"], maxlen)
    if k == "autosep":
        sep = bytes.fromhex(spec["sep"])
        alphabet = bytes(set(sep)) + b"ab"
        ser = build(spec)
        while True:
            n = rng.randint(1, maxlen)
            p = bytes(rng.choice(alphabet) for _ in range(n))
            if p[:1] == b"\xff" or p.endswith(sep):
                continue
            # valid = what the producer itself accepts (its separator check raises ValueError otherwise)
            try:
                list(ser.incremental_serialize(p))
            except ValueError:
                continue
            return p
    if k == "fixed":
        p = bytes(rng.randrange(0, 255) for _ in range(spec["size"]))
        return p if p[:1] != b"\xff" else b"a" + p[1:]
    if k in FILE_TOYS:
        return bytes(rng.randrange(256) for _ in range(rng.randint(0, maxlen)))
    if k == "pickle":
        return rng.choice([1, "a", [1, 2], {"k": (1, 2)}, None, b"xyz"])
    raise ValueError(k)


def expected_received(spec: dict, packet: Any) -> Any:
    """what the receive side should return for a sent packet (identity but for representation changes)"""
    r = recv_spec(spec)
    while r["k"] in ("b64", "zlib", "bz2"):
        r = r["inner"]
    if r["k"] in ("autosep", "fixed") + FILE_TOYS:
        return bytes(packet)
    if r["k"] == "struct":
        # struct semantics (not EasyNetwork's): an `Ns` value shorter than N comes back padded with NUL bytes
        out, vals = [], list(packet)
        for cnt, ch in struct_tokens(r["format"]):
            if ch == "x":
                continue
            if ch in "sp":
                v = vals.pop(0)
                out.append(v + b"\0" * (cnt - len(v)) if ch == "s" else v)
            else:
                for _ in range(cnt):
                    out.append(vals.pop(0))
        return tuple(out)
    if r["k"] == "ntstruct" and "fields" in r:
        # the same padding for the `Ns` fields, removed again iff strip_string_trailing_nul_bytes; text fields through the
        # Python codec (a parameter, as everywhere)
        enc, err, strip = r.get("encoding", "utf-8"), r.get("errors", "strict"), r.get("strip", True)
        vals = []
        for (name, fmt), v in zip(r["fields"], packet):
            if fmt.endswith("s"):
                n = int(fmt[:-1] or 1)
                b = v if enc is None else v.encode(enc, err)
                b = b + b"\0" * (n - len(b))
                if strip:
                    b = b.rstrip(b"\0")
                try:
                    v = b if enc is None else str(b, enc, err)
                except UnicodeError:
                    pass            # (no expectation can be computed: the packet itself stays the expectation)
            vals.append(v)
        return type(packet)(*vals)
    return packet


# separators: 1 to 4 bytes; self-overlapping ones (7c7c, 616162, 2d2d3e: first byte repeated; 616261, 0d0a0d: first byte = last
# byte) and ones made of distinct bytes (3c7c3e "<|>", 0d0a2e, 61626364): for the latter a terminator cut after its
# last-but-one byte leaves a buffer that ends neither with the separator's first byte nor with a repeated byte
AUTOSEP_SEPS = ["0a", "0d0a", "7c7c", "616162", "2d2d3e", "00", "3c7c3e", "616261", "0d0a2e", "61626364", "0d0a0d0a", "3c2d2d3e"]
B64_SEPS = ["0d0a", "0a", "7c", "2323", "3c7c3e", "0d0a2e", "2e2e2e", "0d0a0d0a"]
EXPECTED_KEYS = ["toy", "toy", "exception", "tuple", "narrowtuple", "deser"]


def gen_spec(rng, *, limits=(8, 16, 64, 65536), allow=None, rich: bool = False) -> dict:
    """a random serializer configuration (receive and send side identical).
    rich=False: the historical configuration space and random stream (other checks, e.g. C15, depend on it).
    rich=True : adds debug=True variants of everything, packets that keep their deserialize() argument (`hold`), separators
                of 3 and 4 bytes, Base64 with 3/4-byte separators, file toys with wide `expected_load_error` and with a
                read-ahead loader, and the non-buffered composite (StapledIncrementalPacketSerializer)."""
    if not rich:
        return _gen_spec(rng, rng.choice(allow or ["line", "line", "json", "jsonraw", "struct", "ntstruct", "b64", "zlib", "bz2",
                                                   "autosep", "autosep", "fixed", "filetoy", "filepeek", "stapledbuf"]),
                         rng.choice(limits), limits, False)
    kinds = allow or ["line", "line", "json", "jsonraw", "struct", "ntstruct", "b64", "zlib", "bz2",
                      "autosep", "autosep", "fixed", "filetoy", "filepeek", "fileahead", "stapledbuf", "stapled"]
    k = rng.choice(kinds)
    lim = rng.choice(limits)
    spec = _gen_spec(rng, k, lim, limits, True)
    # debug=True variants of everything (error reports then carry error_info; the framing must not change)
    if spec["k"] not in ("stapled", "stapledbuf") and rng.random() < 0.3:
        spec["debug"] = True
    # session 4: the constructor options of the serializer (and of what it wraps) drawn from their legal domain
    if rng.random() < 0.55:
        vary(rng, spec)
    return spec


def _gen_spec(rng, k: str, lim: int, limits, rich: bool) -> dict:
    if k == "line":
        return {"k": "line", "newline": rng.choice(["LF", "CR", "CRLF"]), "keep_end": rng.random() < 0.4,
                "encoding": rng.choice(["ascii", "utf-8"]), "limit": max(lim, 4)}
    if k == "json":
        return {"k": "json", "use_lines": True, "limit": max(lim, 64)}
    if k == "jsonraw":
        return {"k": "json", "use_lines": False, "limit": max(lim, 64)}
    if k == "struct":
        return {"k": "struct", "format": rng.choice(["!B", "!HB", "!IH", "<qB"])}
    if k == "ntstruct":
        return {"k": "ntstruct"}
    if k in ("b64", "zlib", "bz2"):
        inner = rng.choice([{"k": "json", "use_lines": True, "limit": 65536}, {"k": "pickle"},
                            {"k": "line", "newline": "LF", "limit": 65536, "encoding": "utf-8"}])
        if rich and rng.random() < 0.3:
            inner = {**inner, "debug": True}
        if k == "b64":
            return {"k": "b64", "inner": inner, "alphabet": rng.choice(["standard", "urlsafe"]),
                    "checksum": rng.random() < 0.5, "separator": rng.choice(B64_SEPS if rich else B64_SEPS[:4]), "limit": 65536}
        return {"k": k, "inner": inner, "level": rng.choice([None, 1, 9])}
    if k == "autosep":
        if not rich:
            return {"k": "autosep", "sep": rng.choice(AUTOSEP_SEPS[:6]), "limit": max(lim, 4), "check": True}
        spec = {"k": "autosep", "sep": rng.choice(AUTOSEP_SEPS), "limit": max(lim, 6), "check": True}
        if rng.random() < 0.4:
            spec["hold"] = rng.choice(["arg", "text"])
        return spec
    if k == "fixed":
        spec = {"k": "fixed", "size": rng.choice([1, 2, 5, 9])}
        if rich and rng.random() < 0.6:
            spec["hold"] = rng.choice(["arg", "arg", "text"])
        return spec
    if k in FILE_TOYS:
        spec = {"k": k, "limit": max(lim, 32)}
        if rich and (e := rng.choice(EXPECTED_KEYS)) != "toy":
            spec["expected"] = e
        return spec
    if k in ("stapledbuf", "stapled"):
        # composite: a sending half and a receiving half (same configuration; built as two objects)
        sub = ["line", "autosep", "fixed"] if k == "stapledbuf" else ["line", "json", "jsonraw", "autosep", "fixed", "filetoy"]
        a = gen_spec(rng, limits=limits, allow=sub, rich=rich)
        return {"k": k, "sent": a, "received": a}
    raise ValueError(k)


# ------------------------------------------------------------------------------------------------
# session 4: constructor OPTIONS drawn from their legal domain
# ------------------------------------------------------------------------------------------------
# A spec that carries any of the option keys below is an "option-varied" spec: packets for it come from `_gen_packet_opt`
# (candidates filtered by `valid_packet`), everything else keeps the historical generator and random stream (C03 / C15 use it).
_OPTION_KEYS = ("errors", "enc", "dec", "fields", "proto", "fix_imports", "unpickler", "optimize", "classes", "hdr", "opt")

# text encodings.  ASCII-transparent = every ASCII byte stands for the same ASCII character and no other character's encoding
# contains an ASCII byte: the only ones the byte-oriented JSON framers (newline / bracket scanner) can carry in STREAM mode
# (JSONSerializer(encoding="utf-16") sends documents the receiving side of the same serializer rejects: reported, see
# docs/SER-STRENGTHENING.md section 10; env VERIF_SER_REPORTED=1 puts those configurations back into the generators).
ENC_ASCII = ["ascii", "utf-8", "latin-1", "cp1252", "iso8859-15", "cp437", "koi8-r"]
ENC_WIDE = ["utf-16", "utf-16-be", "utf-16-le", "utf-32", "utf-7", "utf-8-sig", "idna", "punycode", "cp037", "shift_jis", "gb18030",
            "unicode_escape"]
# error handlers that exist for BOTH directions (xmlcharrefreplace / namereplace are encode-only in Python: str(bytes, enc,
# "xmlcharrefreplace") answers malformed input with TypeError — a configuration outside the legal domain of a serializer
# that also decodes; reported as an observation)
ERRORS = ["strict", "surrogateescape", "surrogatepass", "replace", "ignore", "backslashreplace"]
REPORTED = bool(os.environ.get("VERIF_SER_REPORTED"))

STRUCT_FORMATS = ["!B", "!HB", "!IH", "<qB", "!?f", ">3H", "<2xHx", "=hQ", "@bI", "!4sB", "<5pH", "!c?", "!d", "<e", "hh", ">bBhHiIlLqQ",
                  "@c3xi", "!2s2s", "<0sB", "=?x?"]


def has_options(spec: dict) -> bool:
    if any(k in spec for k in _OPTION_KEYS):
        return True
    if spec["k"] == "line" and spec.get("encoding", "ascii") not in ("ascii", "utf-8"):
        return True
    if spec["k"] == "json" and "encoding" in spec:
        return True
    if spec["k"] == "struct" and spec["format"] not in ("!B", "!HB", "!IH", "<qB"):
        return True
    if isinstance(spec.get("checksum"), dict) or spec.get("check") is False:
        return True
    return any(has_options(spec[k]) for k in ("inner", "sent", "received") if isinstance(spec.get(k), dict))


def struct_tokens(fmt: str) -> list[tuple[int, str]]:
    """(repeat count, format character) of a struct format, byte-order character dropped"""
    if fmt[:1] in "@=<>!":
        fmt = fmt[1:]
    return [(int(c or 1), ch) for c, ch in _re.findall(r"(\d*)([a-zA-Z?])", fmt)]


def vary(rng, spec: dict, *, oneshot: bool = False, malformed: bool = False, ascii_only: bool = False) -> dict:
    """draw the constructor options of `spec` (in place) from their legal domain; a draw is kept only if the real constructor
    accepts it and (unless malformed) at least one valid packet exists for it — e.g. the idna codec supports no error handler
    but strict, and a punycode line with keep_end ends with "-", never with the newline: such draws are repeated."""
    import copy
    for _ in range(12):
        cand = copy.deepcopy(spec)
        _vary(rng, cand, oneshot=oneshot, malformed=malformed, ascii_only=ascii_only)
        try:
            build(cand)
            ok = malformed or valid_packet(cand, fallback_packet(cand), oneshot)
        except Exception:  # noqa: BLE001
            ok = False
        if ok:
            spec.clear()
            spec.update(cand)
            break
    return spec


def _vary(rng, spec: dict, *, oneshot: bool = False, malformed: bool = False, ascii_only: bool = False) -> dict:
    """draw the constructor options of `spec` (in place, recursively) from their legal domain.
    oneshot   : the serializer is only used through serialize()/deserialize() (datagrams, inside a wrapper): JSON may use any
                text encoding
    malformed : no round trip is expected (C06): any text encoding for line / JSON as well
    ascii_only: payloads are built by the caller from ASCII filler bytes (C02, C07): ASCII-transparent encodings only"""
    k = spec["k"]
    if k in ("stapled", "stapledbuf"):
        _vary(rng, spec["received"], oneshot=oneshot, malformed=malformed, ascii_only=ascii_only)
        spec["sent"] = spec["received"]
        if rng.random() < 0.3:
            # the sending half is a different object with its own limit / debug flag (neither takes part in sending)
            spec["sent"] = {**spec["received"], "debug": rng.random() < 0.5}
            if "limit" in spec["sent"]:
                spec["sent"]["limit"] = rng.choice([1, 7, 1 << 20])
                if spec["sent"]["k"] == "json":
                    spec["sent"]["limit"] = max(spec["sent"]["limit"], 7)
        return spec
    if k in ("b64", "zlib", "bz2"):
        if rng.random() < 0.5:
            spec["inner"] = _gen_inner(rng)
        _vary(rng, spec["inner"], oneshot=True, malformed=malformed)
        if k == "b64":
            r = rng.random()
            if r < 0.3:
                spec["checksum"] = {"key": rng.choice(B64_KEYS), "as": rng.choice(["str", "bytes"])}
            spec["alphabet"] = rng.choice(["standard", "urlsafe"])
        else:
            spec["level"] = rng.choice([None, 1, 2, 5, 9] + ([0, -1] if k == "zlib" else []))
        spec["opt"] = 1
        return spec
    if k == "line":
        # keep_end: the newline is part of the decoded text, and the producer appends the RAW separator bytes unless the encoded
        # text already ends with them: only meaningful when the codec encodes the newline as those very bytes
        encs = ENC_ASCII if ascii_only else ENC_ASCII + ["utf-8-sig"] if (spec.get("keep_end") and not malformed) else ENC_ASCII + ENC_WIDE
        spec["encoding"] = rng.choice(encs)
        spec["errors"] = _pick_errors(rng, spec["encoding"])
        return spec
    if k == "json":
        wide_ok = (oneshot or malformed or REPORTED) and not ascii_only
        encs = list(ENC_ASCII)
        if wide_ok:
            encs += ENC_WIDE
        elif spec.get("use_lines", True) and not ascii_only:
            encs += ["utf-7", "utf-8-sig"]      # no newline byte inside, and the framer only looks for the newline
        spec["encoding"] = rng.choice(encs)
        spec["errors"] = _pick_errors(rng, spec["encoding"])
        if rng.random() < 0.6:
            spec["enc"] = {"ensure_ascii": rng.random() < 0.4, "allow_nan": rng.random() < 0.6, "skipkeys": rng.random() < 0.3,
                           "check_circular": rng.random() < 0.5}
            if rng.random() < 0.3:
                spec["enc"]["default"] = "setlist"
        if rng.random() < 0.6:
            d: dict[str, Any] = {"strict": rng.random() < 0.5}
            for key, name in (("parse_int", "int"), ("parse_float", "float"), ("parse_constant", "constfloat"),
                              ("object_hook", "ident"), ("object_pairs_hook", "dict")):
                if rng.random() < 0.3:
                    d[key] = name
            spec["dec"] = d
        return spec
    if k == "struct":
        spec["format"] = rng.choice(STRUCT_FORMATS)
        return spec
    if k == "ntstruct":
        return _vary_ntstruct(rng, spec, malformed)
    if k == "pickle":
        spec["proto"] = rng.choice([0, 1, 2, 3, 4, 5])
        spec["fix_imports"] = rng.random() < 0.3
        if rng.random() < 0.4:
            spec["unpickler"] = {"fix_imports": rng.random() < 0.5, "encoding": rng.choice(["utf-8", "latin-1", "bytes"]),
                                 "errors": rng.choice(["strict", "replace"])}
        if spec["fix_imports"]:
            # (Python-2 compatible names are written for protocols < 3: the reading side must map them back)
            spec["unpickler"] = {**spec.get("unpickler", {"encoding": "utf-8", "errors": "strict"}), "fix_imports": True}
        spec["optimize"] = rng.random() < 0.4
        spec["classes"] = rng.random() < 0.3
        return spec
    if k == "autosep":
        if rng.random() < 0.4:
            spec["check"] = False
        spec["opt"] = 1
        return spec
    if k == "fixed":
        spec["size"] = rng.choice([1, 2, 3, 5, 9, 17, 64])
        spec["opt"] = 1
        return spec
    if k in FILE_TOYS:
        spec["opt"] = 1
        return spec
    return spec


def _gen_inner(rng) -> dict:
    """a serializer used through its ONE-SHOT interface inside a wrapper: every newline / keep_end of the line serializer (the
    wrapper calls the inner deserialize(), which strips whole trailing newline sequences only), JSON, pickle, the struct
    serializers, and now and then another wrapper"""
    r = rng.random()
    if r < 0.4:
        return {"k": "line", "newline": rng.choice(["LF", "CR", "CRLF", "CRLF"]), "keep_end": rng.random() < 0.3, "limit": 65536,
                "encoding": rng.choice(["ascii", "utf-8"])}
    if r < 0.55:
        return {"k": "json", "use_lines": rng.random() < 0.7, "limit": 65536}
    if r < 0.7:
        return {"k": "pickle"}
    if r < 0.8:
        return {"k": "struct", "format": "!IH"}
    if r < 0.9:
        return {"k": "ntstruct"}
    w = rng.choice(["b64", "zlib", "bz2"])
    inner = _gen_inner(rng)
    if w == "b64":
        return {"k": "b64", "inner": inner, "checksum": rng.random() < 0.5, "separator": "0d0a", "limit": 65536}
    return {"k": w, "inner": inner}


_NT_FMTS = ["b", "B", "h", "H", "i", "I", "l", "L", "q", "Q", "c", "f", "d", "e", "p"]   # ("?" is refused by the constructor: not isalpha())
_NT_STR = ["s", "1s", "2s", "4s", "6s", "8s", "12s"]


def _vary_ntstruct(rng, spec: dict, malformed: bool) -> dict:
    fields = []
    for i in range(rng.randint(1, 4)):
        fields.append([f"f{i}", rng.choice(_NT_STR) if rng.random() < 0.55 else rng.choice(_NT_FMTS)])
    if not any(f.endswith("s") for _, f in fields):
        fields[rng.randrange(len(fields))][1] = rng.choice(_NT_STR)
    spec["fields"] = fields
    spec["endian"] = rng.choice(["", "!", "<", ">", "=", "@"])
    spec["strip"] = rng.random() < 0.7
    r = rng.random()
    # (utf-16 / utf-32 text in an `Ns` field: its NUL bytes ARE the text, so the documented stripping of trailing NUL bytes cuts
    #  the last character of "abc" in half, and without stripping the NUL padding must itself be whole characters: only for
    #  the malformed-input check)
    spec["encoding"] = None if r < 0.25 else rng.choice(["utf-8", "utf-8", "ascii", "latin-1", "cp1252"] +
                                                       (["utf-16-le", "utf-32-be"] if malformed else []))
    spec["errors"] = _pick_errors(rng, spec["encoding"]) if spec["encoding"] else rng.choice(ERRORS)
    return spec


def _pick_errors(rng, enc: str) -> str:
    """an error handler the codec supports in BOTH directions (idna and punycode know no handler but strict for decoding,
    surrogatepass exists for the utf-8/16/32 family only…): judged by the codec itself on the text "a" """
    ok = [e for e in ERRORS if codec_roundtrips("a", enc, e)]
    return rng.choice(ok or ["strict"])


@functools.lru_cache(maxsize=256)
def _sender(key: str) -> Any:
    return build(_json.loads(key))


def sender(spec: dict) -> Any:
    """the sending-side serializer of `spec` (cached: serializers are stateless)"""
    return _sender(_json.dumps(send_spec(spec), sort_keys=True))


def valid_packet(spec: dict, packet: Any, oneshot: bool = False) -> bool:
    """the documented notion of a valid packet: the producer accepts it, the frame is not empty and (separator framers) the first
    occurrence of the separator in the frame is the appended one.  Judged with the real PRODUCER only."""
    ser = sender(spec)
    try:
        frame = ser.serialize(packet) if oneshot else b"".join(ser.incremental_serialize(packet))
    except Exception:  # noqa: BLE001  (ValueError, UnicodeError, struct.error, TypeError, OverflowError: refused by the sender)
        return False
    if oneshot:
        return True
    if not frame:
        return False
    sep = separator(send_spec(spec))
    if sep is not None and frame.find(sep) != len(frame) - len(sep):
        return False
    return True


def codec_roundtrips(s: str, enc: str, err: str) -> bool:
    """Python's own codec gives the text back (a property of the CODEC, which is a parameter of the theorems): excludes lossy
    handlers where they act (replace, ignore), surrogate escapes that re-combine into a valid sequence, IDNA case folding…"""
    try:
        return str(s.encode(enc, err), enc, err) == s
    except (UnicodeError, LookupError):
        return False


_TEXT_CANDIDATES = ALPHA + "éü€😀ĀĊ\u2028\x00\x7f" + "\udc80\udcff\udce9\ud800\udfff" + "-."


@functools.lru_cache(maxsize=None)
def text_alphabet(enc: str, err: str) -> str:
    if enc in ("idna", "punycode"):
        cand = "abcxyz019-.éü"
    else:
        cand = _TEXT_CANDIDATES
    return "".join(c for c in cand if codec_roundtrips(c, enc, err)) or "a"


def _gen_text(rng, enc: str, err: str, maxlen: int, minlen: int = 1) -> str:
    chars = text_alphabet(enc, err)
    ascii_part = "".join(c for c in chars if c in ALPHA) or chars
    for _ in range(30):
        n = rng.randint(minlen, max(minlen, maxlen))
        # mostly ASCII with some of the special characters, so that the length bound (in BYTES) is met often enough
        s = "".join(rng.choice(chars if rng.random() < 0.35 else ascii_part) for _ in range(n))
        if codec_roundtrips(s, enc, err):
            return s
    return "a" * minlen


def _leaf_packet(rng, spec: dict, maxlen: int) -> Any:
    """one candidate packet for the (innermost) sending serializer of an option-varied spec"""
    k = spec["k"]
    if k == "line":
        enc, err = spec.get("encoding", "ascii"), spec.get("errors", "strict")
        nl = NEWLINES[spec["newline"]].decode()
        s = _gen_text(rng, enc, err, maxlen)
        r = rng.random()
        if len(nl) == 2 and r < 0.45:
            # parts of the newline sequence inside and, above all, at the END of the packet (a lone CR / LF is payload)
            part = rng.choice(["\r", "\n", "\n\r", "\r\r"])
            s = (s[:-1] + part) if r < 0.3 else (s[: len(s) // 2] + part + s[len(s) // 2:])
        elif len(nl) == 1 and r < 0.2:
            s = s[:-1] + ("\n" if nl == "\r" else "\r")
        if spec.get("keep_end"):
            s += nl
        return s
    if k == "json":
        return _gen_json_value(rng, spec)
    if k == "struct":
        vals: list[Any] = []
        for cnt, ch in struct_tokens(spec["format"]):
            if ch == "x":
                continue
            if ch == "s":
                vals.append(bytes(rng.choice(b"ab\x00\xff\n") for _ in range(rng.choice([cnt, cnt, rng.randint(0, cnt)]))))
            elif ch == "p":
                vals.append(bytes(rng.choice(b"ab\x00\xff") for _ in range(rng.randint(0, max(0, cnt - 1)))))
            else:
                vals.extend(_struct_scalar(rng, ch) for _ in range(cnt))
        return tuple(vals)
    if k == "ntstruct":
        if "fields" not in spec:
            return Point(rng.randint(-1000, 1000), rng.randint(0, 65535), rng.choice(["a", "abc", "abcdef", "", "a\0b", "\0x"]))
        enc, err, strip = spec.get("encoding", "utf-8"), spec.get("errors", "strict"), spec.get("strip", True)
        vals = []
        for name, fmt in spec["fields"]:
            if not fmt.endswith("s"):
                vals.append(_struct_scalar(rng, fmt))
                continue
            n = int(fmt[:-1] or 1)
            for _ in range(40):
                if enc is None:
                    v: Any = bytes(rng.choice(b"ab\x00\x00\xff\x7f") for _ in range(rng.randint(0, n)))
                    b = v
                else:
                    v = _gen_text(rng, enc, err, n, 0)
                    b = v.encode(enc, err)
                # struct truncates silently beyond N bytes; trailing NUL bytes are the padding (removed when strip is on)
                if len(b) <= n and not (strip and b.endswith(b"\0")):
                    break
            else:
                v = b"" if enc is None else ""
            vals.append(v)
        return nt_class([n for n, _ in spec["fields"]])(*vals)
    if k == "pickle":
        return rng.choice([1, "a", [1, 2], {"k": [1, 2]}, None, b"xyz", "é\udc80", 2 ** 70, -1.5, b"", ["\n", "\r\n"], True, {"": None}])
    if k == "autosep":
        sep = bytes.fromhex(spec["sep"])
        alphabet = bytes(set(sep)) + b"ab"
        while True:
            p = bytes(rng.choice(alphabet) for _ in range(rng.randint(1, maxlen)))
            # (a packet ending with the separator: the producer documents that it removes the superfluous separator)
            if p[:1] != b"\xff" and not p.endswith(sep):
                return p
    if k == "fixed":
        p = bytes(rng.randrange(0, 255) for _ in range(spec["size"]))
        return p if p[:1] != b"\xff" else b"a" + p[1:]
    if k in FILE_TOYS:
        return bytes(rng.randrange(256) for _ in range(rng.randint(0, maxlen)))
    raise ValueError(k)


def _struct_scalar(rng, ch: str) -> Any:
    bits = {"b": 8, "B": 8, "h": 16, "H": 16, "i": 32, "I": 32, "l": 32, "L": 32, "q": 64, "Q": 64, "n": 64, "N": 64}
    if ch in bits:
        w = bits[ch]
        lo, hi = (0, 2 ** w - 1) if ch.isupper() else (-(2 ** (w - 1)), 2 ** (w - 1) - 1)
        return rng.choice([lo, hi, 0, 1, rng.randint(lo, hi), rng.randint(lo, hi)])
    if ch == "?":
        return rng.random() < 0.5
    if ch == "c":
        return bytes([rng.choice([0, 1, 0x0A, 0x61, 0xFF])])
    if ch == "f":
        return rng.choice([0.0, 0.5, -1.25, 3.0, 1024.0, -65536.5])      # exactly representable in binary32
    if ch == "e":
        return rng.choice([0.0, 0.5, -2.0, 1024.0])                      # exactly representable in binary16
    if ch == "d":
        return rng.choice([0.0, 0.1, -3.7e200, 2.5, 1e-300])
    raise ValueError(ch)


def _gen_json_value(rng, spec: dict) -> Any:
    enc = spec.get("enc") or {}
    strings = ["a", "x\"y\\", "{[", "é", "", "\n", "\\\"", "C:\\dir\\\"q\"", "\\\\\"]", "\\" * rng.randint(1, 4) + "\"" + "}" * rng.randint(0, 2),
               "€😀", "\udc80", "\ud800x", "\x00\x1f", "\u2028", "+-", "~\\", "\r\n", "\x7f"]
    scalars: list[Any] = [0, -3, 17, 2.5, True, None, 10 ** 20, -1e-7, 1e+16]
    if enc.get("allow_nan", True):
        scalars += [float("inf"), float("-inf")]

    def val(d: int) -> Any:
        r = rng.random()
        if d > 2 or r < 0.3:
            return rng.choice(strings) if rng.random() < 0.6 else rng.choice(scalars)
        if r < 0.65:
            return [val(d + 1) for _ in range(rng.randint(0, 3))]
        return {rng.choice(["k", "a b", "}", "\\", "é", "\udcff"]): val(d + 1) for _ in range(rng.randint(0, 2))}
    return val(0)


def _leaf_spec(spec: dict) -> dict:
    spec = send_spec(spec)
    while spec["k"] in ("b64", "zlib", "bz2"):
        spec = spec["inner"]
    return spec


def _gen_packet_opt(rng, spec: dict, maxlen: int = 12) -> Any:
    """packets for an option-varied spec: candidates from `_leaf_packet`, kept if the real producer accepts them (`valid_packet`)
    and — for text carried by a one-shot inner serializer — if the text does not END with a whole newline sequence (which the
    one-shot deserialize() documents it removes)"""
    leaf = _leaf_spec(spec)
    wrapped = leaf is not send_spec(spec)
    for _ in range(60):
        p = _leaf_packet(rng, leaf, maxlen)
        if leaf["k"] == "line" and not leaf.get("keep_end"):
            nl = NEWLINES[leaf["newline"]].decode()
            if nl in p:
                continue
        if leaf["k"] == "line" and leaf.get("keep_end"):
            nl = NEWLINES[leaf["newline"]].decode()
            if p.find(nl) != len(p) - len(nl):
                continue
        if leaf["k"] == "line" and wrapped and not p:
            continue
        if leaf["k"] == "line" and not codec_roundtrips(p, leaf.get("encoding", "ascii"), leaf.get("errors", "strict")):
            continue
        if leaf["k"] == "line" and not leaf.get("keep_end") and \
                p.encode(leaf.get("encoding", "ascii"), leaf.get("errors", "strict")).endswith(NEWLINES[leaf["newline"]]):
            # a wide codec whose encoding of the LAST CHARACTER ends with the newline byte ("Ċ" = 01 0a in utf-16-be): the one-shot
            # deserialize() removes trailing newline BYTES and cuts the character in half (observation, section 10 of the notes)
            continue
        if leaf["k"] == "json":
            # the document text (Python's own json module, same ensure_ascii) must survive the text codec: a lossy handler
            # (replace, ignore, …) acting on it is the codec's business, not a packet the property speaks about
            try:
                doc = _json.dumps(p, ensure_ascii=(leaf.get("enc") or {}).get("ensure_ascii", True))
            except (TypeError, ValueError):
                continue
            if not codec_roundtrips(doc, leaf.get("encoding", "utf-8"), leaf.get("errors", "strict")):
                continue
        if valid_packet(spec, p):
            return p
    return fallback_packet(spec)


def fallback_packet(spec: dict) -> Any:
    leaf = _leaf_spec(spec)
    k = leaf["k"]
    if k == "line":
        return "a" + (NEWLINES[leaf["newline"]].decode() if leaf.get("keep_end") else "")
    if k == "json":
        return [1]
    if k == "struct":
        vals: list[Any] = []
        for cnt, ch in struct_tokens(leaf["format"]):
            if ch in "sp":
                vals.append(b"")
            elif ch == "c":
                vals.extend([b"a"] * cnt)
            elif ch == "?":
                vals.extend([False] * cnt)
            elif ch in "efd":
                vals.extend([0.0] * cnt)
            elif ch != "x":
                vals.extend([0] * cnt)
        return tuple(vals)
    if k == "ntstruct":
        if "fields" not in leaf:
            return Point(0, 0, "a")
        vals = []
        for name, fmt in leaf["fields"]:
            if fmt.endswith("s"):
                vals.append(b"" if leaf.get("encoding", "utf-8") is None else "")
            elif fmt == "c":
                vals.append(b"a")
            elif fmt == "?":
                vals.append(False)
            elif fmt in "efd":
                vals.append(0.0)
            else:
                vals.append(0)
        return nt_class([n for n, _ in leaf["fields"]])(*vals)
    if k == "pickle":
        return 1
    if k == "autosep":
        return b"a"
    if k == "fixed":
        return b"a" * leaf["size"]
    return b"a"


def empty_packet(spec: dict) -> Any:
    """a packet whose ONE-SHOT serialization is the empty byte string (an empty datagram is a datagram), or None"""
    leaf = _leaf_spec(spec)
    p: Any = {"line": "", "autosep": b""}.get(leaf["k"])
    if p is None:
        return None
    try:
        return p if sender(spec).serialize(p) == b"" else None
    except Exception:  # noqa: BLE001
        return None


# WELL-FORMED pickles whose loading raises — one per exception class, all harmless (no side effect beyond a failed call).  "Not
# necessarily limited to" in the pickle documentation: a hostile or corrupted pickle can make Unpickler.load() raise ANY class;
# for the receiver it is one malformed datagram / frame.  (C06 uses only the classes of its declared pickle alphabet.)
HOSTILE_PICKLES: dict[str, bytes] = {
    "TypeError": b"cbuiltins\nint\n(NtR.",
    "KeyError": b"coperator\ngetitem\n(}I1\ntR.",
    "IndexError": b"coperator\ngetitem\n(]I3\ntR.",
    "ZeroDivisionError": b"coperator\ntruediv\n(I1\nI0\ntR.",
    "LookupError": b"c_codecs\nlookup\n(Vno-such-codec\ntR.",
    "OverflowError": b"cmath\nexp\n(I100000\ntR.",
    "MemoryError": b"cbuiltins\nbytearray\n(I99999999999999\ntR.",
    "AttributeError": b"cbuiltins\ngetattr\n(NVnope\ntR.",
    "UnicodeDecodeError": b"cbuiltins\nstr\n(C\x01\xffVutf-8\ntR.",
    "UnicodeEncodeError": b"cbuiltins\nbytes\n(V\\udcff\nVascii\ntR.",
    "ValueError": b"cbuiltins\nint\n(Vx\ntR.",
    "StopIteration": b"cbuiltins\nnext\n(cbuiltins\niter\n((ttRtR.",
    "FileNotFoundError": b"cbuiltins\nopen\n(V/nonexistent-dir-s2/x\ntR.",
}


# malformed payloads of text codecs (what the codec itself rejects; `codec_rejects` confirms each against the codec in use)
CODEC_BAD: dict[str, list[bytes]] = {
    "idna": [b"xn---", b"xn--a-", b"www..example.org", b"a" * 70, b"xn--\xff", b"ab.xn--0.c", b".."],
    "punycode": [b"a-\xff", b"abc-\x80", b"-99999999999", b"a-b-!", b"\xe9"],
    "utf-16": [b"a", b"\xff\xfea", b"\xff\xfe\x00\xd8", b"\x00\xdc\x00\xdc", b"abc"],
    "utf-16-le": [b"a", b"\x00\xd8", b"\x00\xdc\x00\xdc", b"abc"],
    "utf-16-be": [b"a", b"\xd8\x00", b"abc"],
    "utf-32": [b"abc", b"\xff\xfe\x00\x00\x00\x00\x11\x00", b"\xff\xff\xff\xff"],
    "utf-32-be": [b"abc", b"\x00\x11\x00\x00"],
    "utf-7": [b"+2AA-", b"a+\xff", b"\xe9", b"+AGE", b"+\x00"],
    "utf-8-sig": [b"\xef\xbb\xbf\xff", b"\xc3"],
    "cp1252": [b"\x81", b"a\x8d", b"\x90\x9d"],
    "cp037": [],
    "shift_jis": [b"\x81", b"\xfd\xfd", b"a\xa0"],
    "gb18030": [b"\x81", b"\xff", b"\x810"],
    "koi8-r": [],
    "cp437": [],
    "iso8859-15": [],
    "latin-1": [],
    "unicode_escape": [b"\\x", b"\\u12", b"\\N{nope}", b"\\U00110000"],
    "ascii": [b"\xff", b"a\x80"],
    "utf-8": [b"\xff", b"\xc3", b"\xe2\x82", b"\xed\xa0\x80", b"\xf8\x88\x80\x80\x80"],
}


def codec_rejects(data: bytes, enc: str | None, err: str) -> bool:
    if enc is None:
        return False
    try:
        str(data, enc, err)
    except UnicodeError:
        return True
    return False


def codec_bad(rng, enc: str | None, err: str = "strict", avoid: bytes = b"") -> bytes | None:
    """a byte string the text codec `enc` rejects under handler `err` and that does not contain `avoid` (None: it rejects none
    of the candidates, e.g. latin-1, or a handler that swallows the error)"""
    if enc is None:
        return None
    cands = [c for c in CODEC_BAD.get(enc, CODEC_BAD["utf-8"]) if codec_rejects(c, enc, err) and not (avoid and avoid in c)]
    return rng.choice(cands) if cands else None


# ------------------------------------------------------------------------------------------------
# malformed frames, by construction
# ------------------------------------------------------------------------------------------------

def bad_frame(rng, spec: dict, extreme: bool = False) -> bytes | None:
    """a WELL-DELIMITED frame of the receive side of `spec` whose payload is undecodable: frame-by-frame decoding gives
    exactly one parse error for exactly these bytes, whatever follows (None: the format has no such frame).
    extreme=True (JSON only): structurally extreme documents — nesting deeper than the interpreter's recursion limit, an
    integer literal beyond the int/str conversion limit (10 KB frames: only for limits that hold them)."""
    r = recv_spec(spec)
    k = r["k"]
    sep = separator(spec)
    if k == "line" and has_options(r):
        # what the text codec in use rejects (nothing for latin-1 or for a handler that swallows the error)
        bad = codec_bad(rng, r.get("encoding", "ascii"), r.get("errors", "strict"), avoid=sep[:1])
        if bad is None or sep in bad + sep[:-1]:
            return None
        return bad + sep
    if k == "line":
        body = bytes(rng.choice(b"abxyz \t") for _ in range(rng.randint(0, 5)))
        i = rng.randint(0, len(body))
        return body[:i] + rng.choice([b"\xff", b"\xc3", b"\xe2\x82"]) + body[i:] + sep
    if k == "json":
        if extreme and (r.get("limit") or 0) >= 16384:
            d = rng.choice([2500, 5000])
            doc = rng.choice([b"[" * d + b"]" * d, b'{"a":' * d + b"1" + b"}" * d, b"[" + b"9" * rng.choice([4301, 5000]) + b"]"])
            return doc + (sep or b"")
        # (the candidate that relies on the text codec rejecting 0xff only where the codec in use does reject it)
        ff_ok = codec_rejects(b'"\xff"', r.get("encoding", "utf-8"), r.get("errors", "strict"))
        if r.get("use_lines", True):
            return rng.choice([b'{"a": tru', b'[1,,2]', b'"\xff"' if ff_ok else b'{"a" 1}', b"{]}", b"nul", b'{"a":"b",}', b"[01]"]) + sep
        return rng.choice([b'{"a":}', b"[1,,2]", b"{]}", b'["a" "b"]', b"[tru]", b'{"a" 1}', b"[01]", b'{"k":[}',
                           b'"\xff"' if ff_ok else b"[1 2]", b"{,}"])
    if k == "ntstruct" and "fields" in r:
        # a text field holding bytes its codec rejects (judged by the codec after the documented NUL stripping)
        enc, err, strip = r.get("encoding", "utf-8"), r.get("errors", "strict"), r.get("strip", True)
        vals, done = [], False
        for name, fmt in r["fields"]:
            if fmt.endswith("s"):
                n = int(fmt[:-1] or 1)
                bad = None if done else codec_bad(rng, enc, err)
                if bad is not None and len(bad) <= n:
                    b = bad + b"\0" * (n - len(bad))
                    if codec_rejects(b.rstrip(b"\0") if strip else b, enc, err):
                        vals.append(b)
                        done = True
                        continue
                vals.append(b"a"[:n] if not strip else b"a"[:n])
            elif fmt == "c":
                vals.append(b"a")
            elif fmt == "?":
                vals.append(True)
            elif fmt in "efd":
                vals.append(0.5)
            else:
                vals.append(1)
        return _struct.pack(nt_format(r), *vals) if done else None
    if k == "ntstruct":
        return _struct.pack("!iH6s", rng.randint(-5, 5), rng.randint(0, 9), rng.choice([b"\xff\xfeab", b"ab\xc3", b"\xe2\x82"]))
    if k == "b64":
        # not a base64 token (incorrect padding), whatever the alphabet / checksum
        return rng.choice([b"QUJ", b"Q", b"QUJDR", b"QUJDRA="]) + sep
    if k in ("zlib", "bz2"):
        import bz2
        import zlib
        inner = r["inner"]["k"]
        payload = {"json": b"{\"a\": tru", "pickle": b"\x80\x04nonsense", "line": b"\xff\xfe\n"}.get(inner)
        if inner == "line" and has_options(r["inner"]):
            payload = codec_bad(rng, r["inner"].get("encoding", "ascii"), r["inner"].get("errors", "strict"))
        if payload is None:
            return None
        return zlib.compress(payload, 1) if k == "zlib" else bz2.compress(payload, 1)
    if k == "autosep":
        fill = next(bytes([c]) for c in b"bcxyz" if c not in sep)
        return b"\xff" + fill * rng.randint(0, 4) + sep
    if k == "fixed":
        return b"\xff" + bytes(rng.randrange(1, 255) for _ in range(r["size"] - 1))
    if k in FILE_TOYS:
        return bytes([rng.randint(201, 255)])
    return None
