"""
C17 abrupt-termination runner (fault family added after seeded change C17-m9 was missed).

Every other server case of C17 lets the faulty client F misbehave towards a peer socket that stays open and quiet: the
fault is an exception raised at a hook position, malformed bytes, or a connection reset with NOTHING in flight.  What was
never generated: a peer that terminates ABRUPTLY — RST (SO_LINGER 0), close() with the server's answers still unread
(the kernel turns that into a RST too), a plain close() right behind its last requests, a half-close — while data it
has written is still UNREAD on the server side, i.e. while the server's event loop has not yet seen that the connection
is gone, crossed with every way the server side tears that very connection down at that moment.  Then the tear-down
itself (`transport.aclose()` from the exit stack of the low-level client coroutine, OUTSIDE every per-client filter;
`client.aclose()` inside the handler; `on_disconnection`; the SO_LINGER callback) runs on a socket whose kernel state is
already "reset" (shutdown() -> ENOTCONN, send() -> EPIPE / ECONNRESET, getpeername() -> ENOTCONN) although asyncio's
transport is not closing yet.

One asyncio loop hosts the REAL AsyncTCPNetworkServer (plain / TLS), a healthy client B with an established connection
doing a request / response round trip after every faulty client, a NEW client N at the end, and `reps` (8) faulty clients
A0 … A7 one after the other (the window "RST in the kernel, not yet seen by the loop" is one loop iteration wide; the
peer's last writes and its termination happen back to back from the loop's own thread, so that all the segments are in the
kernel before the loop runs again — repeated to make the window reliable whatever the machine does).

    peer         how A terminates
    rst          SO_LINGER 0 + close(): RST
    close_unread A leaves the answer to a request `u1` unread in its receive queue and calls close(): the kernel sends a RST
    fin          plain close() right behind A's last writes: FIN; the server's answers are then answered by a RST
    halfclose    shutdown(SHUT_WR): A goes on reading until the server closes (A's answers are checked)

    when         position of the termination relative to the life of A's client task on the server
    at_connect   connect + k requests + termination before the server has even started A's client task
    after_oc     as soon as on_connection() has completed: k requests + termination in the same breath
    mid          after a first request `m1` has been answered: k requests + termination
    held         a request `hold` is being handled (the handler waits on a gate): k MORE requests + termination, then the
                 gate is opened in the same breath (the handler's wake-up is queued BEFORE the loop's read callback: the
                 handler acts while neither the k requests nor the RST have been seen)

    srv          how the server side tears A's connection down
    echo         handle() answers every request: the disconnection is detected by the receiver / by send_packet()
    raise        handle() raises the exception tree on the trigger request (`boom`, the last of the k; `hold` when held)
    od_raise     the same, and on_disconnection() raises too
    close        handle() calls `await client.aclose()` on the trigger request and returns
    timeout      handle() answers, and waits for each next request at `yield 0.01`: TimeoutError propagates
    raise_pre    handle() raises before its first yield                                   (when = at_connect)
    return_pre   handle() returns before its first yield                                  (when = at_connect)
    oc_raise     on_connection() raises                                                    (when = at_connect)
    oc_close     on_connection() calls `await client.aclose()`                             (when = at_connect)

crossed with k = 0…3 requests written right before the termination, `tail` = 0…2 requests written BEHIND the trigger
request (still unread when the handler fails), plain TCP / TLS (A is then an asyncio stream client: rst / fin only),
StreamProtocol / BufferedStreamProtocol, default / eager task factory, exception class / group.

Observed (behaviour only; no wall-clock value is printed): B's round trip after every faulty client and N's at the end
answered exactly; every A's server-side socket closed (the loop — ours, nothing of the library is patched — hands asyncio
accepted sockets that record their own close(), c17_stall.MSock); per A: on_disconnection once iff on_connection
completed; A's own answers (read before the termination, and up to EOF for a half-close) are a prefix of what the
handler's script says — exactly that for half-close + echo; server still serving, serve_forever() still running and
ending cleanly at shutdown (`serve-exc` names what ended it otherwise).  No model run (oracle only): which exception the
server sees, and whether the hooks run at all, is a race the property does not speak about.
"""
from __future__ import annotations

import asyncio
import contextlib
import errno
import logging
import socket
import struct
from typing import Any

from vlib import core  # noqa: F401  (sys.path for the repository under test)
from vlib import c17_run as R
from vlib import c17_stall as ST

from easynetwork.exceptions import BaseProtocolParseError
from easynetwork.protocol import BufferedStreamProtocol, StreamProtocol
from easynetwork.serializers.line import StringLineSerializer
from easynetwork.servers.async_tcp import AsyncTCPNetworkServer
from easynetwork.servers.handlers import AsyncStreamRequestHandler, INETClientAttribute

HOST = "127.0.0.1"
REPS = 8
YTIMEOUT = 0.01
PEERS = ("rst", "close_unread", "fin", "halfclose")
WHENS = ("at_connect", "after_oc", "mid", "held")
SRVS = ("echo", "raise", "od_raise", "close", "timeout", "raise_pre", "return_pre", "oc_raise", "oc_close")
START_SRVS = ("raise_pre", "return_pre", "oc_raise", "oc_close")      # the task ends by itself right after it started
TRIGGER_SRVS = ("raise", "od_raise", "close")                          # need a trigger request
TREE_SRVS = ("raise", "od_raise", "raise_pre", "oc_raise")             # take an exception tree


def valid(case: dict) -> bool:
    peer, when, srv = case.get("peer"), case.get("when"), case.get("srv")
    k, tail = int(case.get("k", 0)), int(case.get("tail", 0))
    if peer not in PEERS or when not in WHENS or srv not in SRVS or not 0 <= k <= 8 or not 0 <= tail <= 8:
        return False
    if srv in START_SRVS and when != "at_connect":
        return False
    if srv in TRIGGER_SRVS and k == 0 and when != "held":
        return False
    if tail and (srv not in TRIGGER_SRVS):
        return False
    if peer == "close_unread" and when == "at_connect":
        return False
    if case.get("tls") and peer in ("halfclose", "close_unread"):
        return False
    return True


def payload(case: dict) -> list[str]:
    """the requests A writes in the same breath as its termination"""
    k, tail, srv = int(case.get("k", 0)), int(case.get("tail", 0)), case["srv"]
    reqs = [f"q{j + 1}" for j in range(k)]
    if srv in TRIGGER_SRVS and case["when"] != "held" and reqs:
        reqs[-1] = "boom"
    return reqs + [f"t{j + 1}" for j in range(tail)]


def expected_answers(case: dict) -> list[str]:
    """what A is answered if it reads everything (script of the handler; the race decides how much of it is sent)"""
    srv, when = case["srv"], case["when"]
    out: list[str] = []
    if srv in START_SRVS:
        return out
    if case["peer"] == "close_unread":
        out.append("pong_u1")
    if when == "mid":
        out.append("pong_m1")
    if when == "held":
        if srv in TRIGGER_SRVS:
            return out
        out.append("pong_hold")
    for r in payload(case):
        if r == "boom":
            break
        out.append(f"pong_{r}")
    return out


# ----------------------------------------------------------------------------------------------------------------------
# plan + scripted handler
# ----------------------------------------------------------------------------------------------------------------------
class Plan:
    def __init__(self, case: dict, scale: float) -> None:
        self.case = case
        self.srv: str = case["srv"]
        self.tree: Any = case.get("tree") or "RuntimeError"
        self.tree2: Any = case.get("tree2") or "ValueError"
        self.who: dict[int, str] = {}
        self.names: dict[Any, str] = {}
        self.events: list[str] = []
        self.T = 3.0 * scale
        self.timeouts: list[str] = []
        self.infra: list[str] = []
        self.reached = 0                     # how many A reached the point where the server side tears them down
        self.oc_done: set[str] = set()
        self.holding: set[str] = set()
        self.gates: dict[str, asyncio.Event] = {}

    def name(self, client: Any) -> str:
        # resolved once, at the first hook call of this client object: the next faulty client may be given the very source
        # port of the previous one by the kernel while the hooks of the previous one are still running
        n = self.names.get(client)
        if n is None:
            try:
                n = self.who.get(client.extra(INETClientAttribute.remote_address).port, "?")
            except Exception:
                n = "?"
            self.names[client] = n
        return n

    def hooks_settled(self, name: str) -> bool:
        ev = [e for e in self.events if e.split()[0] == name]
        return f"{name} oc:done" not in ev or f"{name} od" in ev


class AbortHandler(AsyncStreamRequestHandler[str, str]):
    def __init__(self, plan: Plan) -> None:
        self.p = plan

    async def on_connection(self, client):  # type: ignore[override]
        p = self.p
        who = p.name(client)
        p.events.append(f"{who} oc:start")
        if who.startswith("A"):
            if p.srv == "oc_raise":
                p.reached += 1
                raise R.make_exc(p.tree)
            if p.srv == "oc_close":
                p.reached += 1
                await client.aclose()
        p.events.append(f"{who} oc:done")
        p.oc_done.add(who)

    async def handle(self, client):  # type: ignore[override]
        p = self.p
        who = p.name(client)
        a = who.startswith("A")
        if a and p.srv == "raise_pre":
            p.reached += 1
            raise R.make_exc(p.tree)
        if a and p.srv == "return_pre":
            p.reached += 1
            return
        try:
            if a and p.srv == "timeout":
                try:
                    req = yield YTIMEOUT
                except TimeoutError:
                    p.reached += 1
                    raise
            else:
                req = yield
        except BaseProtocolParseError:
            await client.send_packet("bad")
            return
        trigger = a and req == "boom"
        if a and req == "hold":
            p.holding.add(who)
            await p.gates.setdefault(who, asyncio.Event()).wait()
            trigger = p.srv in TRIGGER_SRVS
        if trigger:
            p.reached += 1
            if p.srv == "close":
                await client.aclose()
                return
            raise R.make_exc(p.tree)
        if a and p.srv == "echo":
            p.reached += 1
        await client.send_packet(f"pong {req}")

    async def on_disconnection(self, client):  # type: ignore[override]
        p = self.p
        who = p.name(client)
        p.events.append(f"{who} od")
        if who.startswith("A") and p.srv == "od_raise":
            raise R.make_exc(p.tree2)


# ----------------------------------------------------------------------------------------------------------------------
# the faulty peer
# ----------------------------------------------------------------------------------------------------------------------
def _set_rst(sock: socket.socket) -> None:
    with contextlib.suppress(OSError):
        sock.setsockopt(socket.SOL_SOCKET, socket.SO_LINGER, struct.pack("ii", 1, 0))


def _connect_now(plan: "Plan", name: str, addr: tuple[str, int]) -> socket.socket | None:
    """a connected socket, its source port registered under `name` before the loop runs again.  connect() is a blocking one
    from the loop's own thread: on loopback it completes inside the kernel (the listener's backlog), it never waits for the
    loop.  No bind() of our own: a port chosen at connect() time can be shared with connections to other destinations (every
    case has a listener of its own), one chosen by bind() cannot — eight faulty clients per server life would use up the
    ephemeral ports of a machine that runs many checks at once (TIME_WAIT)."""
    sock = socket.socket(socket.AF_INET, socket.SOCK_STREAM)
    try:
        sock.settimeout(plan.T)
        sock.connect(addr)
        sock.setblocking(False)
        plan.who[sock.getsockname()[1]] = name
    except TimeoutError:
        plan.timeouts.append(f"{name} connect")
        sock.close()
        return None
    except OSError as e:
        sock.close()
        if e.errno in _RESOURCE_ERRNOS:
            # the machine ran out of ports / descriptors / buffers: says nothing about the server (-> `infra …` line)
            plan.infra.append(f"client {name} could not get a socket connected: {errno.errorcode.get(e.errno, e.errno)}")
        return None
    return sock


_RESOURCE_ERRNOS = (errno.EADDRNOTAVAIL, errno.EADDRINUSE, errno.EMFILE, errno.ENFILE, errno.ENOBUFS, errno.ENOMEM)


class StreamClient(ST.Client):
    """B, N and the TLS peers: asyncio streams over a socket connected by _connect_now()"""

    def __init__(self, plan: "Plan", name: str, addr: tuple[str, int], tls: bool) -> None:  # noqa: D107
        self.plan, self.name, self.addr, self.tls = plan, name, addr, tls
        self.sock = None            # type: ignore[assignment]
        self.port = 0
        self.reader = None
        self.writer = None

    async def connect(self) -> bool:
        sock = _connect_now(self.plan, self.name, self.addr)
        if sock is None:
            return False
        self.sock = sock
        self.port = sock.getsockname()[1]
        try:
            kw: dict[str, Any] = {"limit": 1 << 22}
            if self.tls:
                kw.update(ssl=R.contexts()[1], server_hostname="localhost", ssl_handshake_timeout=self.plan.T + 30,
                          ssl_shutdown_timeout=1.0)
            r = await ST._bounded(self.plan, asyncio.open_connection(sock=sock, **kw), f"{self.name} connect")  # type: ignore[arg-type]
            if r is None:
                return False
            self.reader, self.writer = r
            return True
        except OSError:
            return False
        except Exception:  # noqa: BLE001  (ssl errors against a dying server)
            return False

    def close(self) -> None:
        # (end of the case, everything has been observed: RST rather than FIN, so that no TIME_WAIT socket is left behind)
        if self.sock is not None:
            _set_rst(self.sock)
        if self.writer is not None:
            with contextlib.suppress(Exception):
                self.writer.transport.abort()
        elif self.sock is not None:
            with contextlib.suppress(OSError):
                self.sock.close()


class RawPeer:
    """plain TCP: a bare socket driven from the loop's own thread — connect (completes inside the kernel on loopback: the
    listener's backlog), small writes and close() never wait for the loop, so `write; terminate` is really back to back"""

    def __init__(self, plan: Plan, name: str, addr: tuple[str, int]) -> None:
        self.plan, self.name, self.addr = plan, name, addr
        self.sock: Any = None
        self.buf = b""
        self.open = False

    async def connect(self) -> bool:
        self.sock = _connect_now(self.plan, self.name, self.addr)
        self.open = self.sock is not None
        return self.open

    def send(self, data: bytes) -> None:
        if data and self.open:
            with contextlib.suppress(OSError):
                self.sock.sendall(data)

    async def readline(self, bound: float) -> str | None:
        """one answer: text | None (EOF / reset) ; a bound that expires is recorded"""
        loop = asyncio.get_running_loop()
        try:
            while b"\n" not in self.buf:
                d = await asyncio.wait_for(loop.sock_recv(self.sock, 65536), bound)
                if not d:
                    return None
                self.buf += d
        except asyncio.TimeoutError:
            self.plan.timeouts.append(f"{self.name} recv")
            return None
        except OSError:
            return None
        line, _, self.buf = self.buf.partition(b"\n")
        return line.decode(errors="replace").replace(" ", "_")

    def has_unread(self) -> bool:
        try:
            return b"\n" in self.sock.recv(65536, socket.MSG_PEEK)
        except BlockingIOError:
            return False
        except OSError:
            return True

    def terminate(self, how: str) -> None:
        if not self.open:
            return
        if how == "halfclose":
            with contextlib.suppress(OSError):
                self.sock.shutdown(socket.SHUT_WR)
            return
        if how == "rst":
            _set_rst(self.sock)
        self.open = False
        with contextlib.suppress(OSError):
            self.sock.close()           # (close_unread: unread data in the receive queue: the kernel sends a RST)

    def close(self) -> None:
        self.open = False
        if self.sock is not None:
            with contextlib.suppress(OSError):
                self.sock.close()


class TlsPeer:
    """TLS: an asyncio stream client (the handshake needs the loop); rst / fin = abort() of the transport with / without
    SO_LINGER 0 (no close_notify either way)"""

    def __init__(self, plan: Plan, name: str, addr: tuple[str, int]) -> None:
        self.plan, self.name = plan, name
        self.c = StreamClient(plan, name, addr, True)
        self.open = False

    async def connect(self) -> bool:
        self.open = await self.c.connect()
        return self.open

    def send(self, data: bytes) -> None:
        if data and self.open and self.c.writer is not None:
            with contextlib.suppress(Exception):
                self.c.writer.write(data)

    async def readline(self, bound: float) -> str | None:
        if self.c.reader is None:
            return None
        try:
            line = await asyncio.wait_for(self.c.reader.readline(), bound)
        except asyncio.TimeoutError:
            self.plan.timeouts.append(f"{self.name} recv")
            return None
        except Exception:  # noqa: BLE001  (OSError, ssl errors)
            return None
        if not line.endswith(b"\n"):
            return None
        return line.decode(errors="replace").rstrip("\n").replace(" ", "_")

    def has_unread(self) -> bool:
        return True

    def terminate(self, how: str) -> None:
        if not self.open or self.c.writer is None:
            return
        if how == "rst":
            _set_rst(self.c.sock)
        self.open = False
        with contextlib.suppress(Exception):
            self.c.writer.transport.abort()

    def close(self) -> None:
        self.open = False
        self.c.close()


def _wire(reqs: list[str]) -> bytes:
    return b"".join(r.encode() + b"\n" for r in reqs)


# ----------------------------------------------------------------------------------------------------------------------
# one server life
# ----------------------------------------------------------------------------------------------------------------------
def _describe(e: BaseException) -> str:
    if isinstance(e, BaseExceptionGroup):
        return type(e).__name__ + "[" + ",".join(_describe(x) for x in e.exceptions) + "]"
    if isinstance(e, OSError) and e.errno is not None:
        return f"{type(e).__name__}:{errno.errorcode.get(e.errno, e.errno)}"
    return type(e).__name__


async def _session(plan: Plan, loop: ST.StallLoop) -> list[str]:
    case = plan.case
    tls = bool(case.get("tls"))
    peer_how, when, srv = case["peer"], case["when"], case["srv"]
    reps = int(case.get("reps", REPS))
    kw: dict[str, Any] = {}
    if tls:
        kw = {"ssl": R.contexts()[0], "ssl_shutdown_timeout": 0.2, "ssl_handshake_timeout": max(30.0, plan.T)}
    ser = StringLineSerializer()
    protocol: Any = (BufferedStreamProtocol if case.get("proto") == "buffered" else StreamProtocol)(ser)
    server = AsyncTCPNetworkServer(HOST, 0, protocol, AbortHandler(plan), logger=logging.getLogger("c17.server"), **kw)
    up = asyncio.Event()
    serve = asyncio.ensure_future(server.serve_forever(is_up_event=up))
    lines: list[str] = []
    clients: list[Any] = []
    try:
        await asyncio.wait_for(up.wait(), plan.T + 5)
        addr = (HOST, server.get_addresses()[0].port)
        b = StreamClient(plan, "B", addr, tls)
        clients.append(b)
        answers: list[str] = []
        want: list[str] = []

        async def trip(i: int) -> None:
            want.append(f"pong_b{i}")
            answers.append(await b.ask(f"b{i}"))

        def dead() -> bool:
            return serve.done()

        async def answer_of(a: Any) -> str | None:
            """A's next answer; None at EOF / reset — and at once (no bound recorded) when serve_forever() has ended"""
            t = asyncio.ensure_future(a.readline(plan.T))
            await asyncio.wait({t, serve}, return_when=asyncio.FIRST_COMPLETED)
            if not t.done():
                t.cancel()
                with contextlib.suppress(BaseException):
                    await t
                return None
            return t.result()

        await b.connect()
        await trip(0)
        n_trip = 1
        a_bad: list[str] = []          # A's whose own answers are not what the handler's script says
        a_seen = 0
        closed_ok = 0
        exp = expected_answers(case)
        for i in range(reps):
            if dead():
                break
            name = f"A{i}"
            a: Any = (TlsPeer if tls else RawPeer)(plan, name, addr)
            clients.append(a)
            got: list[str] = []
            n_closed_before = len(loop.closes)
            if not await a.connect():
                if not dead():
                    a_bad.append(f"{name}:unconnected")
                continue
            a_seen += 1
            ok = True

            def gone() -> bool:
                # (nothing left to wait for: the server is down, or it has already closed this A — e.g. `timeout`)
                return serve.done() or len(loop.closes) > n_closed_before  # noqa: B023

            if peer_how == "close_unread":
                # a first request whose answer A never reads: close() with unread data = RST
                a.send(b"u1\n")
                ok = await ST._poll(lambda: gone() or a.has_unread(), plan.T)  # noqa: B023
                if not ok:
                    plan.timeouts.append(f"{name} unread answer")
            if ok and when == "after_oc":
                ok = await ST._poll(lambda: gone() or name in plan.oc_done, plan.T)  # noqa: B023
                if not ok:
                    plan.timeouts.append(f"{name} on_connection")
            elif ok and when == "mid":
                a.send(b"m1\n")
                if peer_how == "close_unread":
                    ok = await ST._poll(lambda: gone() or a.has_unread(), plan.T)  # noqa: B023
                else:
                    line = await answer_of(a)
                    if line is not None:
                        got.append(line)
            elif ok and when == "held":
                a.send(b"hold\n")
                ok = await ST._poll(lambda: gone() or name in plan.holding, plan.T)  # noqa: B023
                if not ok:
                    plan.timeouts.append(f"{name} held")
            # ---- the last writes and the termination, back to back (and the gate, for a held handler)
            a.send(_wire(payload(case)))
            a.terminate(peer_how)
            if when == "held":
                plan.gates.setdefault(name, asyncio.Event()).set()
            # ---- B goes on
            await trip(n_trip)
            n_trip += 1
            if peer_how == "halfclose":
                while True:
                    line = await answer_of(a)
                    if line is None:
                        break
                    got.append(line)
                a.close()
            # ---- the server side must have closed A's socket
            if await ST._poll(lambda: dead() or len(loop.closes) > n_closed_before, plan.T):
                closed_ok += int(len(loop.closes) > n_closed_before)
            else:
                plan.timeouts.append(f"{name} server-side close")
            # … and be through with its hooks (a handler that closed the client itself: the socket is closed first)
            if not await ST._poll(lambda: dead() or plan.hooks_settled(name), plan.T):  # noqa: B023
                plan.timeouts.append(f"{name} on_disconnection")
            exact = peer_how == "halfclose" and srv == "echo"
            if got != exp[: len(got)] or (exact and got != exp):
                a_bad.append(f"{name}:" + ("+".join(got) or "-"))
        # ---- afterwards: B once more, a new client
        await trip(n_trip)
        if dead():
            # (the listening socket of a dead server is still open: the kernel would accept N, nobody would answer)
            new = "dead"
        else:
            nw = StreamClient(plan, "N", addr, tls)
            clients.append(nw)
            await nw.connect()
            new = await nw.ask("n1")
        lines.append("b " + ("ok" if answers == want else " ".join(answers)))
        lines.append("new " + ("ok" if new == "pong_n1" else new))
        lines.append(f"a-connected {a_seen}/{reps}")
        lines.append(f"a-server-sockets-closed {closed_ok}/{a_seen}")
        lines.append(f"fault-reached {plan.reached}")
        lines.append("a-answers " + ("ok" if not a_bad else ",".join(a_bad)))
        bad_hooks = []
        for i in range(reps):
            ev = [e.split(" ", 1)[1] for e in plan.events if e.split()[0] == f"A{i}"]
            n_od = ev.count("od")
            if n_od != (1 if "oc:done" in ev else 0):
                bad_hooks.append(f"A{i}:" + "+".join(ev))
        lines.append("a-hooks " + ("ok" if not bad_hooks else ",".join(bad_hooks)))
        others = [e for e in plan.events if e.split()[0] in ("B", "N")]
        unb = [w for w in ("B", "N") if others.count(f"{w} oc:done") != 1 or others.count(f"{w} od") != 0]
        lines.append("healthy-hooks " + ("ok" if not unb else "unbalanced:" + ",".join(unb)))
        lines.append(f"serving {int(server.is_serving())}")
        lines.append("servetask " + ("running" if not serve.done() else "done"))
        if serve.done() and not serve.cancelled() and serve.exception() is not None:
            lines.append("serve-exc " + _describe(serve.exception()))      # type: ignore[arg-type]
    finally:
        for g in plan.gates.values():
            g.set()
        for c in clients:
            c.close()
        lines.extend(await R._stop(server, serve, plan))     # type: ignore[arg-type]
    return lines


def _run_once(case: dict, scale: float) -> tuple[list[str], Plan]:
    loop = ST.StallLoop()
    loop.set_exception_handler(lambda lp, ctx: None)
    asyncio.set_event_loop(loop)
    if case.get("eager"):
        loop.set_task_factory(asyncio.eager_task_factory)
    plan = Plan(case, scale)
    null = logging.NullHandler()
    loggers = [logging.getLogger("c17.server"), logging.getLogger("easynetwork")]
    saved = [(lg, lg.level, lg.propagate, list(lg.handlers)) for lg in loggers]
    for lg in loggers:
        lg.handlers[:] = [null]
        lg.setLevel(logging.CRITICAL + 1)
        lg.propagate = False
    try:
        lines = loop.run_until_complete(_session(plan, loop))
    finally:
        for _ in range(3):
            pending = [t for t in asyncio.all_tasks(loop) if not t.done()]
            if not pending:
                break
            for t in pending:
                t.cancel()
            with contextlib.suppress(BaseException):
                loop.run_until_complete(asyncio.gather(*pending, return_exceptions=True))
        with contextlib.suppress(Exception):
            loop.run_until_complete(loop.shutdown_asyncgens())
        loop.close()
        asyncio.set_event_loop(None)
        for lg, lvl, prop, hs in saved:
            lg.handlers[:] = hs
            lg.setLevel(lvl)
            lg.propagate = prop
    return lines, plan


def run_case(case: dict) -> list[str]:
    """canonical lines of one case.  Harness-side bounds (3 s): the whole case is retried once with 4x longer bounds, and
    only a second expiry is reported (as an observation, judged by the oracle) — as c17_run / c17_stall do.  A client that
    cannot get a socket (ports / descriptors exhausted) gives an `infra …` line: InfraError unless real violations were found"""
    if not valid(case):
        return ["harness-exc invalid abort case"]
    last: list[str] = []
    first = ""
    for attempt, scale in enumerate((1.0, 4.0)):
        try:
            lines, plan = _run_once(case, scale)
        except asyncio.TimeoutError:
            if attempt == 1:
                raise core.InfraError("C17: the server did not come up (twice)") from None
            continue
        if plan.infra:
            return ["infra " + plan.infra[0]]
        if not plan.timeouts:
            return lines + (["harness-retried " + first] if first else [])
        first = ",".join(t.replace(" ", "_") for t in plan.timeouts)
        last = lines + ["harness-timeouts " + first]
    return last
