"""C13 — program generator, shrinker and hand-written corpus (programs as flat op lines, see c13_run.py)."""
from __future__ import annotations

from typing import Any, Iterator

CLOSE = {"scope": "endscope", "shield": "endshield", "try": "endtry", "trye": "endtrye", "group": "endgroup",
         "child": "endchild", "start": "endstart", "soon": "endsoon", "tryf": "endtryf"}
BLOCKS = ("shield", "try", "trye", "group", "child", "start", "soon")
CHILD_BLOCKS = ("child", "start", "soon")       # the body is the program of a new task
PRIM_KINDS = ("event", "lock", "cond", "thread", "threada")


# ------------------------------------------------------------------------------------------------
# trees:  ("sleep", d) ("yield",) ("syield",) ("cancel", i) ("resched", i, d|None)
#         ("scope", kind, delay|None, pre, body) ("shield", body) ("try", body) ("group", body) ("child", body)
#         operations that fail (oracle only): ("fwait", k) ("fail",) ("join", i) ("trye", body); case field
#         "futs": [[tick, "ok"|"err", first], …] = when / how harness future k is resolved, before or after the
#         external cancels of the same tick
#         checkpoints of the task-group / backend API (oracle only): ("start", body) ("soon", body) ("pwait", kind, k)
#         ("sleepu", d) ("forever",) ("twait", i) ("joinc", i) ("tryf", body, cleanup)
# ------------------------------------------------------------------------------------------------

def flatten(tree: list[Any]) -> list[str]:
    out: list[str] = []

    def go(stmts):
        for st in stmts:
            op = st[0]
            if op == "scope":
                out.append(f"scope {st[1]} {'inf' if st[2] is None else st[2]} {int(st[3])}")
                go(st[4])
                out.append("endscope")
            elif op in BLOCKS:
                out.append(op)
                go(st[1])
                out.append(CLOSE[op])
            elif op == "tryf":
                out.append("tryf")
                go(st[1])
                out.append("finally")
                go(st[2])
                out.append("endtryf")
            elif op == "resched":
                out.append(f"resched {st[1]} {'inf' if st[2] is None else st[2]}")
            else:
                out.append(" ".join(str(x) for x in st))

    go(tree)
    return out


def unflatten(lines: list[str]) -> list[Any]:
    pos = 0
    last = [""]

    def block(closer):
        nonlocal pos
        out = []
        while pos < len(lines):
            w = lines[pos].split()
            pos += 1
            if closer is not None and w[0] in (closer if isinstance(closer, tuple) else (closer,)):
                last[0] = w[0]
                return out
            if w[0] == "tryf":
                body = block(("finally", "endtryf"))
                cleanup = block("endtryf") if last[0] == "finally" else []
                out.append(("tryf", body, cleanup))
            elif w[0] == "pwait":
                out.append(("pwait", w[1], int(w[2])))
            elif w[0] == "scope":
                d = None if w[2] == "inf" else int(w[2])
                body = block("endscope")
                out.append(("scope", w[1], d, w[3] == "1", body))
            elif w[0] in BLOCKS:
                out.append((w[0], block(CLOSE[w[0]])))
            elif w[0] == "resched":
                out.append(("resched", int(w[1]), None if w[2] == "inf" else int(w[2])))
            elif w[0] in ("sleep", "cancel", "fwait", "join", "sleepu", "twait", "joinc"):
                out.append((w[0], int(w[1])))
            else:
                out.append((w[0],))
        return out

    return block(None)


def size(tree) -> int:
    n = 0
    for st in tree:
        n += 1
        if st[0] == "scope":
            n += size(st[4])
        elif st[0] in BLOCKS:
            n += size(st[1])
        elif st[0] == "tryf":
            n += size(st[1]) + size(st[2])
    return n


class Gen:
    def __init__(self, rng, groups: bool, tries: bool, fails: bool = False, prims: bool = False) -> None:
        self.rng = rng
        self.budget = 0
        self.groups = groups
        self.tries = tries
        self.fails = fails       # operations that fail: fwait / fail / join / trye (real side + oracle only)
        self.prims = prims       # checkpoints of the task-group / backend API: start / soon / pwait / … (oracle only)
        self.nfut = 0
        self.nchild = 0          # children of the innermost enclosing group of the current task (targets of `join`)
        self.in_child = False
        self.in_group = False    # inside the body of a task group, in the task that runs the group (start / soon allowed)

    def child_body(self, depth: int) -> list[Any]:
        """program of a task started with start() / start_soon(): short, often shielded or failing"""
        rng = self.rng
        saved = (self.nchild, self.in_child, self.in_group)
        self.nchild, self.in_child, self.in_group = 0, True, False
        r = rng.random()
        if r < 0.35:
            body = [("sleep", rng.choice([0, 1, 2, 3, 9]))]
        elif r < 0.55:
            body = [("shield", [("sleep", rng.choice([1, 2, 3]))]), ("sleep", rng.choice([0, 1, 9]))]
        elif r < 0.65:
            body = [("syield",), ("sleep", rng.choice([1, 9]))]
        else:
            body = self.block(max(depth, 2) + 1, 0)
        if self.fails and rng.random() < 0.2:
            body.insert(rng.randint(0, len(body)), ("fail",))
        self.nchild, self.in_child, self.in_group = saved
        return body

    def cleanup(self, depth: int, nsc: int) -> list[Any]:
        """`finally` part of a tryf: mostly cancel-shielded statements (what clean-up code looks like)"""
        rng = self.rng
        out = []
        for _ in range(rng.randint(1, 2)):
            r = rng.random()
            if r < 0.35:
                out.append(("shield", [("sleep", rng.choice([0, 1, 2, 3]))]))
            elif r < 0.6:
                out.append(("syield",))
            elif r < 0.7:
                self.nfut += 1
                out.append(("pwait", "thread", self.nfut - 1))
            elif r < 0.8 and nsc > 0:
                out.append(("cancel", rng.randrange(nsc)))
            elif r < 0.9:
                out.append(("yield",))
            else:
                out.append(("sleep", rng.choice([0, 1, 2])))
        return out

    def block(self, depth: int, nsc: int, in_child: bool = False, top: bool = False) -> list[Any]:
        rng = self.rng
        out = []
        n = rng.randint(1, 4 if depth else 5)
        for _ in range(n):
            if self.budget <= 0:
                break
            out.append(self.stmt(depth, nsc))
        if not out:
            out.append(("yield",))
        return out

    def stmt(self, depth: int, nsc: int):
        rng = self.rng
        self.budget -= 1
        r = rng.random()
        if depth < 4 and self.budget > 0:
            if r < 0.28:
                kind = "t" if rng.random() < 0.35 else "m"
                delay = rng.choice([None, None, 0, 0, 1, 1, 2, 3, 4, 6])
                pre = rng.random() < 0.08
                return ("scope", kind, delay, pre, self.block(depth + 1, nsc + 1))
            if r < 0.40:
                return ("shield", self.block(depth + 1, nsc))
            if r < 0.46 and self.tries:
                return ("try", self.block(depth + 1, nsc))
            if r < 0.50 and self.groups and depth < 3:
                saved = (self.nchild, self.in_child, self.in_group)
                self.nchild, self.in_child, self.in_group = 0, True, False
                kids = []
                for _ in range(rng.randint(1, 2)):
                    body = self.block(depth + 2, 0)
                    if self.fails and rng.random() < 0.6:
                        body.insert(rng.randint(0, len(body)), ("fail",))
                    kids.append(("child", body))
                self.nchild, self.in_child, self.in_group = len(kids), saved[1], True
                body = self.block(depth + 1, nsc)
                self.nchild, self.in_group = saved[0], saved[2]
                return ("group", kids + body)
            if r < 0.60 and self.fails:
                return ("trye", self.block(depth + 1, nsc))
            if r < 0.68 and self.prims:
                return ("tryf", self.block(depth + 1, nsc), self.cleanup(depth + 1, nsc))
        if self.prims:
            r = rng.random()
            if r < 0.22 and self.in_group:
                return ("start", self.child_body(depth))
            if r < 0.27 and self.in_group:
                return ("soon", self.child_body(depth))
            if r < 0.42:
                self.nfut += 1
                return ("pwait", rng.choice(PRIM_KINDS), self.nfut - 1)
            if r < 0.46:
                return ("sleepu", rng.choice([0, 1, 2, 3, 5]))
            if r < 0.52 and self.nchild:
                return ("twait", rng.randrange(self.nchild))
        if self.fails:
            r = rng.random()
            if r < 0.20:
                self.nfut += 1
                return ("fwait", self.nfut - 1)
            if r < 0.40 and self.nchild:
                return ("join", rng.randrange(self.nchild))
        r = rng.random()
        if nsc > 0 and r < 0.14:
            return ("cancel", rng.randrange(nsc))
        if nsc > 0 and r < 0.24:
            return ("resched", rng.randrange(nsc), rng.choice([None, 0, 1, 2, 3, 5]))
        if r < 0.38:
            return ("syield",)
        if r < 0.52:
            return ("yield",)
        return ("sleep", rng.choice([0, 1, 1, 2, 2, 3, 4, 5, 7]))


def gen_case(rng, groups: bool) -> dict:
    g = Gen(rng, groups, tries=rng.random() < 0.35)
    g.budget = rng.randint(3, 14)
    tree = g.block(0, 0, top=True)
    r = rng.random()
    if r < 0.35:
        ext = []
    elif r < 0.85:
        ext = [rng.randint(0, 12)]
    else:
        ext = sorted(rng.randint(0, 14) for _ in range(2))
    return {"prog": flatten(tree), "ext": ext, "ext_last": rng.random() < 0.4}


def _futs_for(rng, nfut: int, ext: list[int]) -> list[list]:
    """resolution script of the harness futures: often in the very tick (= loop turn) of an external cancel"""
    futs = []
    for _ in range(nfut):
        if ext and rng.random() < 0.6:
            t = max(0, rng.choice(ext) + rng.choice([0, 0, 0, 0, 1, -1]))
        else:
            t = rng.randint(0, 10)
        futs.append([t, "err" if rng.random() < 0.65 else "ok", rng.random() < 0.5])
    return futs


def gen_fail_case(rng, groups: bool) -> dict:
    """random program over the full statement set, operations that fail included"""
    g = Gen(rng, groups, tries=rng.random() < 0.25, fails=True)
    g.budget = rng.randint(3, 14)
    tree = g.block(0, 0, top=True)
    r = rng.random()
    if r < 0.2:
        ext = []
    elif r < 0.85:
        ext = [rng.randint(0, 10)]
    else:
        ext = sorted(rng.randint(0, 12) for _ in range(2))
    return {"prog": flatten(tree), "ext": ext, "ext_last": rng.random() < 0.4, "futs": _futs_for(rng, g.nfut, ext)}


def gen_race_case(rng) -> dict:
    """directed shape: a one-shot cancellation (external cancel(), or a task group cancelling its host because a child
    failed) lands while the task is parked in a shielded await of something that FAILS (harness future / join of the
    failing child) around the same loop turn; the error is handled inside or outside the shield (or not at all) and the
    task goes on to further checkpoints"""
    def simple(n):
        return [rng.choice([("sleep", rng.choice([0, 1, 1, 2, 3])), ("yield",), ("syield",)]) for _ in range(n)]

    def around(wait):
        k = rng.randrange(4)
        tail = simple(rng.randint(0, 2))
        if k == 0:
            return [("trye", [("shield", [wait] + tail)])]
        if k == 1:
            return [("shield", [("trye", [wait])] + tail)]
        if k == 2:
            return [("trye", [("shield", [("shield", [wait])] + tail)])]
        return [("shield", [wait] + tail)]

    suffix = [rng.choice([("sleep", rng.choice([0, 1, 2, 3])), ("yield",)]) for _ in range(rng.randint(1, 3))]
    if rng.random() < 0.3:
        suffix = [("shield", simple(1))] + suffix
    prefix = simple(rng.randint(0, 2))
    ext_last = rng.random() < 0.4
    if rng.random() < 0.65:
        core = around(("fwait", 0))
        tree = prefix + core + suffix
        w = rng.random()
        if w < 0.2:
            tree = prefix + [("scope", rng.choice("mt"), rng.choice([None, 9, 12]), False, core + suffix[:1])] + suffix[1:]
        elif w < 0.3:
            tree = [("group", [("child", simple(rng.randint(1, 2)))] + tree)]
        t = rng.randint(1, 7)
        ext = [t] if rng.random() < 0.9 else sorted([t, rng.randint(0, 9)])
        dt = rng.choice([0, 0, 0, 0, 0, 1, 1, -1, 2])
        futs = [[max(0, t + dt), "err" if rng.random() < 0.8 else "ok", rng.random() < 0.5]]
        return {"prog": flatten(tree), "ext": ext, "ext_last": ext_last, "futs": futs}
    # task group: a child fails, the body waits for it under ignore_cancellation
    kid = simple(rng.randint(0, 2))
    if rng.random() < 0.8:
        kid = kid + [("fail",)]
    else:
        kid = kid + [("scope", "t", rng.choice([0, 1, 2]), False, [("sleep", 9)])]
    kids = [("child", kid)]
    if rng.random() < 0.3:
        kids.insert(rng.randint(0, 1), ("child", simple(rng.randint(1, 2))))
    target = next(i for i, k in enumerate(kids) if k[1] is kid)
    body = prefix + around(("join", target)) + suffix
    tree = [("group", kids + body)] + simple(rng.randint(0, 1))
    ext = [rng.randint(0, 8)] if rng.random() < 0.2 else []
    return {"prog": flatten(tree), "ext": ext, "ext_last": ext_last, "futs": []}


def _ext_for(rng, hi: int) -> list[int]:
    r = rng.random()
    if r < 0.3:
        return []
    if r < 0.88:
        return [rng.randint(0, hi)]
    return sorted(rng.randint(0, hi + 2) for _ in range(2))


def gen_prim_case(rng) -> dict:
    """random program over the full statement set (checkpoints of the task-group / backend API included), most of the
    time the body of a task group, so that start() / start_soon() are available everywhere"""
    g = Gen(rng, groups=True, tries=rng.random() < 0.15, fails=rng.random() < 0.4, prims=True)
    g.budget = rng.randint(3, 14)
    if rng.random() < 0.75:
        kids = []
        for _ in range(rng.choice([0, 0, 1, 1, 2])):
            g.budget += 2
            kids.append(("child", g.child_body(1)))
        g.nchild, g.in_group = len(kids), True
        body = g.block(1, 0)
        tree = [("group", kids + body)]
        g.nchild, g.in_group = 0, False
        for _ in range(rng.randint(0, 2)):
            tree.append(rng.choice([("yield",), ("sleep", rng.choice([0, 1, 2])), ("syield",)]))
    else:
        tree = g.block(0, 0, top=True)
    ext = _ext_for(rng, 10)
    return {"prog": flatten(tree), "ext": ext, "ext_last": rng.random() < 0.4, "futs": _futs_for(rng, g.nfut, ext)}


def gen_start_case(rng) -> dict:
    """directed shape: a cancellation (deadline passed at entry / after k ticks, pre-cancelled scope, explicit cancel,
    enclosing scope, external cancel at every tick) arrives AT a checkpoint of the task-group / backend API or at a
    clean-up section that shields itself and re-raises, inside a scope; the scope is followed by further checkpoints
    (a request that outlives the scope hits them):
        group{ [children] prefix  [outer scope{]  scope k d pre { pre-ops  CORE  post-ops }  [}]  suffix }  tail
    CORE = start{child} | soon{child}; checkpoint | pwait <prim> | twait/join child | sleep/sleepu/forever |
           tryf{ CORE' finally shielded clean-up }"""
    nfut = 0

    def simple(n):
        return [rng.choice([("sleep", rng.choice([0, 1, 1, 2, 3])), ("yield",), ("syield",)]) for _ in range(n)]

    def child_body():
        r = rng.random()
        if r < 0.3:
            return [("sleep", rng.choice([0, 1, 3, 9]))]
        if r < 0.55:
            return [("shield", [("sleep", rng.choice([1, 2, 3]))]), ("sleep", rng.choice([0, 9]))]
        if r < 0.7:
            return [("syield",)] * rng.randint(1, 3) + [("sleep", 9)]
        if r < 0.8:
            return [("scope", "m", rng.choice([0, 1]), False, [("sleep", 9)]), ("yield",)]
        if r < 0.9:
            return simple(rng.randint(0, 1)) + [("fail",)]
        return [("yield",)]

    def prim():
        nonlocal nfut
        nfut += 1
        return ("pwait", rng.choice(PRIM_KINDS), nfut - 1)

    nkids = rng.choice([0, 0, 1, 2])
    kids = [("child", child_body()) for _ in range(nkids)]
    forever_ok = False

    def core(allow_tryf=True):
        r = rng.random()
        if r < 0.42:
            return [("start", child_body())]
        if r < 0.50:
            return [("soon", child_body()), rng.choice([("yield",), ("sleep", 1), ("syield",)])]
        if r < 0.68:
            return [prim()]
        if r < 0.74 and nkids:
            return [(rng.choice(["twait", "join"]), rng.randrange(nkids))]
        if r < 0.80:
            # (sleep_forever only where a deadline is sure to end it)
            return [rng.choice([("sleepu", rng.choice([0, 2, 5])), ("forever",) if forever_ok else ("sleepu", 9), ("sleep", 9)])]
        if allow_tryf:
            cleanup = []
            for _ in range(rng.randint(1, 2)):
                q = rng.random()
                if q < 0.4:
                    cleanup.append(("shield", [("sleep", rng.choice([0, 1, 2, 3]))]))
                elif q < 0.7:
                    cleanup.append(("syield",))
                elif q < 0.85:
                    nonlocal nfut
                    nfut += 1
                    cleanup.append(("pwait", "thread", nfut - 1))
                else:
                    cleanup.append(("shield", [("start", child_body())]))
            return [("tryf", core(False), cleanup)]
        return [("sleep", 9)]

    pre_ops = simple(rng.choice([0, 0, 1, 2]))
    how = rng.random()
    delay: int | None
    pre = False
    if how < 0.35:
        delay = 0                                   # deadline already passed at entry
    elif how < 0.65:
        delay = rng.choice([1, 1, 2, 3, 4])         # passes while the body runs: every step, with the pre-ops' lengths
    elif how < 0.75:
        delay, pre = None, True                     # cancelled before it is entered
    elif how < 0.9:
        delay = None
        pre_ops = pre_ops + [("cancel", 0)]         # explicit cancel, then the checkpoint
        if rng.random() < 0.5:
            pre_ops.append(("syield",))
    else:
        delay = None                                # only an enclosing scope / an external cancel interrupts
    post_ops = simple(rng.choice([0, 0, 1]))
    shield_all = rng.random() < 0.07
    forever_ok = delay is not None and not shield_all
    c = core()
    w = rng.random()
    if w < 0.15:
        c = [("scope", rng.choice("mt"), rng.choice([None, 9]), False, c)]          # a live scope in between
    scope = ("scope", rng.choice("mmt"), delay, pre, pre_ops + c + post_ops)
    inner: list[Any] = [scope]
    w = rng.random()
    if w < 0.2:
        inner = [("scope", rng.choice("mt"), rng.choice([None, 9, 12]), False, inner + simple(rng.choice([0, 1])))]   # live outer
    elif w < 0.35:
        inner = [("scope", rng.choice("mt"), rng.choice([0, 1, 2, 3]), False, inner + simple(rng.choice([0, 1])))]    # cancelled outer
    elif shield_all:
        inner = [("shield", inner)]
    suffix = [rng.choice([("yield",), ("sleep", rng.choice([0, 1, 2, 3])), ("sleepu", 1)]) for _ in range(rng.randint(1, 3))]
    if rng.random() < 0.2:
        suffix.insert(rng.randint(0, len(suffix)), rng.choice([("syield",), ("shield", simple(1))]))
    prefix = simple(rng.choice([0, 0, 1]))
    tail = simple(rng.choice([0, 1, 1]))
    tree = [("group", kids + prefix + inner + suffix)] + tail
    r = rng.random()
    if r < 0.45:
        ext = []
    elif r < 0.92:
        ext = [rng.randint(0, 8)]
    else:
        ext = sorted(rng.randint(0, 9) for _ in range(2))
    futs = []
    for _ in range(nfut):
        futs.append([rng.randint(0, 8), "err" if rng.random() < 0.2 else "ok", rng.random() < 0.5])
    return {"prog": flatten(tree), "ext": ext, "ext_last": rng.random() < 0.4, "futs": futs}


def generate(rng, tier: str, boost: int) -> Iterator[dict]:
    n = (6000 if tier == "quick" else 120000) * boost
    for i in range(n):
        yield gen_case(rng, groups=(i % 8 == 7))
    # operations that fail (no Lean counterpart: judged by the oracle only)
    for i in range(n // 4):
        if i % 2:
            yield gen_race_case(rng)
        else:
            yield gen_fail_case(rng, groups=(i % 4 == 0))
    # checkpoints of the task-group / backend API as the place where a cancellation arrives (oracle only)
    for i in range(n // 3):
        if i % 2:
            yield gen_prim_case(rng)
        else:
            yield gen_start_case(rng)
    if tier != "quick":
        yield from exhaustive_small()


def exhaustive_small() -> Iterator[dict]:
    """every program of <= 3 statements over a small alphabet, every external cancel tick 0..4 (validation only)"""
    atoms = [("sleep", 2), ("yield",), ("syield",)]
    def blocks(n, nsc, depth):
        if n == 0:
            yield []
            return
        for st in stmts(n, nsc, depth):
            used = size([st])
            for rest in blocks(n - used, nsc, depth):
                yield [st] + rest
    def stmts(n, nsc, depth):
        for a in atoms:
            yield a
        if nsc:
            yield ("cancel", 0)
        if n >= 2 and depth < 2:
            for body_n in range(1, n):
                for body in blocks(body_n, nsc + 1, depth + 1):
                    if size(body) != body_n:
                        continue
                    yield ("scope", "m", 1, False, body)
                    yield ("scope", "t", 0, False, body)
                for body in blocks(body_n, nsc, depth + 1):
                    if size(body) != body_n:
                        continue
                    yield ("shield", body)
    seen = set()
    for n in (1, 2, 3, 4):
        for tree in blocks(n, 0, 0):
            if size(tree) != n:
                continue
            lines = flatten(tree)
            key = "\n".join(lines)
            if key in seen:
                continue
            seen.add(key)
            for ext in ([], [0], [1], [2], [3], [4]):
                yield {"prog": lines, "ext": ext, "ext_last": False}


# ------------------------------------------------------------------------------------------------

def shrink(case: dict) -> Iterator[dict]:
    tree = unflatten(case["prog"])
    ext = case.get("ext", [])
    futs = case.get("futs") or []
    for i in range(len(ext)):
        yield {**case, "ext": ext[:i] + ext[i + 1:]}
    if futs:
        used = {st_k for st_k in _fut_refs(tree)}
        if len(futs) > (max(used) + 1 if used else 0):
            yield {**case, "futs": futs[:max(used) + 1 if used else 0]}
        # all scripted times one tick earlier (keeps a cancel and a failure in the same loop turn)
        if all(t > 0 for t in ext) and all(f[0] > 0 for f in futs):
            yield {**case, "ext": [t - 1 for t in ext], "futs": [[f[0] - 1] + list(f[1:]) for f in futs]}
        for i, f in enumerate(futs):
            if f[0] > 0:
                yield {**case, "futs": futs[:i] + [[f[0] - 1] + list(f[1:])] + futs[i + 1:]}
            if not f[2]:
                yield {**case, "futs": futs[:i] + [[f[0], f[1], True]] + futs[i + 1:]}
    for t in variants(tree):
        if t:
            yield {**case, "prog": flatten(t)}
    for i, t in enumerate(ext):
        if t > 0:
            yield {**case, "ext": ext[:i] + [t - 1] + ext[i + 1:]}
    if case.get("ext_last"):
        yield {**case, "ext_last": False}


def _fut_refs(tree) -> Iterator[int]:
    for st in tree:
        if st[0] == "fwait":
            yield st[1]
        elif st[0] == "pwait":
            yield st[2]
        elif st[0] == "scope":
            yield from _fut_refs(st[4])
        elif st[0] in BLOCKS:
            yield from _fut_refs(st[1])
        elif st[0] == "tryf":
            yield from _fut_refs(st[1])
            yield from _fut_refs(st[2])


def _refs_ok(tree, nsc=0, nchild=0, in_group=False) -> bool:
    for st in tree:
        if st[0] in ("cancel", "resched") and st[1] >= nsc:
            return False
        if st[0] in ("join", "twait", "joinc") and st[1] >= nchild:
            return False
        if st[0] == "scope" and not _refs_ok(st[4], nsc + 1, nchild, in_group):
            return False
        if st[0] in ("shield", "try", "trye") and not _refs_ok(st[1], nsc, nchild, in_group):
            return False
        if st[0] == "tryf" and not (st[1] and _refs_ok(st[1], nsc, nchild, in_group) and _refs_ok(st[2], nsc, nchild, in_group)):
            return False
        if st[0] in ("start", "soon") and not (in_group and _refs_ok(st[1], 0, 0, False)):
            return False
        if st[0] == "child" and not in_group:
            return False
        if st[0] == "group":
            n = sum(1 for k in st[1] if k[0] == "child")
            for k in st[1]:
                if k[0] == "child":
                    if not _refs_ok(k[1], 0, 0, False):
                        return False
                elif not _refs_ok([k], nsc, n, True):
                    return False
    return True


def variants(tree) -> Iterator[list]:
    for v in _variants(tree):
        if _refs_ok(v):
            yield v


def _variants(tree) -> Iterator[list]:
    for i, st in enumerate(tree):
        pre, post = tree[:i], tree[i + 1:]
        yield pre + post                                   # drop the statement
        op = st[0]
        if op == "scope":
            yield pre + list(st[4]) + post                 # unwrap
            if st[2] is not None and st[2] > 0:
                yield pre + [("scope", st[1], st[2] - 1, st[3], st[4])] + post
            if st[1] == "t":
                yield pre + [("scope", "m", st[2], st[3], st[4])] + post
            if st[3]:
                yield pre + [("scope", st[1], st[2], False, st[4])] + post
            for b in _variants(st[4]):
                if b:
                    yield pre + [("scope", st[1], st[2], st[3], b)] + post
        elif op in ("shield", "try", "trye"):
            yield pre + list(st[1]) + post
            for b in _variants(st[1]):
                if b:
                    yield pre + [(op, b)] + post
        elif op == "group":
            body = [k for k in st[1] if k[0] != "child"]
            yield pre + body + post
            for b in _variants(st[1]):
                yield pre + [("group", b)] + post
        elif op in CHILD_BLOCKS:
            for b in _variants(st[1]):
                if b:
                    yield pre + [(op, b)] + post
        elif op == "tryf":
            yield pre + list(st[1]) + list(st[2]) + post
            yield pre + list(st[1]) + post
            for b in _variants(st[1]):
                if b:
                    yield pre + [("tryf", b, st[2])] + post
            for b in _variants(st[2]):
                yield pre + [("tryf", st[1], b)] + post
        elif op in ("sleep", "sleepu") and st[1] > 0:
            yield pre + [(op, st[1] - 1)] + post
        elif op == "resched" and st[2]:
            yield pre + [("resched", st[1], st[2] - 1)] + post


def corpus() -> list[dict]:
    def c(lines, ext=(), ext_last=False, futs=None):
        d = {"prog": list(lines), "ext": list(ext), "ext_last": ext_last}
        if futs is not None:
            d["futs"] = [list(f) for f in futs]
        return d

    cases = [
        # the scenarios of the functional test-suite that carry the semantics
        c(["scope t 0 0", "syield", "endscope", "yield"]),                                   # do_not_cancel_at_timeout_end
        c(["scope m 0 0", "scope t 0 0", "scope t 0 0", "syield", "endscope", "syield", "endscope", "yield", "yield",
           "endscope", "yield"]),                                                            # cancel_at_timeout_end_if_nested
        c(["syield", "scope t 0 0", "scope m inf 0", "syield", "endscope", "endscope", "yield", "yield"], [0]),
        c(["scope m inf 0", "scope m inf 0", "syield", "endscope", "endscope", "yield", "yield"], [0]),
        c(["scope m 1 0", "scope m inf 0", "shield", "sleep 3", "endshield", "cancel 0", "yield", "endscope", "endscope"]),  # edge 1
        c(["scope m 4 0", "scope m inf 0", "scope m inf 0", "scope m 1 0", "shield", "sleep 2", "endshield", "endscope",
           "endscope", "endscope", "yield", "sleep 3", "endscope"]),                         # edge 2
        c(["scope m 0 0", "endscope", "yield"]),                                             # edge 3
        c(["scope m inf 0", "cancel 0", "endscope", "yield"]),                               # edge 4
        c(["scope m inf 0", "cancel 0", "shield", "sleep 1", "endshield", "scope m inf 0", "cancel 0", "endscope", "yield",
           "endscope", "yield"]),                                                            # edge 5
        c(["scope m inf 0", "scope m inf 0", "cancel 0", "syield", "cancel 1", "syield", "endscope", "yield", "endscope",
           "yield"]),                                                                        # edge 6
        c(["scope m inf 0", "cancel 0", "try", "sleep 9", "endtry", "shield", "sleep 1", "endshield", "yield", "yield",
           "endscope"]),                                                                     # reschedule_erased_cancel_from_parent
        # user code swallows an external CancelledError re-issued by the delayed cancel: the scope's re-delivery is lost
        c(["scope m inf 0", "syield", "cancel 0", "try", "sleep 3", "endtry", "yield", "yield", "endscope", "yield"], [0]),
        # F5: cancellation swallowed by a shield, normal exit
        c(["scope m 0 0", "shield", "sleep 3", "endshield", "endscope", "yield"]),
        # deadline ties: sleep ends exactly at the deadline; external cancel in the same tick, before / after
        c(["scope m 3 0", "sleep 3", "yield", "endscope", "yield"]),
        c(["scope t 2 0", "sleep 5", "endscope", "yield"], [2]),
        c(["scope t 2 0", "sleep 5", "endscope", "yield"], [2], True),
        c(["scope t 2 0", "sleep 5", "endscope", "yield"], [3], True),
        # a caught inner timeout travelling through a cancelled outer scope
        c(["scope m 3 0", "scope t 2 0", "sleep 9", "endscope", "yield", "endscope", "yield"]),
        c(["scope m 2 0", "scope t 2 0", "sleep 9", "endscope", "yield", "endscope", "yield"]),
        # reschedule: push the deadline away, pull it in, remove it
        c(["scope m 2 0", "resched 0 6", "sleep 4", "resched 0 0", "yield", "yield", "endscope"]),
        c(["scope t 2 0", "resched 0 inf", "sleep 4", "endscope"]),
        # pre-cancelled scope
        c(["scope m inf 1", "yield", "yield", "endscope", "yield"]),
        # external cancel while shielded, delivered after
        c(["shield", "sleep 3", "endshield", "yield", "yield"], [1]),
        c(["scope m inf 0", "shield", "shield", "sleep 2", "endshield", "syield", "endshield", "sleep 1", "endscope", "yield"], [1]),
        # scope inside a shielded coroutine
        c(["shield", "scope t 1 0", "sleep 4", "endscope", "endshield", "yield"]),
        # task group children
        c(["scope m 2 0", "group", "child", "sleep 9", "endchild", "child", "scope t 1 0", "sleep 9", "endscope", "endchild",
           "sleep 9", "endgroup", "endscope", "yield"]),
        c(["group", "child", "shield", "sleep 3", "endshield", "yield", "endchild", "sleep 9", "endgroup"], [1]),
        # one-shot cancellation + FAILURE of what the shielded coroutine awaits in the same loop turn (either order),
        # the error handled outside / inside the shield, then further checkpoints: the postponed cancel must be delivered
        c(["trye", "shield", "fwait 0", "endshield", "endtrye", "sleep 2", "yield"], [3], futs=[(3, "err", True)]),
        c(["trye", "shield", "fwait 0", "endshield", "endtrye", "sleep 2", "yield"], [3], futs=[(3, "err", False)]),
        c(["shield", "trye", "fwait 0", "endtrye", "sleep 1", "endshield", "sleep 2", "yield"], [3], futs=[(3, "err", False)]),
        c(["shield", "trye", "fwait 0", "endtrye", "sleep 1", "endshield", "sleep 2", "yield"], [3], True, futs=[(3, "err", True)]),
        c(["shield", "trye", "fwait 0", "endtrye", "sleep 1", "endshield", "sleep 2", "yield"], [3], futs=[(4, "err", False)]),
        c(["shield", "fwait 0", "sleep 1", "endshield", "sleep 2", "yield"], [3], futs=[(3, "ok", False)]),
        c(["scope m inf 0", "trye", "shield", "shield", "fwait 0", "endshield", "endshield", "endtrye", "yield", "endscope",
           "yield"], [2], futs=[(2, "err", True)]),
        # the same with library primitives only: the body of a task group waits for its failing child under
        # ignore_cancellation (the group cancels its host and join() fails in one loop turn)
        c(["group", "child", "sleep 2", "fail", "endchild", "trye", "shield", "join 0", "endshield", "endtrye", "sleep 3",
           "endgroup", "yield"]),
        c(["group", "child", "fail", "endchild", "shield", "trye", "join 0", "endtrye", "endshield", "yield", "endgroup"]),
        c(["group", "child", "scope t 1 0", "sleep 9", "endscope", "endchild", "child", "sleep 1", "endchild", "shield",
           "join 1", "join 0", "endshield", "yield", "endgroup"]),
        # open finding, task parked in a task group's join inside the shielded section (not at a shielded operation)
        c(["shield", "scope m 0 0", "group", "child", "syield", "endchild", "endgroup", "endscope", "endshield", "yield"], [0]),
        # open finding, the postponed cancel carried over into a second shielded section with no checkpoint in between
        c(["scope m 9 0", "trye", "shield", "fwait 0", "sleep 3", "endshield", "endtrye", "shield", "sleep 3", "endshield",
           "endscope", "sleep 0", "yield"], [4], True, futs=[(5, "err", False)]),
        # ---- checkpoints of the task-group / backend API as the operation at which the cancellation arrives ----
        # TaskGroup.start() as the first checkpoint of a scope whose deadline has passed / that was cancelled: start() must
        # raise (O1), the scope catches (timeout() -> TimeoutError), and nothing of the scope may hit the checkpoints
        # that follow it (start() swallowed the scope's re-deliveries in its shielded clean-up: O5 handles, O9)
        c(["group", "scope m 0 0", "start", "sleep 9", "endstart", "endscope", "yield", "sleep 0", "sleep 2", "endgroup", "yield"]),
        c(["group", "scope t 0 0", "start", "sleep 9", "endstart", "endscope", "yield", "sleep 0", "sleep 2", "endgroup", "yield"]),
        c(["group", "scope m inf 0", "cancel 0", "syield", "start", "sleep 9", "endstart", "endscope", "yield", "sleep 0",
           "sleep 2", "endgroup"]),
        c(["group", "scope m 9 0", "scope m 0 0", "start", "sleep 9", "endstart", "endscope", "yield", "sleep 0", "sleep 2",
           "endscope", "endgroup"]),
        c(["group", "scope m 0 0", "scope m 9 0", "start", "sleep 9", "endstart", "yield", "endscope", "yield", "endscope",
           "yield", "endgroup"]),
        # the deadline passes while start() is in progress (child shielded: the clean-up of start() lasts several turns)
        c(["group", "scope m 1 0", "start", "shield", "sleep 3", "endshield", "sleep 9", "endstart", "yield", "endscope", "yield",
           "sleep 1", "endgroup", "yield"]),
        c(["group", "scope t 2 0", "sleep 1", "start", "syield", "syield", "sleep 9", "endstart", "endscope", "yield", "sleep 1",
           "endgroup"]),
        # external cancel() at every tick of a start() (with / without a live scope around)
        *[c(["group", "start", "sleep 3", "endstart", "sleep 2", "endgroup", "yield"], [t]) for t in (0, 1, 2, 3)],
        *[c(["group", "scope m 9 0", "start", "shield", "sleep 2", "endshield", "endstart", "sleep 2", "endscope", "endgroup",
             "yield"], [t], last) for t in (0, 1, 2) for last in (False, True)],
        # start_soon + checkpoint, Task.wait(), join inside cancelled scopes
        c(["group", "child", "sleep 3", "endchild", "scope m 1 0", "soon", "sleep 9", "endsoon", "twait 0", "endscope", "yield",
           "endgroup"]),
        # backend primitives inside a scope whose deadline passes while they wait / has passed / external cancel
        *[c(["scope t 2 0", f"pwait {k} 0", "yield", "endscope", "yield", "yield"], [], futs=[(6, "ok", True)])
          for k in PRIM_KINDS],
        *[c(["scope m 0 0", f"pwait {k} 0", "yield", "endscope", "yield", "yield"], [], futs=[(3, "ok", True)])
          for k in PRIM_KINDS],
        *[c([f"pwait {k} 0", "yield", "yield"], [1], futs=[(4, "ok", False)]) for k in PRIM_KINDS],
        c(["scope m 1 0", "sleepu 5", "endscope", "forever"], [4]),
        # clean-up that shields itself and lets the CancelledError go on (what start() does internally): the scope
        # catches in the very step in which the shielded section swallowed one of its requests
        c(["scope m 1 0", "tryf", "sleep 9", "finally", "shield", "sleep 2", "endshield", "endtryf", "endscope", "yield", "yield",
           "sleep 1"]),
        c(["scope t 0 0", "tryf", "yield", "finally", "syield", "endtryf", "endscope", "yield", "yield"]),
        c(["scope m 9 0", "scope m 1 0", "tryf", "sleep 9", "finally", "pwait thread 0", "endtryf", "endscope", "yield", "yield",
           "endscope"], [], futs=[(4, "ok", True)]),
        c(["tryf", "sleep 9", "finally", "shield", "sleep 2", "endshield", "endtryf", "yield"], [1]),
        # defect fixed by f0fd355 (docs/C13.md 5.4): start() under ignore_cancellation never returned when the group
        # aborted in the loop turn in which start() had created its child (gather() does exactly this): O6 start-hang
        c(["group", "shield", "scope m 0 0", "start", "fail", "endstart", "start", "sleep 0", "endstart", "endscope",
           "endshield", "endgroup"]),
        c(["group", "child", "fail", "endchild", "syield", "shield", "start", "sleep 0", "endstart", "endshield", "endgroup"]),
        # start() / start_soon() on a group that is already shutting down: RuntimeError of asyncio (class gdown)
        c(["group", "child", "yield", "fail", "endchild", "shield", "start", "sleep 1", "endstart", "start", "sleep 1", "endstart",
           "endshield", "endgroup"]),
    ]
    return cases
