"""
C19 environment: runs the REAL BaseAsyncDNSResolver.create_stream_connection / _staggered_race_connection_impl
(and, mode "seq", create_datagram_connection / _create_connection_impl) on the virtual-time loop with

  * a harness subclass of BaseAsyncDNSResolver implementing the abstract `connect_socket` with harness-controlled
    futures (public extension point) and `ensure_resolved` returning the scripted addrinfo lists,
  * a logging proxy in front of the real AsyncIOBackend (public AsyncBackend interface: create_task_group /
    start_soon are logged, everything else is delegated unchanged),
  * mode "tracked": a tracking `socket` factory substituted for the `_socket` name of the resolver module
    (scripted socket-creation and bind failures, every socket is a real descriptor),
    mode "real": the genuine socket module (AF_INET / AF_INET6 loopback, failures provoked with an unsupported
    family / a non-local bind address),
  * scripted schedule: per loop turn a list of actions  ["c", i] complete attempt i with its scripted outcome,
    ["x"] cancel the connecting task, ["t", n] advance the virtual clock.

Observable lines (canonical, no addresses / fds):
  spawn i | sock i ok|fail | bind i j ok|fail | close i | conn i | res i ok|err|crash|cancelled | cancel
  fin ret i | fin raise allfailed n | fin raise cancelled | fin raise crash | fin raise other <cls>
  open <sorted indices still open>         (tracker / per-socket fileno view)
  fds +k                                   (change of the process' descriptor table, returned socket included)
"""
from __future__ import annotations

import asyncio
import errno
import math
import os
import socket as real_socket
from typing import Any

from . import c16_vloop as vl

import warnings

# coroutines handed to a task group that is already shutting down (tear-down of a run, or a stagger-loop
# iteration after the group aborted) are never awaited: CPython warns at garbage collection; not an observable here
warnings.filterwarnings("ignore", message="coroutine .* was never awaited", category=RuntimeWarning)

import atexit
import gc

atexit.register(gc.collect)      # collect them while the warnings machinery still exists (quiet interpreter exit)

FAM = {4: int(real_socket.AF_INET), 6: int(real_socket.AF_INET6)}
PROTO_BASE = 100


def fam_const(f: int) -> int:
    """model family number -> the integer put in the addrinfo tuple"""
    return FAM.get(f, 1000 + f)


_V6: dict[str, bool] = {}


def ipv6_loopback_ok() -> bool:
    """can an AF_INET6 socket be created and bound to ::1 on this machine (probed once)"""
    if "ok" not in _V6:
        try:
            with real_socket.socket(real_socket.AF_INET6, real_socket.SOCK_STREAM) as s:
                s.bind(("::1", 0))
            _V6["ok"] = True
        except OSError:
            _V6["ok"] = False
    return _V6["ok"]


def open_fds() -> set[int]:
    res = set()
    for name in os.listdir("/proc/self/fd"):
        try:
            fd = int(name)
            os.fstat(fd)
        except (ValueError, OSError):
            continue
        res.add(fd)
    return res


class Env:
    def __init__(self, case: dict) -> None:
        self.case = case
        self.lines: list[str] = []
        self.addrs = case["addrs"]
        self.local = case.get("local")
        self.mode = case.get("mode", "tracked")
        self.socks: dict[int, Any] = {}          # attempt index -> socket object seen
        self.futs: dict[int, asyncio.Future] = {}
        self.pre: set[int] = set()               # attempts completed before they started (immediate connect)
        self.resolved: set[int] = set()
        self.main_task: asyncio.Task | None = None
        self.script = [list(t) for t in case.get("script", [])]
        self.pos = 0
        self.done = False

    def log(self, s: str) -> None:
        self.lines.append(s)

    # ---- scripted actions ------------------------------------------------------------------
    def complete(self, i: int) -> bool:
        if not (0 <= i < len(self.addrs)):
            return False
        out = self.addrs[i]["out"]
        if out == "hang" or i in self.resolved:
            return False
        fut = self.futs.get(i)
        if fut is None:
            if i in self.pre:
                return False
            self.pre.add(i)
            return True
        if fut.done():
            return False
        self.resolved.add(i)
        self._resolve(fut, out)
        return True

    @staticmethod
    def _resolve(fut: asyncio.Future, out: str) -> None:
        if out == "ok":
            fut.set_result(None)
        elif out == "err":
            fut.set_exception(ConnectionRefusedError(errno.ECONNREFUSED, "Connection refused"))
        else:
            fut.set_exception(RuntimeError("scripted crash in connect_socket"))

    def cancel_main(self) -> bool:
        t = self.main_task
        if t is None or t.done():
            return False
        self.log("cancel")
        # side channel for the oracle (not a model observable): was a cancel request issued by a cancel scope of the
        # race still outstanding on the task (cancelling() > 0) when the caller's cancellation arrived?
        pend = t.cancelling()
        if pend:
            self.log(f"pendingscope {pend}")
        t.cancel()
        return True

    def apply(self, loop: vl.VLoop, actions: list) -> bool:
        did = False
        for a in actions:
            if a[0] == "c":
                did = self.complete(int(a[1])) or did
            elif a[0] == "x":
                did = self.cancel_main() or did
            elif a[0] == "t":
                loop.advance(float(a[1]))
                did = True
        return did

    def hook(self, loop: vl.VLoop, idle: bool) -> bool:
        if self.done:
            return False
        if not idle:
            if self.pos < len(self.script):
                self.pos += 1
                return self.apply(loop, self.script[self.pos - 1])
            return False
        while self.pos < len(self.script):
            self.pos += 1
            if self.apply(loop, self.script[self.pos - 1]) and (loop.has_ready() or loop.timers_due()):
                return True
        # script exhausted and nothing runnable: complete the first pending attempt that can complete,
        # else let the clock jump to the next timer, else cancel the connecting task
        for i in sorted(self.futs):
            if not self.futs[i].done() and self.addrs[i]["out"] != "hang":
                if self.complete(i):
                    return True
        if loop.next_timer() is not None:
            return False
        if self.main_task is not None and not self.main_task.done():
            self.log("stuck")       # nothing can happen any more unless the harness cancels the caller
        return self.cancel_main()


def make_resolver(env: Env):
    from easynetwork.lowlevel.api_async.backend._common.dns_resolver import BaseAsyncDNSResolver

    class ScriptedResolver(BaseAsyncDNSResolver):
        __slots__ = ()

        async def connect_socket(self, socket, address) -> None:
            i = int(address[1])
            env.socks[i] = socket
            env.log(f"conn {i}")
            out = env.addrs[i]["out"]
            loop = asyncio.get_running_loop()
            try:
                if i in env.pre and out != "hang":
                    env.resolved.add(i)
                    fut = loop.create_future()
                    env._resolve(fut, out)
                    fut.result()
                else:
                    fut = env.futs[i] = loop.create_future()
                    await fut
            except asyncio.CancelledError:
                env.log(f"res {i} cancelled")
                raise
            except OSError:
                env.log(f"res {i} err")
                raise
            except RuntimeError:
                env.log(f"res {i} crash")
                raise
            env.log(f"res {i} ok")

        async def ensure_resolved(self, backend, host, port, family, type, proto=0, flags=0):
            if host == "remote":
                return env.remote_info
            if host == "local":
                return env.local_info
            raise AssertionError(host)

    return ScriptedResolver()


class TaskGroupProxy:
    def __init__(self, env: Env, tg) -> None:
        self._env, self._tg = env, tg

    async def __aenter__(self):
        await self._tg.__aenter__()
        return self

    async def __aexit__(self, et, ev, tb):
        return await self._tg.__aexit__(et, ev, tb)

    def start_soon(self, coro_func, /, *args, name=None):
        addr = args[0]
        self._env.log(f"spawn {int(addr[4][1])}")
        return self._tg.start_soon(coro_func, *args, name=name)


class BackendProxy:
    """logging proxy in front of the real backend: only public AsyncBackend methods are used by the resolver"""

    def __init__(self, env: Env, backend) -> None:
        self._env, self._b = env, backend

    def __getattr__(self, name: str):
        return getattr(self._b, name)

    def create_task_group(self):
        return TaskGroupProxy(self._env, self._b.create_task_group())

    def move_on_after(self, delay):
        return self._b.move_on_after(delay)

    def open_cancel_scope(self, **kw):
        return self._b.open_cancel_scope(**kw)

    def create_event(self):
        return self._b.create_event()


class SocketModuleProxy:
    """stands for the `socket` module inside dns_resolver.py: `.socket` is the tracking socket class"""

    def __init__(self, env: Env) -> None:
        self._env = env
        self.socket = type("TrackedSocket", (TrackedSocketBase,), {"_env": env})

    def __getattr__(self, name: str):
        return getattr(real_socket, name)


class TrackedSocketBase(real_socket.socket):
    """socket(family, type, proto): `proto` carries the attempt index; creation / bind failures are scripted;
    every instance owns a real descriptor"""

    _env: Env

    def __init__(self, family=-1, type=-1, proto=-1, fileno=None) -> None:
        env = self._env
        i = int(proto) - PROTO_BASE
        self._idx = i
        if not env.addrs[i]["sock"]:
            env.log(f"sock {i} fail")
            raise OSError(errno.EAFNOSUPPORT, "Address family not supported by protocol")
        super().__init__(real_socket.AF_INET, real_socket.SOCK_STREAM)
        env.log(f"sock {i} ok")
        env.socks[i] = self

    def bind(self, address) -> None:  # type: ignore[override]
        j = int(address[1])
        ok = bool(self._env.local[j]["bind"])
        self._env.log(f"bind {self._idx} {j} {'ok' if ok else 'fail'}")
        if not ok:
            raise OSError(errno.EADDRNOTAVAIL, "Cannot assign requested address")

    def close(self) -> None:  # type: ignore[override]
        if self.fileno() != -1:
            self._env.log(f"close {self._idx}")
        super().close()


def build_infos(env: Env) -> None:
    tracked = env.mode == "tracked"
    rem = []
    for i, a in enumerate(env.addrs):
        f = int(a["fam"])
        if tracked:
            rem.append((fam_const(f), int(real_socket.SOCK_STREAM), PROTO_BASE + i, "", ("h", i)))
        else:
            fam = FAM.get(f, 9999) if a["sock"] else 9999      # unsupported family -> genuine socket() failure
            rem.append((fam, int(real_socket.SOCK_STREAM), 0, "", ("h", i)))
    env.remote_info = rem
    env.local_info = None
    if env.local is not None:
        loc = []
        for j, l in enumerate(env.local):
            f = int(l["fam"])
            if tracked:
                loc.append((fam_const(f), int(real_socket.SOCK_STREAM), 0, "", ("l", j)))
            else:
                host = ("127.0.0.1" if f == 4 else "::1") if l["bind"] else ("192.0.2.1" if f == 4 else "2001:db8::1")
                loc.append((FAM.get(f, 9999), int(real_socket.SOCK_STREAM), 0, "", (host, 0)))
        env.local_info = loc


def classify(exc: BaseException) -> str:
    def leaves(e):
        if isinstance(e, BaseExceptionGroup):
            for x in e.exceptions:
                yield from leaves(x)
        else:
            yield e

    if isinstance(exc, asyncio.CancelledError):
        return "cancelled"
    if isinstance(exc, BaseExceptionGroup):
        ls = list(leaves(exc))
        if ls and all(isinstance(x, OSError) for x in ls) and "create_connection() failed" in str(exc.message):
            return f"allfailed {len(ls)}"
        if any(isinstance(x, RuntimeError) and "scripted crash" in str(x) for x in ls):
            return "crash"
        return "other " + type(exc).__name__ + "[" + ",".join(sorted({type(x).__name__ for x in ls})) + "]"
    if isinstance(exc, RuntimeError) and "scripted crash" in str(exc):
        return "crash"
    return "other " + type(exc).__name__


def run_case(case: dict) -> list[str]:
    from easynetwork.lowlevel.api_async.backend._asyncio.backend import AsyncIOBackend
    from easynetwork.lowlevel.api_async.backend._common import dns_resolver as mod

    env = Env(case)
    build_infos(env)
    resolver = make_resolver(env)
    delay = case.get("delay")
    hed = math.inf if delay is None else float(delay)
    seq = case.get("api", "race") == "seq"
    result: dict[str, Any] = {}

    async def connect(backend):
        kw: dict[str, Any] = {}
        if env.local is not None:
            kw["local_address"] = ("local", 0)
        if seq:
            return await resolver.create_datagram_connection(backend, "remote", 1, **kw)
        return await resolver.create_stream_connection(backend, "remote", 1, happy_eyeballs_delay=hed, **kw)

    async def main(loop):
        backend = BackendProxy(env, AsyncIOBackend())
        before = open_fds()
        env.main_task = loop.create_task(connect(backend))
        try:
            sock = await asyncio.shield(env.main_task)
        except BaseException as exc:  # noqa
            if env.main_task.done() and not env.main_task.cancelled():
                exc = env.main_task.exception() or exc
            env.log("fin raise " + classify(exc))
            sock = None
        else:
            idx = next((i for i, s in env.socks.items() if s is sock), None)
            env.log(f"fin ret {idx if idx is not None else '?'}")
        env.done = True
        # a few more turns: anything deferred (there should be nothing) gets its chance
        for _ in range(3):
            await asyncio.sleep(0)
        after = open_fds()
        still = sorted(i for i, s in env.socks.items() if s.fileno() != -1)
        env.log("open " + (",".join(map(str, still)) if still else "-"))
        env.log(f"fds +{len(after - before)}" + (f" -{len(before - after)}" if before - after else ""))
        result["sock"] = sock

    saved = mod._socket
    if env.mode == "tracked":
        mod._socket = SocketModuleProxy(env)  # type: ignore[assignment]
    try:
        try:
            vl.run(main, env.hook, max_turns=4000)
        except vl.Stalled:
            env.log("stalled")
    finally:
        mod._socket = saved
        for s in env.socks.values():
            try:
                real_socket.socket.close(s)
            except Exception:
                pass
    return canonical(env.lines)


def canonical(lines: list[str]) -> list[str]:
    """asyncio.TaskGroup keeps its children in a `set`: the order in which it cancels them (hence the order of adjacent
    `res i cancelled [close i]` groups) depends on object addresses. Adjacent groups are sorted by attempt index."""
    out: list[str] = []
    groups: list[list[str]] = []

    def flush() -> None:
        groups.sort(key=lambda g: int(g[0].split()[1]))
        for g in groups:
            out.extend(g)
        groups.clear()

    i = 0
    while i < len(lines):
        w = lines[i].split()
        if w[0] == "res" and w[2] == "cancelled":
            g = [lines[i]]
            if i + 1 < len(lines) and lines[i + 1] == f"close {w[1]}":
                g.append(lines[i + 1])
                i += 1
            groups.append(g)
        else:
            flush()
            out.append(lines[i])
        i += 1
    flush()
    return out
