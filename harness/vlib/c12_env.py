"""
Deterministic environment for C12 (concurrent senders never interleave packets).

  VLoop          virtual-time asyncio loop (one `_run_once` = one turn, clock jumps when only timers are pending,
                 a turn with nothing ready and nothing scheduled = deadlock -> the loop is stopped)
  Trace          event log shared by the instrumented pieces (lines of text, no addresses, virtual ticks only)
  Script         the transport's behaviour: for every write a pair (accepted bytes, pause after it)
  MemTransport   in-memory AsyncStreamTransport (EasyNetwork's public ABC): partial writes + suspensions by script
  LoggedFairLock / LoggedAsyncioLock
                 the real FairLock / asyncio.Lock, subclassed only to log call/acq/rel/cancelled with the lock state
  HBackend       the real AsyncIOBackend with wrap_stream_socket/create_tcp_listeners/create_fair_lock redirected
                 to the objects above (public extension points of AsyncBackend)
Round 6 (several library objects in ONE loop, see c12_multi):
  OBJ            context variable: the index of the library object on whose behalf the current task runs (None in the
                 one-object runs); set by the per-object session task, inherited by every task created below it
  VLoop(fifo_timers=True)   timers that are due at the same virtual tick fire in the order in which they were scheduled
                 (asyncio's heap leaves ties unspecified): what one object's tasks do then does not depend on which timers of
                 OTHER objects sit in the heap
  SharedHBackend ONE backend object for all the objects of a loop; the harness-side bookkeeping (transports to hand out, lock
                 names, trace) stays per object and is looked up through OBJ
"""
from __future__ import annotations

import asyncio
import contextvars
import heapq
import socket
from asyncio import events as _events
from collections import deque
from typing import Any, Callable, Iterable

from vlib import core  # noqa: F401  (puts VERIF_REPO/src on sys.path)

from easynetwork.lowlevel.api_async.backend._asyncio.backend import AsyncIOBackend
from easynetwork.lowlevel.api_async.backend._common.fair_lock import FairLock
from easynetwork.lowlevel.api_async.transports.abc import AsyncListener, AsyncStreamTransport
from easynetwork.lowlevel.socket import INETSocketAttribute


class Deadlock(Exception):
    pass


OBJ: contextvars.ContextVar[Any] = contextvars.ContextVar("c12_obj", default=None)
SHARED: contextvars.ContextVar[Any] = contextvars.ContextVar("c12_shared_backend", default=None)


class _OrderedTimer(_events.TimerHandle):
    """TimerHandle ordered by (when, scheduling order) instead of `when` alone"""

    __slots__ = ["_seq"]

    def __lt__(self, other):  # heapq only uses <
        if isinstance(other, _OrderedTimer):
            return (self._when, self._seq) < (other._when, other._seq)
        return NotImplemented


class VLoop(asyncio.SelectorEventLoop):
    def __init__(self, *, fifo_timers: bool = False) -> None:
        super().__init__()
        self._vt = 0.0
        self.turns = 0
        self.deadlocked = False
        self.max_turns = 200000
        self.fifo_timers = fifo_timers
        self._timer_seq = 0

    def time(self) -> float:
        return self._vt

    def call_at(self, when, callback, *args, context=None):
        if not self.fifo_timers:
            return super().call_at(when, callback, *args, context=context)
        # BaseEventLoop.call_at with a handle that breaks ties by scheduling order
        if when is None:
            raise TypeError("when cannot be None")
        self._check_closed()
        timer = _OrderedTimer(when, callback, args, self, context)
        self._timer_seq += 1
        timer._seq = self._timer_seq
        heapq.heappush(self._scheduled, timer)
        timer._scheduled = True
        return timer

    def _run_once(self) -> None:
        self.turns += 1
        if not self._ready:
            sched = [h for h in self._scheduled if not h._cancelled]
            if sched:
                when = min(h._when for h in sched)
                if when > self._vt:
                    self._vt = when
            elif not self._stopping:
                self.deadlocked = True
                self.stop()
        if self.turns > self.max_turns:
            self.deadlocked = True
            self.stop()
        super()._run_once()


def _drain(loop: VLoop) -> None:
    """cancel whatever is still pending (senders swallow a cancellation and go on with their next packet, so cancel
    again until every task is gone); nothing that happens here is observable"""
    loop.set_exception_handler(lambda _loop, _ctx: None)
    for _ in range(500):
        pending = asyncio.all_tasks(loop)
        if not pending:
            break
        for t in pending:
            t.cancel()
        loop.deadlocked = False
        loop.call_soon(loop.stop)
        loop.run_forever()
    for t in asyncio.all_tasks(loop):
        t._log_destroy_pending = False  # type: ignore[attr-defined]


def run(main: Callable[[], Any], trace: "Trace | None" = None, *, fifo_timers: bool = False,
        traces: "list[Trace] | None" = None) -> tuple[Any, VLoop]:
    """run `main()` (a coroutine function) to completion on a fresh virtual loop"""
    from sniffio import thread_local

    loop = VLoop(fifo_timers=fifo_timers)
    old, thread_local.name = thread_local.name, "asyncio"
    try:
        asyncio.set_event_loop(loop)
        task = loop.create_task(main(), name="main")
        try:
            loop.run_until_complete(task)
            res = task.result()
        except RuntimeError as e:
            if not loop.deadlocked:
                raise
            res = Deadlock(str(e))
        finally:
            if trace is not None:
                trace.enabled = False
            for t_ in traces or ():
                t_.enabled = False
            dl = loop.deadlocked
            _drain(loop)
            loop.deadlocked = dl
        return res, loop
    finally:
        thread_local.name = old
        try:
            loop.run_until_complete(loop.shutdown_asyncgens())
        except Exception:
            pass
        asyncio.set_event_loop(None)
        loop.close()


def cur() -> str:
    t = asyncio.current_task()
    return t.get_name() if t is not None else "?"


class Trace:
    def __init__(self) -> None:
        self.lines: list[str] = []
        self.enabled = True

    def ev(self, line: str) -> None:
        if self.enabled:
            self.lines.append(line)


class Script:
    """(n, pause): the next write accepts at most n bytes (n >= 1), then the caller is suspended:
    pause = 0 no suspension, k > 0: k bare yields, k < 0: sleep(-k ticks)"""

    def __init__(self, items: list[list[int]]) -> None:
        self.items = deque((int(a), int(b)) for a, b in items)

    def next(self) -> tuple[int, int]:
        if self.items:
            return self.items.popleft()
        return (1 << 30, 0)


async def pause(k: int) -> None:
    if k > 0:
        for _ in range(k):
            await asyncio.sleep(0)
    elif k < 0:
        await asyncio.sleep(float(-k))


_attr_sock: socket.socket | None = None
_attr_peer: socket.socket | None = None


def attr_socket() -> socket.socket:
    """one connected AF_INET socket per process, used only to answer extra-attribute queries
    (family, sockname, peername, SO_ERROR); no data ever goes through it"""
    global _attr_sock, _attr_peer
    if _attr_sock is None:
        srv = socket.socket(socket.AF_INET, socket.SOCK_STREAM)
        srv.bind(("127.0.0.1", 0))
        srv.listen(1)
        c = socket.socket(socket.AF_INET, socket.SOCK_STREAM)
        c.connect(srv.getsockname())
        _attr_peer, _ = srv.accept()
        srv.close()
        _attr_sock = c
    return _attr_sock


class MemTransport(AsyncStreamTransport):
    """In-memory stream transport.  Outgoing bytes are appended to `wire` following the script; `tag` prefixes
    its trace lines.  Incoming bytes: `inbox` (list of chunks) then wait for close (EOF)."""

    def __init__(self, backend, trace: Trace, script: Script, *, tag: str = "", mode: str = "iter",
                 inbox: list[bytes] | None = None, sock: socket.socket | None = None, log: bool = True) -> None:
        super().__init__()
        self._backend = backend
        self.trace = trace
        self.script = script
        self.tag = tag
        self.mode = mode
        self.wire = bytearray()
        self.writes: list[tuple[str, bytes]] = []
        self.calls: list[tuple[str, bytes]] = []
        self.inbox: deque[bytes] = deque(inbox or [])
        self._closing = False
        self._closed_ev: asyncio.Event | None = None
        self._sock = sock
        self.log = log
        self.active = 0
        self.overlap = False
        self.on_write: Callable[[bytes], None] | None = None

    # ---- AsyncBaseTransport
    async def aclose(self) -> None:
        self._closing = True
        if self._closed_ev is not None:
            self._closed_ev.set()
        await asyncio.sleep(0)

    def is_closing(self) -> bool:
        return self._closing

    def backend(self):
        return self._backend

    @property
    def extra_attributes(self):
        s = self._sock or attr_socket()
        return {
            INETSocketAttribute.socket: lambda: s,
            INETSocketAttribute.family: lambda: s.family,
            INETSocketAttribute.sockname: lambda: s.getsockname(),
            INETSocketAttribute.peername: lambda: s.getpeername(),
        }

    # ---- read side
    async def recv(self, bufsize: int) -> bytes:
        if self.inbox:
            c = self.inbox.popleft()
            if len(c) > bufsize:
                self.inbox.appendleft(c[bufsize:])
                c = c[:bufsize]
            await asyncio.sleep(0)
            return c
        if self._closing:
            return b""
        if self._closed_ev is None:
            self._closed_ev = asyncio.Event()
        await self._closed_ev.wait()
        return b""

    async def recv_into(self, buffer) -> int:
        mv = memoryview(buffer)
        data = await self.recv(mv.nbytes)
        mv[: len(data)] = data
        return len(data)

    # ---- write side
    async def _write_all(self, who: str, data: bytes) -> None:
        while True:
            n, p = self.script.next()
            n = max(1, n)
            piece, data = data[:n], data[n:]
            if piece:
                self.wire += piece
                self.writes.append((who, piece))
                if self.on_write is not None:
                    self.on_write(piece)
                if self.log:
                    self.trace.ev(f"{self.tag}write {who} {piece.hex()}")
            await pause(p)
            if not data:
                return

    async def send_all(self, data) -> None:
        who = cur()
        data = bytes(data)
        self.calls.append((who, data))
        if self.log:
            self.trace.ev(f"{self.tag}xmit {who} {core.hexs(data)}")
        self.active += 1
        if self.active > 1:
            self.overlap = True
        try:
            if self._closing:
                raise ConnectionAbortedError("closed transport")
            await self._write_all(who, data)
        finally:
            self.active -= 1
        if self.log:
            self.trace.ev(f"{self.tag}ret {who}")

    async def send_all_from_iterable(self, iterable_of_data: Iterable[Any]) -> None:
        if self.mode == "join":
            return await super().send_all_from_iterable(iterable_of_data)
        who = cur()
        chunks = [bytes(c) for c in iterable_of_data]
        data = b"".join(chunks)
        self.calls.append((who, data))
        if self.log:
            self.trace.ev(f"{self.tag}xmit {who} {core.hexs(data)}")
        self.active += 1
        if self.active > 1:
            self.overlap = True
        try:
            if self._closing:
                raise ConnectionAbortedError("closed transport")
            # chunk by chunk, as a transport without scatter/gather support does
            for c in chunks:
                if c:
                    await self._write_all(who, c)
        finally:
            self.active -= 1
        if self.log:
            self.trace.ev(f"{self.tag}ret {who}")

    async def send_eof(self) -> None:
        await asyncio.sleep(0)


class MemListener(AsyncListener[AsyncStreamTransport]):
    """hands the given transports to the server, one accept per loop turn, then sleeps forever"""

    def __init__(self, backend, transports: list[MemTransport]) -> None:
        super().__init__()
        self._backend = backend
        self._transports = transports
        self._closing = False

    async def aclose(self) -> None:
        self._closing = True
        await asyncio.sleep(0)

    def is_closing(self) -> bool:
        return self._closing

    def backend(self):
        return self._backend

    @property
    def extra_attributes(self):
        s = attr_socket()
        return {
            INETSocketAttribute.socket: lambda: s,
            INETSocketAttribute.family: lambda: s.family,
            INETSocketAttribute.sockname: lambda: s.getsockname(),
        }

    async def serve(self, handler, task_group=None):
        async def conn(t: Any) -> None:
            OBJ.set(t.obj)          # (the connection's task: everything created below belongs to that object)
            await handler(t)

        async with self._backend.create_task_group() as tg:
            for t in self._transports:
                if getattr(t, "obj", None) is None:
                    tg.start_soon(handler, t)
                else:
                    tg.start_soon(conn, t)
                await asyncio.sleep(0)
            await self._backend.sleep_forever()
        raise AssertionError


# ------------------------------------------------------------------------------------------------
# instrumented locks (behaviour unchanged: every override logs and delegates to the real method)
# ------------------------------------------------------------------------------------------------

class _EventFactory:
    """the `backend` a FairLock sees: create_event() is the only thing FairLock asks of it"""

    def __init__(self, lock: "LoggedFairLock") -> None:
        self.lock = lock

    def create_event(self):
        ev = asyncio.Event()
        ev.owner = self.lock._caller  # type: ignore[attr-defined]
        return ev


class LoggedFairLock(FairLock):
    def __init__(self, trace: Trace, name: str = "") -> None:
        super().__init__(_EventFactory(self))  # type: ignore[arg-type]
        self.trace = trace
        self.name = name
        self._caller = "?"
        self.parked: set[str] = set()
        self.holder: str | None = None

    def state(self) -> str:
        ws = ",".join(f"{w.owner}{'*' if w.is_set() else ''}" for w in (self._waiters or ()))
        return f"L={int(self._locked)} W=[{ws}]"

    async def acquire(self) -> None:
        t = cur()
        self._caller = t
        self.trace.ev(f"{self.name}call {t} pre {self.state()}")
        self.parked.add(t)
        try:
            await super().acquire()
        except BaseException:
            self.parked.discard(t)
            self.trace.ev(f"{self.name}cancelled {t} post {self.state()}")
            raise
        self.parked.discard(t)
        self.holder = t
        self.trace.ev(f"{self.name}acq {t} post {self.state()}")

    def release(self) -> None:
        t = cur()
        try:
            super().release()
        except RuntimeError:
            self.trace.ev(f"{self.name}rel {t} error")
            raise
        self.holder = None
        self.trace.ev(f"{self.name}rel {t} post {self.state()}")


class LoggedAsyncioLock(asyncio.Lock):
    """asyncio.Lock (what AsyncIOBackend.create_fair_lock returns) with the same log format"""

    def __init__(self, trace: Trace, name: str = "") -> None:
        super().__init__()
        self.trace = trace
        self.name = name
        self._callers: list[str] = []          # callers that have not returned yet, in call order
        self._owner_of: dict[int, str] = {}
        self.parked: set[str] = set()
        self.holder: str | None = None

    def _tag(self) -> None:
        ws = list(self._waiters or ())
        known = {id(w) for w in ws if id(w) in self._owner_of}
        self._owner_of = {k: v for k, v in self._owner_of.items() if k in known}
        used = set(self._owner_of.values())
        free = [c for c in self._callers if c not in used]
        for w in ws:
            if id(w) not in self._owner_of and free:
                self._owner_of[id(w)] = free.pop(0)

    def state(self) -> str:
        self._tag()
        # a cancelled future stays in the deque until its task runs (like a FairLock waiter whose task has a
        # cancellation pending); the set marks are not comparable with FairLock's and are stripped by the harness
        ws = ",".join(f"{self._owner_of.get(id(w), '?')}{'*' if (w.done() and not w.cancelled()) else ''}"
                      for w in (self._waiters or ()))
        return f"L={int(self._locked)} W=[{ws}]"

    async def acquire(self):
        t = cur()
        self.trace.ev(f"{self.name}call {t} pre {self.state()}")
        self._callers.append(t)
        self.parked.add(t)
        try:
            r = await super().acquire()
        except BaseException:
            self._callers.remove(t)
            self.parked.discard(t)
            self.trace.ev(f"{self.name}cancelled {t} post {self.state()}")
            raise
        self._callers.remove(t)
        self.parked.discard(t)
        self.holder = t
        self.trace.ev(f"{self.name}acq {t} post {self.state()}")
        return r

    def release(self) -> None:
        t = cur()
        try:
            super().release()
        except RuntimeError:
            self.trace.ev(f"{self.name}rel {t} error")
            raise
        self.holder = None
        self.trace.ev(f"{self.name}rel {t} post {self.state()}")


class HBackend(AsyncIOBackend):
    """AsyncIOBackend whose socket/listener/lock factories return the harness objects"""

    def __init__(self, trace: Trace, *, lock_kind: str = "fair") -> None:
        super().__init__()
        self.trace = trace
        self.lock_kind = lock_kind
        self.transports: list[MemTransport] = []       # handed out by wrap_stream_socket, in order
        self.listener_transports: list[MemTransport] = []
        self.fair_locks: list[Any] = []
        self.lock_names: list[str] = []
        self.connect_pause = 0

    def create_fair_lock(self):
        name = self.lock_names.pop(0) if self.lock_names else ""
        if name is None:
            return super().create_fair_lock()
        lock = LoggedFairLock(self.trace, name) if self.lock_kind == "fair" else LoggedAsyncioLock(self.trace, name)
        self.fair_locks.append(lock)
        return lock

    async def wrap_stream_socket(self, sock):
        await pause(self.connect_pause)
        return self.transports.pop(0)

    async def create_tcp_listeners(self, host, port, backlog, *, reuse_port=False):
        return [MemListener(self, self.listener_transports)]


class _PerObject:
    def __init__(self, trace: Trace, lock_kind: str) -> None:
        self.trace = trace
        self.lock_kind = lock_kind
        self.transports: list[MemTransport] = []
        self.listener_transports: list[MemTransport] = []
        self.fair_locks: list[Any] = []
        self.lock_names: list[str] = []
        self.connect_pause = 0


_ROUTED = ("trace", "lock_kind", "transports", "listener_transports", "fair_locks", "lock_names", "connect_pause")


class SharedHBackend(HBackend):
    """ONE backend object used by every library object of a loop (what an application does).  The harness-side
    bookkeeping of HBackend is kept per object: the attributes listed in `_ROUTED` are looked up in the record of the
    object on whose behalf the current task runs (context variable OBJ), so the per-object session code and the
    factories of HBackend are used as they are."""

    def __init__(self) -> None:
        AsyncIOBackend.__init__(self)
        object.__setattr__(self, "_per", {})

    def register(self, trace: Trace, lock_kind: str, obj: Any = None) -> None:
        self._per[OBJ.get() if obj is None else obj] = _PerObject(trace, lock_kind)

    def record(self, obj: Any) -> _PerObject:
        return self._per[obj]

    def __getattr__(self, name: str) -> Any:         # only called for names not found the normal way
        if name in _ROUTED:
            return getattr(self._per[OBJ.get()], name)
        raise AttributeError(name)

    def __setattr__(self, name: str, value: Any) -> None:
        if name in _ROUTED:
            setattr(self._per[OBJ.get()], name, value)
        else:
            object.__setattr__(self, name, value)


def make_backend(trace: Trace, *, lock_kind: str = "fair") -> HBackend:
    """the backend of one session: a fresh HBackend, or the loop's shared one (SHARED) with a record for this object"""
    shared = SHARED.get()
    if shared is None:
        return HBackend(trace, lock_kind=lock_kind)
    shared.register(trace, lock_kind)
    return shared
