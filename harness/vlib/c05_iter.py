"""
C05, round 5 — the ITERATOR receive entry points of the UDP clients, and the one-directional datagram endpoints.

Region of the input space that was missing: every receive of C05 went through `recv_packet()`, one call per datagram.  The clients
have a second receive entry point, `iter_received_packets(timeout=…)` (blocking `UDPNetworkClient`, `AsyncUDPNetworkClient`), which
is an OBJECT with a life of its own: it is advanced many times, it lives across parse errors, it has a time budget, and the
application may interleave it with direct `recv_packet()` calls.  "Each received datagram yields exactly one packet or exactly one
parse error ... a malformed datagram affects no other" has to hold for the observations made through that object too:

    after k datagrams were delivered to the client's socket, advancing the SAME iterator object (parse errors caught, the object
    kept) makes exactly k observations, the i-th being the stand-alone decoding of the i-th datagram, and only then does the
    iterator report "nothing more" (StopIteration / StopAsyncIteration).

Schedules covered (`case` fields):
  api      "udp-iter" (blocking client)  |  "audp-iter" (asyncio client)
  timeout  the iterator's budget: 0 ("what is already there", blocking only), 30.0, None
  batch    "all": the k datagrams are in the socket before the first advance;  "each": one datagram, one advance
  plan     per datagram "n" (advance the iterator) or "r" (a direct recv_packet() call between two advances: the two entry points
           share the socket and must not disturb each other)
  reiter   also take `iter(it)` / `aiter(it)` between advances (must be the same object: a `for` loop resumed after an `except`)

No wall clock in the verdict: a blocking advance is made only once select() reports the client's socket readable (3 s, else
InfraError "datagram lost"), so even `timeout=0` finds its datagram; asynchronous advances are awaited with a 5 s watchdog
(InfraError).  The end of the iteration is observed without waiting: the same iterator once more when its budget is 0, otherwise a
fresh `iter_received_packets(timeout=0)`; both must report the end (`end stop`) — a packet or an error there is a duplicated or
invented datagram (`end extra …`).  Whatever is still in the socket afterwards is counted (`left n`): a datagram that gave no
observation at all.

`run_rx` drives `DatagramReceiverEndpoint` / `DatagramSenderEndpoint` and their asynchronous twins (the one-directional endpoint
classes have their own receive / send code) over the scripted transports of props/c05.py.
"""
from __future__ import annotations

import asyncio
import select
import socket
from typing import Any, Callable

from vlib import core, streamdrive as sd

from easynetwork.exceptions import DatagramProtocolParseError

ITER_APIS = ("udp-iter", "audp-iter")
RX_APIS = ("sync-rx", "async-rx")
META = ("sent ", "end ", "left ")


def err_line(e: DatagramProtocolParseError) -> str:
    return "err parse" if type(e.error).__name__ != "PacketConversionError" else "err conv"


def _obs(fn: Callable[[], Any], stop: type) -> str:
    try:
        p = fn()
    except DatagramProtocolParseError as e:
        return err_line(e)
    except stop:
        return "stop"
    except (TimeoutError, socket.timeout):
        raise
    except Exception as e:  # noqa: BLE001
        return f"exc {type(e).__name__}"
    return sd.pkt_line(p)


def _wait_readable(sock: socket.socket) -> None:
    r, _, _ = select.select([sock], [], [], 3.0)
    if not r:
        raise core.InfraError("loopback UDP datagram lost: the client's socket did not become readable within 3 s")


def run_iter(case: dict, proto, datagrams: list[bytes]) -> list[str]:
    timeout = case.get("timeout", 0)
    plan = case.get("plan") or ["n"] * len(datagrams)
    batch = case.get("batch", "all")
    reiter = bool(case.get("reiter"))
    peer = socket.socket(socket.AF_INET, socket.SOCK_DGRAM)
    peer.bind(("127.0.0.1", 0))
    peer.settimeout(3.0)
    lines: list[str] = []
    try:
        if case["api"] == "udp-iter":
            _blocking(proto, datagrams, peer, timeout, plan, batch, reiter, lines)
        else:
            asyncio.run(_async(proto, datagrams, peer, timeout, plan, batch, reiter, lines))
    except (TimeoutError, socket.timeout) as e:
        raise core.InfraError(f"loopback UDP datagram lost: {e!r}") from e
    finally:
        peer.close()
    return lines


def _blocking(proto, datagrams, peer, timeout, plan, batch, reiter, lines) -> None:
    from easynetwork.clients.udp import UDPNetworkClient

    sock = socket.socket(socket.AF_INET, socket.SOCK_DGRAM)
    sock.bind(("127.0.0.1", 0))
    sock.connect(peer.getsockname())
    with UDPNetworkClient(sock, proto) as client:
        addr = client.get_local_address()
        me = (addr.host, addr.port)
        if batch == "all":
            for d in datagrams:
                peer.sendto(d, me)
        it = client.iter_received_packets(timeout=timeout)
        for i, d in enumerate(datagrams):
            if batch != "all":
                peer.sendto(d, me)
            _wait_readable(sock)
            if plan[i % len(plan)] == "r":
                lines.append(_obs(lambda: client.recv_packet(timeout=3.0), StopIteration))
            else:
                if reiter:
                    it2 = iter(it)
                    if it2 is not it:
                        lines.append("exc iter(it)-is-not-it")
                    it = it2
                lines.append(_obs(lambda: next(it), StopIteration))
        # the end of the iteration, observed without waiting
        last = it if timeout == 0 else client.iter_received_packets(timeout=0)
        lines.append("end " + _obs(lambda: next(last), StopIteration))
        left = 0
        while left < len(datagrams) + 2 and select.select([sock], [], [], 0)[0]:
            try:
                sock.recv(65536)
            except OSError:
                break
            left += 1
        lines.append(f"left {left}")


async def _async(proto, datagrams, peer, timeout, plan, batch, reiter, lines) -> None:
    from easynetwork.clients.async_udp import AsyncUDPNetworkClient

    async def obs(aw) -> str:
        try:
            p = await asyncio.wait_for(aw, 5.0)
        except DatagramProtocolParseError as e:
            return err_line(e)
        except StopAsyncIteration:
            return "stop"
        except TimeoutError:
            raise
        except Exception as e:  # noqa: BLE001
            return f"exc {type(e).__name__}"
        return sd.pkt_line(p)

    async with AsyncUDPNetworkClient(peer.getsockname(), proto) as client:
        addr = client.get_local_address()
        me = (addr.host, addr.port)
        if batch == "all":
            for d in datagrams:
                peer.sendto(d, me)
        it = client.iter_received_packets(timeout=timeout)
        stopped = False
        for i, d in enumerate(datagrams):
            if batch != "all":
                peer.sendto(d, me)
            if plan[i % len(plan)] == "r":
                lines.append(await obs(client.recv_packet()))
            else:
                if reiter:
                    it2 = aiter(it)
                    if it2 is not it:
                        lines.append("exc aiter(it)-is-not-it")
                    it = it2
                if stopped:
                    # (an iterator that has stopped although its budget is far from spent: every later advance is asked without
                    #  the watchdog's help, it cannot block)
                    lines.append(await obs(anext(it)))
                    continue
                ln = await obs(anext(it))
                stopped = ln == "stop"
                lines.append(ln)
        # the end, observed without waiting: let the event loop read whatever is still in the kernel queue (one datagram per
        # turn), then a fresh zero-budget iterator (it delivers what is queued without suspending) must report the end at once
        fd = client.socket.fileno()
        for _ in range(len(datagrams) + 4):
            await asyncio.sleep(0)
            if not select.select([fd], [], [], 0)[0]:
                break
        await asyncio.sleep(0)
        last = client.iter_received_packets(timeout=0)
        first = await obs(anext(last))
        lines.append("end " + first)
        left = 0
        while first != "stop" and left < len(datagrams) + 2:
            left += 1
            first = await obs(anext(last))
        lines.append(f"left {left}")


def run_rx(case: dict, proto, datagrams: list[bytes], to_send: list[Any], conv: bool, sync_tr, async_tr, res_line, exhausted,
           loop) -> list[str]:
    """one-directional endpoints over the scripted transports"""
    lines: list[str] = []
    if case["api"] == "sync-rx":
        from easynetwork.lowlevel.api_sync.endpoints.datagram import DatagramReceiverEndpoint, DatagramSenderEndpoint

        tr = sync_tr(datagrams)
        rx = DatagramReceiverEndpoint(tr, proto)
        for _ in datagrams:
            lines.append(res_line(lambda: rx.recv_packet(timeout=None)))
        tr2 = sync_tr([])
        tx = DatagramSenderEndpoint(tr2, proto)
        for p in to_send:
            before = len(tr2.sent)
            tx.send_packet(sd.Wrapped(p) if conv else p)
            lines.append(f"sent {len(tr2.sent) - before} " + " ".join(core.hexs(x) for x in tr2.sent[before:]))
        rx.close()
        tx.close()
        return lines

    from easynetwork.lowlevel.api_async.endpoints.datagram import AsyncDatagramReceiverEndpoint, AsyncDatagramSenderEndpoint

    async def main():
        tr = async_tr(datagrams)
        rx = AsyncDatagramReceiverEndpoint(tr, proto)
        for _ in datagrams:
            try:
                lines.append(sd.pkt_line(await rx.recv_packet()))
            except DatagramProtocolParseError as e:
                lines.append(err_line(e))
            except exhausted:
                lines.append("exhausted")
            except Exception as e:  # noqa: BLE001
                lines.append(f"exc {type(e).__name__}")
        tr2 = async_tr([])
        tx = AsyncDatagramSenderEndpoint(tr2, proto)
        for p in to_send:
            before = len(tr2.sent)
            await tx.send_packet(sd.Wrapped(p) if conv else p)
            lines.append(f"sent {len(tr2.sent) - before} " + " ".join(core.hexs(x) for x in tr2.sent[before:]))
        await rx.aclose()
        await tx.aclose()

    loop.run_until_complete(main())
    return lines


def oracle_meta(case: dict, real: list[str]) -> str | None:
    """the part of the oracle that is specific to the iterator entry points (the per-datagram part is the common one)"""
    k = len(case["datagrams"])
    results = [ln for ln in real if not ln.startswith(META)]
    for i, ln in enumerate(results):
        if ln == "stop":
            seen = results[:i]
            return (f"{k} datagrams were delivered to the client; its iter_received_packets(timeout={case.get('timeout')!r}) iterator "
                    f"reported the end at advance #{i} (after {seen[-3:]}) although datagram #{i} ({case['datagrams'][i][:40]}) was waiting "
                    f"in the socket: {sum(1 for x in results if x == 'stop')} datagrams gave neither a packet nor a parse error")
    end = [ln for ln in real if ln.startswith("end ")]
    if end != ["end stop"]:
        return f"after the {k} datagrams had given {k} observations the iterator did not report the end: {end} (duplicated / invented datagram?)"
    left = [ln for ln in real if ln.startswith("left ")]
    if left != ["left 0"]:
        return f"datagrams still unread in the client after {k} observations for {k} datagrams: {left}"
    return None
