"""
C04 — kind `clientlock`: `send_packet(packet, timeout=T)` of the thread-safe blocking clients (TCPNetworkClient, UDPNetworkClient)
while ANOTHER thread holds the client's send lock for d ticks: "it then returns, or fails with TimeoutError or a connection error
within its time budget" covers the time spent queueing for that lock (the documentation says so: "the lock acquisition time is
included in the timeout").

The sessions, the scripted socket / selector / lock / virtual clock, the Lean model run (`tmo` model: `clientSend`,
`udpClientSend`, theorems C11_lock_included / C11_udp_client_budget) and the budget oracle are those of C11
(vlib/c11_env.py, props/c11.py); this module only generates send-only sessions with contention and routes them.
"""
from __future__ import annotations

from vlib import c11_env as s11


def run_real(case: dict) -> list[str]:
    return s11.run_session(case)


def oracle(case: dict, real: list[str]) -> str | None:
    from props import c11

    return c11.oracle(case, real)


def model_input(case: dict, real: list[str]):
    from props import c11

    return c11.model_input(case, real)


def nontrivial(case: dict, real: list[str]) -> str | None:
    tags = set()
    for ln in real:
        if ln.startswith("lock wait"):
            tags.add("lockwait")
        elif ln.startswith("select "):
            tags.add("select")
        elif ln == "ret timeout":
            tags.add("timeout")
    return ("clientlock/" + case["cfg"]["kind"] + "/" + "+".join(sorted(tags))) if tags else None


def shrink(case: dict):
    ops = case["ops"]
    for i in range(len(ops)):
        if len(ops) > 1:
            yield {**case, "ops": ops[:i] + ops[i + 1:]}
    for i, op in enumerate(ops):
        for key in ("sock", "sel"):
            lst = op.get(key, [])
            for j in range(len(lst)):
                yield {**case, "ops": ops[:i] + [{**op, key: lst[:j] + lst[j + 1:]}] + ops[i + 1:]}


def known_key(case: dict, real: list[str], why: str) -> str:
    return f"kind=clientlock,{case['cfg']['kind']},why=" + (why.split()[0] if why else "?")


def _send_op(rng, T, d, dgram: bool, tls: bool = False) -> dict:
    blocks = rng.randint(0, 4)
    kinds = ["wantw", "wantr"] if tls else ["eagain", "eintr"]
    sock = [[rng.choice(kinds), 0, rng.choice([0, 0, 1])] for _ in range(blocks)]
    if not dgram and rng.random() < 0.5:
        sock += [["sent", 1, 0], [kinds[0], 0, 0]]
    sock += [["sent", 99, 0]] * 6
    sel = [["ready", rng.choice([0, 1, 2, 3, 5])] if rng.random() < 0.7 else ["expired", rng.choice([0, 1])] for _ in range(len(sock))]
    return {"op": "send", "T": T, "data": "6162" if dgram else bytes(rng.randrange(97, 123) for _ in range(rng.randint(1, 3))).hex(),
            "lock": ["busy", d] if d else ["free"], "sock": sock, "sel": sel}


def generate(rng, tier: str, boost: int):
    n = (250 if tier == "quick" else 4000) * boost
    for _ in range(n):
        dgram = rng.random() < 0.3
        ri = rng.choice([None, None, 1, 2, 3])
        cfg = ({"kind": "dgram", "layer": "client", "flavour": "plain", "path": "copy", "bufsize": 65536, "ri": ri} if dgram else
               {"kind": "stream", "layer": "client", "flavour": rng.choice(["plain", "plain", "tls"]), "path": "copy",
                "bufsize": 4, "ri": ri})
        ops = []
        for _ in range(rng.randint(1, 3)):
            T = rng.choice([1, 2, 3, 5, 8, 8, 0])
            d = rng.choice([0, 1, 2, 3, T, max(T - 1, 0), T + 1, 9])
            ops.append(_send_op(rng, T, d, dgram, cfg["flavour"] == "tls"))
            if rng.random() < 0.3:
                ops.append({"op": "tick", "p": rng.randint(1, 3)})
        yield {"kind": "clientlock", "cfg": cfg, "ops": ops}


def corpus() -> list[dict]:
    cs = []
    # lock held 3 of the 5 ticks, then the socket blocks until the budget is over: TimeoutError after 5 ticks, not after 8
    for kind in ("stream", "dgram"):
        cfg = {"kind": kind, "layer": "client", "flavour": "plain", "path": "copy", "bufsize": 65536 if kind == "dgram" else 4, "ri": None}
        cs.append({"kind": "clientlock", "cfg": cfg, "ops": [
            {"op": "send", "T": 5, "data": "6162", "lock": ["busy", 3], "sock": [["eagain", 0, 0]] * 4 + [["sent", 99, 0]] * 4,
             "sel": [["expired", 0]] * 6}]})
        cs.append({"kind": "clientlock", "cfg": cfg, "ops": [
            {"op": "send", "T": 5, "data": "6162", "lock": ["busy", 3], "sock": [["eagain", 0, 0], ["sent", 99, 0]] + [["sent", 99, 0]] * 4,
             "sel": [["ready", 1]] * 4}]})
    return cs
