"""
Deterministic asyncio event loop for the C10 / C20 checks.

* virtual clock: `time()` is a counter the harness advances itself (`advance`); nothing ever sleeps;
* `turn()` runs exactly one `_run_once`: (1) the handles that were already in the ready queue, in FIFO order,
  (2) the I/O callbacks of the descriptors the selector reports ready now (poll with timeout 0),
  (3) the timers now due -- this is CPython's own order, the loop code itself is not modified;
* between two turns the harness may call protocol callbacks / `task.cancel()` directly: whatever they schedule
  with `call_soon` lands in the ready queue and runs in the next turn, exactly as if the call had been made from a
  callback of the current turn.
"""
from __future__ import annotations

import asyncio
import selectors


class VLoop(asyncio.SelectorEventLoop):
    def __init__(self) -> None:
        super().__init__(selectors.SelectSelector())
        self._vnow = 0.0
        self.turns = 0
        self.unhandled: list[str] = []
        self.set_exception_handler(self._on_exc)

    def _on_exc(self, loop, context) -> None:  # never print, record
        exc = context.get("exception")
        self.unhandled.append(f"{context.get('message')}: {type(exc).__name__ if exc else ''}")

    def time(self) -> float:
        return self._vnow

    def advance(self, dt: float) -> None:
        self._vnow += dt

    def turn(self) -> None:
        """exactly one loop iteration, never blocking"""
        self.turns += 1
        self.stop()
        self.run_forever()

    def turns_until(self, pred, limit: int = 50) -> int:
        n = 0
        while not pred() and n < limit:
            self.turn()
            n += 1
        return n

    def shutdown(self) -> None:
        try:
            tasks = [t for t in asyncio.all_tasks(self) if not t.done()]
            for t in tasks:
                t.cancel()
            for _ in range(5):
                if all(t.done() for t in tasks):
                    break
                self.turn()
            for t in tasks:
                if t.done() and not t.cancelled():
                    t.exception()
        finally:
            self.close()


class StubTransport(asyncio.Transport):
    """what the protocols need from their transport when the harness itself plays the transport"""

    def __init__(self) -> None:
        super().__init__()
        self.closing = False
        self.read_paused = False
        self.calls: list[str] = []

    def get_extra_info(self, name, default=None):
        return default

    def is_closing(self) -> bool:
        return self.closing

    def close(self) -> None:
        self.closing = True

    def pause_reading(self) -> None:
        self.read_paused = True
        self.calls.append("pause_reading")

    def resume_reading(self) -> None:
        self.read_paused = False
        self.calls.append("resume_reading")

    def is_reading(self) -> bool:
        return not self.read_paused
