"""
C09 real-code runners (asynchronous side + scripted engines).  Case kinds (see props/c09.py for the case format):

  cut       a live TLS session between the REAL `AsyncTLSStreamTransport` (created with `wrap`) and an independent stdlib peer,
            the reader's inbound byte stream cut after `cut` bytes (vlib/c09_env.CutTransport); everything the reader reports is
            observed: handshake outcome, every recv()/recv_into() result up to the first error / EOF, two more calls, aclose().
            With `proxy` (default) the SSLObject the transport uses is the real one behind a transparent recording proxy
            (RecordingSSLObject): the log of its answers is what the Lean model is fed with.
  close     the same session without a cut, the operation under observation is `aclose()`; peer behaviours `responsive`,
            `silent` (never answers: shutdown timeout), `closed` (the peer's stream ended before), `dropped`.  With `reads`
            only that many receive calls are made first (`bufsize`, `method`): application data received from the peer is still
            unread at close time; `burst` / `chunks` steer what the wrapped transport delivers per read (lines `pre-plain`,
            `unread-in-bio`).
  script    a scripted engine instead of OpenSSL: a harness `ssl_context`-like object whose `wrap_bio` returns a ScriptedSSLObject,
            over a ScriptedTransport; both answer from one shared response list written in the model's own line syntax.
  syncscript  the blocking `SSLStreamTransport` over a harness context whose `wrap_socket` returns a scripted SSL socket.

observables of `cut` (lines): see props/c09.py.
"""
from __future__ import annotations

import asyncio
import math
import socket
import ssl
from typing import Any

from vlib import core
from vlib import c09_env as e9
from vlib import c15_env as env

from easynetwork.lowlevel.api_async.transports import abc as tr_abc
from easynetwork.lowlevel.api_async.transports.tls import AsyncTLSStreamTransport

PATTERN = "UNEXPECTED_EOF_WHILE_READING"


def qname(c: type) -> str:
    mod = c.__module__
    if mod == "asyncio.exceptions":
        mod = "asyncio"
    return f"{mod}.{c.__qualname__}"


def has_pat(e: BaseException) -> int:
    s = getattr(e, "strerror", None)
    return int(isinstance(s, str) and PATTERN in s)


def kind(e: BaseException) -> str:
    return type(e).__name__


# ------------------------------------------------------------------------------------------------------------------------
# recording proxy around the real SSLObject
# ------------------------------------------------------------------------------------------------------------------------

class RecordingSSLObject:
    def __init__(self, obj: ssl.SSLObject, rbio: ssl.MemoryBIO, wbio: ssl.MemoryBIO, trace: list[tuple]) -> None:
        self._o = obj
        self._r = rbio
        self._w = wbio
        self._t = trace

    def _call(self, name: str, fn, *args):
        before = self._w.pending
        reof = int(self._r.eof)
        try:
            r = fn(*args)
        except BaseException as e:  # noqa: BLE001
            out = self._w.pending - before
            self._t.append(("s", name, "raise", qname(type(e)), has_pat(e), out, reof))
            raise
        out = self._w.pending - before
        n = r if isinstance(r, int) else (len(r) if isinstance(r, (bytes, bytearray)) else 0)
        self._t.append(("s", name, "ret", n, 0, out, reof))
        return r

    def do_handshake(self):
        return self._call("do_handshake", self._o.do_handshake)

    def read(self, n: int = 1024, buffer=None):
        if buffer is None:
            return self._call("read", self._o.read, n)
        return self._call("read", self._o.read, n, buffer)

    def unwrap(self):
        return self._call("unwrap", self._o.unwrap)

    def write(self, data):
        return self._o.write(data)

    def __getattr__(self, name: str):
        return getattr(self._o, name)


class ProxyContext:
    """looks like an SSLContext to `wrap()`: only `wrap_bio` is needed"""

    def __init__(self, ctx: ssl.SSLContext, trace: list[tuple]) -> None:
        self.ctx = ctx
        self.trace = trace
        self.obj: RecordingSSLObject | None = None

    def wrap_bio(self, incoming, outgoing, server_side=False, server_hostname=None, session=None):
        o = self.ctx.wrap_bio(incoming, outgoing, server_side=server_side, server_hostname=server_hostname, session=session)
        self.obj = RecordingSSLObject(o, incoming, outgoing, self.trace)
        return self.obj


class TracedCut(e9.CutTransport):
    """CutTransport that also appends (t, call, result) tuples to the shared trace"""

    def __init__(self, *a, trace: list[tuple], **kw) -> None:
        super().__init__(*a, **kw)
        self.trace = trace

    async def send_all(self, data) -> None:
        n = len(bytes(data))
        try:
            await super().send_all(data)
        except asyncio.CancelledError:
            self.trace.append(("t", "send", n, "cancel"))
            raise
        except OSError as e:
            self.trace.append(("t", "send", n, "raise", qname(type(e))))
            raise
        self.trace.append(("t", "send", n, "ok"))

    async def recv_into(self, buffer) -> int:
        try:
            n = await super().recv_into(buffer)
        except asyncio.CancelledError:
            self.trace.append(("t", "recv", "cancel"))
            raise
        except OSError as e:
            self.trace.append(("t", "recv", "raise", qname(type(e))))
            raise
        self.trace.append(("t", "recv", n))
        return n

    async def aclose(self) -> None:
        self.trace.append(("t", "aclose", "begin"))
        try:
            await super().aclose()
        except asyncio.CancelledError:
            self.trace.append(("t", "aclose", "cancel"))
            raise
        self.trace.append(("t", "aclose", "ok"))


# ------------------------------------------------------------------------------------------------------------------------
# trace -> line protocol
# ------------------------------------------------------------------------------------------------------------------------

SSL_NAME = {"do_handshake": "do_handshake", "read": "read", "unwrap": "unwrap"}


def trace_lines(ops: list[tuple[str, list[tuple], str, bool]]) -> tuple[list[str], list[str], list[str]]:
    """ops: [(op name, trace segment, result line, timed_out)] -> (model ops, real lines for the diff, problems)
    A wrapped-transport call that was cut short by the enclosing scope's deadline (no completion record although the operation
    went on) is a `t timeout` response; `aclose` calls that were begun inside an expired scope are `call t.aclose_forcefully`."""
    model: list[str] = []
    real: list[str] = []
    problems: list[str] = []
    # what sits in the outgoing BIO survives the end of an API call (no flush after a read: e.g. the alert OpenSSL writes
    # when `read` meets the ragged EOF is sent by the NEXT operation that flushes — aclose())
    pend_alert = 0
    pend = 0
    for name, seg, res, _ in ops:
        model.append("op " + name)
        real.append("op " + name)
        i = 0
        while i < len(seg):
            ev = seg[i]
            if ev[0] == "s":
                _, meth, how, a, pat, out, _reof = ev
                alert = int(meth == "unwrap" and out > 0)
                if out > 0:
                    pend_alert = alert
                    pend += out
                real.append("call ssl." + SSL_NAME[meth])
                if how == "ret":
                    model.append(f"s ret {a} {out} {alert}")
                else:
                    model.append(f"s raise {a} {pat} {out} {alert}")
            elif ev[1] == "send":
                n = ev[2]
                real.append(f"call t.send {n} {pend_alert}")
                if n != pend:
                    problems.append(f"send of {n} bytes although {pend} were produced")
                pend = 0
                pend_alert = 0
                model.append({"ok": "t ok", "cancel": "t cancel", "timeout": "t timeout"}.get(ev[3]) or f"t raise {ev[4]}")
            elif ev[1] == "recv":
                real.append("call t.recv_into")
                r = ev[2]
                if r == "cancel":
                    model.append("t cancel")
                elif r == "timeout":
                    model.append("t timeout")
                elif r == "raise":
                    model.append(f"t raise {ev[3]}")
                elif r == 0:
                    model.append("t eof")
                else:
                    model.append(f"t n {r}")
            elif ev[1] == "aclose":
                if ev[2] == "begin":
                    forced = ev[3] if len(ev) > 3 else False
                    real.append("call t.aclose_forcefully" if forced else "call t.aclose")
                    if not forced:
                        # the completion record follows (ok / cancel)
                        nxt = seg[i + 1] if i + 1 < len(seg) else None
                        if nxt is not None and nxt[:2] == ("t", "aclose") and nxt[2] in ("ok", "cancel"):
                            model.append("t ok" if nxt[2] == "ok" else "t cancel")
                            i += 1
                        else:
                            model.append("t cancel")
                    else:
                        nxt = seg[i + 1] if i + 1 < len(seg) else None
                        if nxt is not None and nxt[:2] == ("t", "aclose") and nxt[2] in ("ok", "cancel"):
                            i += 1
            i += 1
        if name == "wrap" and res == "res ok":
            real.append("call ssl.getpeercert")
        real.append(res)
    return model, real, problems


def res_of(exc: BaseException | None, value: Any = None, *, is_recv: bool = False) -> str:
    if exc is None:
        if is_recv:
            n = value if isinstance(value, int) else len(value)
            return "res eof" if n == 0 else f"res data {n}"
        return "res ok"
    if isinstance(exc, asyncio.CancelledError):
        return "res cancelled"
    return "res exc " + qname(type(exc))


# ------------------------------------------------------------------------------------------------------------------------
# cut / close sessions
# ------------------------------------------------------------------------------------------------------------------------

def _ctx_kwargs(role: str) -> dict[str, Any]:
    return {"server_hostname": "localhost"} if role == "client" else {"server_side": True}


def run_session(case: dict) -> tuple[list[str], dict[str, Any]]:
    role, tls, recs = case["role"], case["tls"], list(case["recs"])
    cut = case.get("cut")
    sc = bool(case.get("sc", True))
    is_close = case["kind"] == "close"
    peer_mode = case.get("peer", "responsive")
    notify = bool(case.get("notify", True)) if not is_close else (peer_mode == "closed")
    peer = e9.Peer("server" if role == "client" else "client", tls, recs, notify,
                   reply_close=not (is_close and peer_mode == "dropped"))
    trace: list[tuple] = []
    t = TracedCut(peer, cut, int(case.get("frag", 0)), max_frag=int(case.get("max_frag", 4096)), trace=trace,
                  eof_after_peer=not is_close or peer_mode in ("closed", "dropped"),
                  burst=bool(case.get("burst", False)), chunks=case.get("chunks"))
    lines: list[str] = []
    ops: list[tuple[str, list[tuple], str, bool]] = []
    plain = bytearray()
    real_ctx = e9.make_context(role, tls, ignore_eof=bool(case.get("ignore_eof", False)))
    use_proxy = bool(case.get("proxy", True))
    ctx: Any = ProxyContext(real_ctx, trace) if use_proxy else real_ctx
    shutdown_timeout = float(case.get("shutdown_timeout", 30))

    def seg_from(i0: int) -> list[tuple]:
        return list(trace[i0:])

    async def main() -> None:
        i0 = len(trace)
        try:
            tls_tr = await AsyncTLSStreamTransport.wrap(t, ctx, standard_compatible=sc, handshake_timeout=60.0,
                                                        shutdown_timeout=shutdown_timeout, **_ctx_kwargs(role))
        except Exception as e:  # noqa: BLE001
            lines.append("hs exc:" + kind(e))
            _mark_forced(trace, i0)
            ops.append(("wrap", seg_from(i0), res_of(e), False))
            lines.append(f"inner-closed {int(t.closed)}")
            return
        lines.append("hs ok")
        ops.append(("wrap", seg_from(i0), "res ok", False))
        method = case.get("method", "recv")
        bufsize = int(case.get("bufsize", 4096))
        if not is_close:
            term = 0
            for _ in range(100000):
                if term >= 3:
                    break
                i0 = len(trace)
                try:
                    if method == "recv_into":
                        buf = bytearray(bufsize)
                        n = await tls_tr.recv_into(buf)
                        d = bytes(buf[:n])
                    else:
                        d = await tls_tr.recv(bufsize)
                except Exception as e:  # noqa: BLE001
                    lines.append("r exc:" + kind(e))
                    ops.append((method, seg_from(i0), res_of(e), False))
                    term += 1
                    continue
                ops.append((method, seg_from(i0), res_of(None, d, is_recv=True), False))
                if d:
                    if term:
                        lines.append(f"r late-data {len(d)}")
                        term += 1
                    else:
                        plain.extend(d)
                        lines.append(f"r data {len(d)}")
                else:
                    lines.append("r eof")
                    term += 1
            lines.append("plain " + core.hexs(bytes(plain)))
        else:
            # read what the peer sent first (if anything), so that the close starts from a quiet connection — or, with `reads`,
            # make only that many receive calls (of `bufsize` bytes): application data received from the peer is still UNREAD
            # (in the incoming BIO, inside the SSL object, or in flight) when aclose() is called
            reads = case.get("reads")
            n_reads = (len(recs) if recs else 0) if reads is None else int(reads)
            rsize = int(case.get("bufsize", 65536)) if reads is not None else 65536
            rmeth = method if reads is not None else "recv"
            for _ in range(n_reads):
                i0 = len(trace)
                try:
                    if rmeth == "recv_into":
                        buf = bytearray(rsize)
                        nb = await tls_tr.recv_into(buf)
                        d = bytes(buf[:nb])
                    else:
                        d = await tls_tr.recv(rsize)
                except Exception as e:  # noqa: BLE001
                    ops.append((rmeth, seg_from(i0), res_of(e), False))
                    lines.append("pre exc:" + kind(e))
                    break
                ops.append((rmeth, seg_from(i0), res_of(None, d, is_recv=True), False))
                plain.extend(d)
            if reads is not None:
                lines.append("pre-plain " + core.hexs(bytes(plain)))
                rb = getattr(tls_tr, "_read_bio", None)
                lines.append(f"unread-in-bio {getattr(rb, 'pending', '?')}")
            if peer_mode == "silent":
                peer.silent = True
            if peer_mode == "closed" and case.get("pre_eof", True):
                # let the reader notice the end of the peer's stream before it closes
                i0 = len(trace)
                try:
                    d = await tls_tr.recv(65536)
                    ops.append(("recv", seg_from(i0), res_of(None, d, is_recv=True), False))
                    lines.append("pre " + ("eof" if not d else f"data {len(d)}"))
                except Exception as e:  # noqa: BLE001
                    ops.append(("recv", seg_from(i0), res_of(e), False))
                    lines.append("pre exc:" + kind(e))
        i0 = len(trace)
        sent0 = len(t.sent)
        t0 = asyncio.get_running_loop().time()
        try:
            await tls_tr.aclose()
            lines.append("close ok")
            res = "res ok"
        except Exception as e:  # noqa: BLE001
            lines.append("close exc:" + kind(e))
            res = res_of(e)
        dt = asyncio.get_running_loop().time() - t0
        timed_out = dt >= shutdown_timeout
        _mark_forced(trace, i0, timed_out=timed_out)
        ops.append(("aclose", seg_from(i0), res, timed_out))
        lines.append(f"close-waited {'timeout' if timed_out else '0' if dt == 0 else 'some'}")
        lines.append(f"inner-closed {int(t.closed)}")
        lines.append(f"closing {int(tls_tr.is_closing())}")
        emitted = bytes(t.sent[sent0:])
        recs_out = e9.parse_records(emitted)
        lines.append("close-emitted " + (" ".join(f"{ty}:{e - s}" for ty, s, e in recs_out) or "-")
                     + (" ragged-tail" if recs_out and recs_out[-1][2] != len(emitted) else ""))
        # order of the calls on the wrapped transport during the close
        order = [("send" if ev[1] == "send" else "aclose") for ev in trace[i0:] if ev[0] == "t" and (ev[1] == "send" or
                 (ev[1] == "aclose" and ev[2] == "begin"))]
        lines.append("close-order " + (" ".join(order) or "-"))
        # second close returns
        try:
            await tls_tr.aclose()
            lines.append("second ok")
        except Exception as e:  # noqa: BLE001
            lines.append("second exc:" + kind(e))

    try:
        out, loop = env.run(main, max_turns=int(case.get("max_turns", 40000)))
    except env.Stuck as e:
        lines.append("hang " + str(e))
        out = ("ok", None)
    if out[0] == "exc":
        lines.append("main-exc " + kind(out[1]))
    # the peer's view (a silent peer looks at what arrived only now)
    if is_close and peer_mode == "silent":
        peer.silent = False
    peer.pump()
    peer.read_reader()
    lines.append("peer " + (",".join(peer.got) or "-"))
    lines.append("tls " + (tls))
    m = peer.marks()
    lines.append(f"marks hs_end={m['hs_end']} cn_start={m['cn_start']} cn_end={m['cn_end']} total={m['total']} delivered={t.delivered}")
    mo, rl, problems = trace_lines(ops)
    laws = check_laws(trace, peer, t) if use_proxy and not case.get("ignore_eof") else []
    if not use_proxy:
        problems = []
    aux = {"model_ops": mo, "real_trace": rl, "trace_problems": problems, "laws": laws,
           "lens": [(ty, e - s) for ty, s, e in m["records"]], "proxy": use_proxy}
    return lines, aux


def _mark_forced(trace: list[tuple], i0: int, *, timed_out: bool = False) -> None:
    """annotate the trace segment of a wrap()/aclose(): an `aclose` of the wrapped transport that was cancelled at its first
    suspension is the `aclose_forcefully` call; a wrapped-transport call cancelled by the shutdown deadline is a `timeout`"""
    for i in range(i0, len(trace)):
        ev = trace[i]
        if ev[:3] == ("t", "aclose", "begin"):
            nxt = trace[i + 1] if i + 1 < len(trace) else None
            forced = nxt is not None and nxt[:3] == ("t", "aclose", "cancel")
            trace[i] = ("t", "aclose", "begin", forced)
        elif timed_out and ev[0] == "t" and ev[-1] == "cancel" and ev[1] in ("send", "recv"):
            trace[i] = ev[:-1] + ("timeout",)


def check_laws(trace: list[tuple], peer: e9.Peer, t: e9.CutTransport) -> list[str]:
    """TlsEofLaws on the recorded trace (assumption validation).  Returns violations."""
    bad: list[str] = []
    fed = 0
    need = peer.cn_end
    reof_seen = False
    unwrap_calls = 0
    for ev in trace:
        if ev[0] == "t":
            if ev[1] == "recv" and isinstance(ev[2], int):
                fed += ev[2]
            continue
        _, meth, how, a, pat, out, reof = ev
        clean = (how == "ret" and a == 0 and meth == "read") or (how == "raise" and a == "ssl.SSLZeroReturnError")
        if clean and (need is None or fed < need):
            bad.append(f"LawClean: {meth} answered a clean end-of-stream after {fed} bytes, close_notify ends at {need}")
        if reof:
            reof_seen = True
        if meth == "read" and reof and (need is None or fed < need):
            if how == "raise" and a == "ssl.SSLWantReadError":
                bad.append("Ragged: WANT_READ although the read BIO is at EOF")
            if how == "raise" and not (a == "ssl.SSLEOFError" or (a == "ssl.SSLError" and pat)):
                bad.append(f"Ragged: read raised {a} instead of the EOF error after a truncation")
        if meth == "unwrap":
            unwrap_calls += 1
            if unwrap_calls == 1 and out <= 0 and not (how == "raise" and a not in ("ssl.SSLWantReadError", "ssl.SSLWantWriteError")):
                bad.append("UnwrapLaw: the first unwrap() wrote nothing to the outgoing BIO")
    return bad


# ------------------------------------------------------------------------------------------------------------------------
# scripted engine
# ------------------------------------------------------------------------------------------------------------------------

class Desync(BaseException):
    pass


def _exc_class(q: str) -> type:
    mod, _, name = q.rpartition(".")
    if mod == "ssl":
        return getattr(ssl, name)
    if mod == "asyncio":
        return getattr(asyncio, name)
    import builtins
    return getattr(builtins, name)


def _make_exc(q: str, pat: int) -> BaseException:
    c = _exc_class(q)
    if issubclass(c, OSError):
        msg = ("[SSL: UNEXPECTED_EOF_WHILE_READING] EOF occurred in violation of protocol (_ssl.c:0)" if pat
               else "scripted error (_ssl.c:0)")
        return c(8 if c is ssl.SSLEOFError else 5, msg)
    return c("scripted")


class Script:
    def __init__(self, lines: list[str]) -> None:
        self.q = list(lines)
        self.calls: list[str] = []
        self.pend_alert = 0

    def pop(self, who: str) -> list[str]:
        if not self.q or not self.q[0].startswith(who + " "):
            raise Desync()
        return self.q.pop(0).split()


class ScriptedSSLObject:
    def __init__(self, script: Script, rbio, wbio) -> None:
        self.s = script
        self.r = rbio
        self.w = wbio
        self.context = None

    def _do(self, meth: str, buffer=None):
        self.s.calls.append("call ssl." + meth)
        tok = self.s.pop("s")
        if tok[1] == "ret":
            n, out, alert = int(tok[2]), int(tok[3]), int(tok[4])
        else:
            out, alert = int(tok[4]), int(tok[5])
        if out:
            self.w.write(b"\x15" * out if alert else b"\x17" * out)
            self.s.pend_alert = alert
        if tok[1] == "ret":
            if meth != "read":
                return None
            if buffer is not None:
                with memoryview(buffer) as mv:
                    mv[:n] = b"d" * n
                return n
            return b"d" * n
        raise _make_exc(tok[2], int(tok[3]))

    def do_handshake(self):
        return self._do("do_handshake")

    def read(self, n=1024, buffer=None):
        return self._do("read", buffer)

    def unwrap(self):
        return self._do("unwrap")

    def write(self, data):
        return len(data)

    def getpeercert(self, binary_form=False):
        self.s.calls.append("call ssl.getpeercert")
        return {}

    def cipher(self):
        return None

    def compression(self):
        return None

    def version(self):
        return None


class ScriptedContext:
    def __init__(self, script: Script) -> None:
        self.script = script

    def wrap_bio(self, incoming, outgoing, server_side=False, server_hostname=None, session=None):
        return ScriptedSSLObject(self.script, incoming, outgoing)


class ScriptedTransport(tr_abc.AsyncStreamTransport):
    def __init__(self, script: Script, inner_closing: bool = False) -> None:
        super().__init__()
        self.s = script
        self._be = env.backend()
        self.closing = inner_closing
        self.closed = False
        self.forced = 0

    def backend(self):
        return self._be

    def is_closing(self) -> bool:
        return self.closing

    @property
    def extra_attributes(self):
        return {}

    async def _answer(self, tok: list[str]):
        if tok[1] == "cancel":
            task = asyncio.current_task()
            asyncio.get_running_loop().call_soon(task.cancel)
            await asyncio.get_running_loop().create_future()
        if tok[1] == "timeout":
            await asyncio.get_running_loop().create_future()      # parks until the enclosing scope's deadline
        if tok[1] == "raise":
            await asyncio.sleep(0)
            raise _make_exc(tok[2], 0)
        await asyncio.sleep(0)

    async def send_all(self, data) -> None:
        n = len(bytes(data))
        self.s.calls.append(f"call t.send {n} {self.s.pend_alert}")
        self.s.pend_alert = 0
        tok = self.s.pop("t")
        if tok[1] not in ("ok", "raise", "cancel", "timeout"):
            raise Desync()
        await self._answer(tok)

    async def recv_into(self, buffer) -> int:
        self.s.calls.append("call t.recv_into")
        tok = self.s.pop("t")
        if tok[1] == "n":
            k = int(tok[2])
            with memoryview(buffer) as mv:
                mv[:k] = b"c" * k
            await asyncio.sleep(0)
            return k
        if tok[1] == "eof":
            await asyncio.sleep(0)
            return 0
        if tok[1] == "ok":
            raise Desync()
        await self._answer(tok)
        raise Desync()

    async def recv(self, bufsize: int) -> bytes:
        buf = bytearray(bufsize)
        n = await self.recv_into(buf)
        return bytes(buf[:n])

    async def send_eof(self) -> None:
        raise Desync()

    async def aclose(self) -> None:
        # contract: marks closing before the first suspension.  Inside an expired scope (aclose_forcefully) the first
        # suspension is cancelled by the scope: no response is consumed.
        self.closing = True
        self.closed = True
        forced = _is_forcefully()
        if forced:
            self.s.calls.append("call t.aclose_forcefully")
            self.forced += 1
            await asyncio.sleep(0)
            return
        self.s.calls.append("call t.aclose")
        tok = self.s.pop("t")
        if tok[1] not in ("ok", "raise", "cancel", "timeout"):
            raise Desync()
        await self._answer(tok)


def _is_forcefully() -> bool:
    """is the running coroutine awaited (directly or not) by `aclose_forcefully`?"""
    import sys
    f = sys._getframe(1)
    for _ in range(8):
        if f is None:
            return False
        if f.f_code.co_name == "aclose_forcefully":
            return True
        f = f.f_back
    return False


def run_script(case: dict) -> tuple[list[str], dict[str, Any]]:
    """case["lines"] = the model's own op list: `op …` lines each followed by the responses"""
    sc = bool(case.get("sc", True))
    all_lines: list[str] = list(case["lines"])
    # split per op
    ops: list[tuple[str, list[str]]] = []
    for ln in all_lines:
        if ln.startswith("op "):
            ops.append((ln, []))
        elif ops:
            ops[-1][1].append(ln)
    out: list[str] = []
    script = Script([])
    tr = ScriptedTransport(script, bool(case.get("inner_closing", False)))
    box: dict[str, Any] = {}

    async def one(op: str, resp: list[str]) -> bool:
        script.q = list(resp)
        script.calls = []
        name = op.split()[1]
        res: str
        try:
            if name == "wrap":
                box["tls"] = await AsyncTLSStreamTransport.wrap(tr, ScriptedContext(script), standard_compatible=sc,  # type: ignore[arg-type]
                                                                server_hostname="localhost", handshake_timeout=50.0,
                                                                shutdown_timeout=20.0)
                res = "res ok"
            elif name in ("recv", "recv_into"):
                if name == "recv":
                    d = await box["tls"].recv(64)
                else:
                    buf = bytearray(64)
                    d = await box["tls"].recv_into(buf)
                res = res_of(None, d, is_recv=True)
            elif name == "aclose":
                await box["tls"].aclose()
                res = "res ok"
            else:
                out.append("bad-op")
                return False
        except Desync:
            out.extend([op, "desync"])
            return False
        except asyncio.CancelledError:
            res = "res cancelled"
        except Exception as e:  # noqa: BLE001
            res = "res exc " + qname(type(e))
        out.append(op)
        out.extend(script.calls)
        out.append(res)
        if script.q:
            out.append(f"unused {len(script.q)}")
        return True

    async def main() -> None:
        for op, resp in ops:
            task = asyncio.ensure_future(one(op, resp))
            try:
                ok = await task
            except asyncio.CancelledError:
                ok = True
            if not ok:
                break
        out.append(f"inner-closed {int(tr.closed)}")

    try:
        o, loop = env.run(main, max_turns=20000)
        if o[0] == "exc":
            out.append("main-exc " + kind(o[1]))
    except env.Stuck as e:
        out.append("hang " + str(e))
    return out, {}


# ------------------------------------------------------------------------------------------------------------------------
# scripted SSL socket for the blocking transport
# ------------------------------------------------------------------------------------------------------------------------

class FakeSSLSocket:
    """what `ssl_context.wrap_socket()` returned: scripted recv / recv_into / unwrap on top of a real socket's descriptor"""

    def __init__(self, sock: socket.socket, answers: list[list[str]], kwargs: dict) -> None:
        self._sock = sock
        self.answers = answers
        self.kwargs = kwargs
        self.calls: list[str] = []
        self.family = sock.family
        self.type = sock.type
        self.closed = False

    def _next(self):
        if not self.answers:
            raise Desync()
        tok = self.answers.pop(0)
        if tok[0] == "ret":
            return int(tok[1])
        if tok[0] == "ok":
            return None
        raise _make_exc(tok[1], int(tok[2]) if len(tok) > 2 else 0)

    def setblocking(self, flag) -> None:
        self._sock.setblocking(flag)

    def do_handshake(self) -> None:
        return None

    def fileno(self) -> int:
        return -1 if self.closed else self._sock.fileno()

    def recv(self, n, flags=0):
        self.calls.append("recv")
        k = self._next()
        return b"d" * k

    def recv_into(self, buffer, nbytes=None, flags=0):
        self.calls.append("recv_into")
        k = self._next()
        with memoryview(buffer) as mv:
            mv[:k] = b"d" * k
        return k

    def unwrap(self):
        self.calls.append("unwrap")
        self._next()
        return self._sock

    def shutdown(self, how) -> None:
        self.calls.append("shutdown")

    def close(self) -> None:
        self.calls.append("closeSocket")
        self.closed = True

    def getsockname(self):
        return self._sock.getsockname()

    def getpeername(self):
        return self._sock.getpeername()

    def getpeercert(self, binary_form=False):
        return {}

    def cipher(self):
        return None

    def compression(self):
        return None

    def version(self):
        return None

    context = None


class FakeSockContext:
    def __init__(self) -> None:
        self.kwargs: dict = {}
        self.sock: FakeSSLSocket | None = None
        self.answers: list[list[str]] = []

    def wrap_socket(self, sock, **kw):
        self.kwargs = dict(kw)
        self.sock = FakeSSLSocket(sock, self.answers, kw)
        return self.sock


def run_syncscript(case: dict) -> tuple[list[str], dict[str, Any]]:
    """ops as for the driver's `sync` model: `suppress`, `recv <which> ret n`, `recv <which> raise <cls> <pat>`,
    `close <open> <answers…>`.  One fresh transport per op."""
    from easynetwork.lowlevel.api_sync.transports import base_selector
    from easynetwork.lowlevel.api_sync.transports.socket import SSLStreamTransport

    sc = bool(case.get("sc", True))
    out: list[str] = []
    for op in case["ops"]:
        tok = op.split()
        a, b = socket.socketpair()
        ctx = FakeSockContext()
        try:
            tr = SSLStreamTransport(a, ctx, math.inf, standard_compatible=sc, server_hostname="localhost")  # type: ignore[arg-type]
            fs = ctx.sock
            assert fs is not None
            if tok[0] == "suppress":
                v = ctx.kwargs.get("suppress_ragged_eofs", True)
                out.append(f"suppress {int(bool(v))}")
            elif tok[0] == "recv":
                # the stdlib layer (SSLSocket.read) is part of the model: apply it to the scripted OpenSSL answer here
                suppress = bool(ctx.kwargs.get("suppress_ragged_eofs", True))
                if tok[2] == "ret":
                    ctx.answers.append(["ret", tok[3]])
                else:
                    cls = _exc_class(tok[3])
                    if suppress and issubclass(cls, ssl.SSLEOFError):
                        ctx.answers.append(["ret", "0"])
                    else:
                        ctx.answers.append(["raise", tok[3], tok[4]])
                try:
                    if tok[1] == "recv":
                        d = tr.recv_noblock(64)
                    else:
                        buf = bytearray(64)
                        d = tr.recv_noblock_into(buf)
                    n = d if isinstance(d, int) else len(d)
                    out.append("out eof" if n == 0 else f"out data {n}")
                except base_selector.WouldBlockOnRead:
                    out.append("out wbr")
                except base_selector.WouldBlockOnWrite:
                    out.append("out wbw")
                except Exception as e:  # noqa: BLE001
                    out.append("out exc " + qname(type(e)))
            elif tok[0] == "close":
                open_ = tok[1] == "1"
                timeout_at = None
                for i, x in enumerate(tok[2:]):
                    if x == "ok":
                        ctx.answers.append(["ok"])
                    elif x == "timeout":
                        timeout_at = i
                        break
                    else:
                        ctx.answers.append(["raise", x.split(":", 1)[1], "0"])
                if timeout_at is not None:
                    # the attempt before must have been a would-block: let the wait time out (shutdown_timeout 0 -> immediate)
                    tr._SSLStreamTransport__ssl_shutdown_timeout = 0.0   # type: ignore[attr-defined]
                if not open_:
                    fs.closed = True
                else:
                    b.send(b"x")          # the descriptor is readable / writable: a would-block retries at once
                prop = "none"
                try:
                    tr.close()
                except Desync:
                    prop = "desync"
                except Exception as e:  # noqa: BLE001
                    prop = qname(type(e))
                calls = [c for c in fs.calls if c in ("unwrap", "closeSocket")]
                out.append("calls " + " ".join(calls))
                out.append("prop " + prop)
            else:
                out.append("bad-op")
        finally:
            for s in (a, b):
                try:
                    s.close()
                except OSError:
                    pass
    return out, {}
