"""
C08, blocking variant: the real SSLStreamTransport over a socketpair; a relay thread re-fragments the ciphertext in both
directions; the peer is a stdlib ssl.SSLSocket driven by a single-threaded non-blocking loop (reads and writes whenever it
can, so both directions are active while the transport under test sends).  Inputs / outputs only are judged:

    a2b written=<len:adler> received=<len:adler>       b2a …       viol <text>  (what the oracle reports)

Real threads and sockets: every wait is bounded by a generous deadline; hitting it is an INFRASTRUCTURE error (after one
retry), never a verdict.
"""
from __future__ import annotations

import select
import socket
import ssl
import threading
import time
from typing import Any

from vlib import core
from vlib import c08_run as R
from vlib.c08_env import fmt

from easynetwork.lowlevel.api_sync.transports.socket import SSLStreamTransport

DEADLINE = 60.0


class _Relay(threading.Thread):
    def __init__(self, x: socket.socket, y: socket.socket, frag: int, stop: threading.Event) -> None:
        super().__init__(daemon=True)
        self.x, self.y, self.frag, self.stop_ev = x, y, frag, stop
        self.seen: dict[int, bytearray] = {0: bytearray(), 1: bytearray()}     # 0: x->y (from the transport under test)

    def run(self) -> None:
        socks = [self.x, self.y]
        open_ = [True, True]
        try:
            while not self.stop_ev.is_set() and any(open_):
                r, _, _ = select.select([s for s, o in zip(socks, open_) if o], [], [], 0.05)
                for s in r:
                    i = socks.index(s)
                    try:
                        d = s.recv(self.frag)
                    except OSError:
                        d = b""
                    if not d:
                        open_[i] = False
                        try:
                            socks[1 - i].shutdown(socket.SHUT_WR)
                        except OSError:
                            pass
                        continue
                    self.seen[i] += d
                    try:
                        socks[1 - i].sendall(d)
                    except OSError:
                        open_[i] = False
        finally:
            for s in socks:
                try:
                    s.close()
                except OSError:
                    pass


class _Peer(threading.Thread):
    def __init__(self, sock: socket.socket, ctx: ssl.SSLContext, server_side: bool, to_send: bytes, expect: int,
                 stop: threading.Event) -> None:
        super().__init__(daemon=True)
        self.sock, self.ctx, self.server_side = sock, ctx, server_side
        self.to_send, self.expect, self.stop_ev = to_send, expect, stop
        self.received = bytearray()
        self.error: str | None = None
        self.done = threading.Event()

    def run(self) -> None:
        try:
            s = self.ctx.wrap_socket(self.sock, server_side=self.server_side, do_handshake_on_connect=False,
                                     server_hostname=None if self.server_side else "localhost")
            s.settimeout(DEADLINE)
            s.do_handshake()
            s.setblocking(False)
            view = memoryview(self.to_send)
            while not self.stop_ev.is_set() and (len(view) or len(self.received) < self.expect):
                progressed = False
                if len(self.received) < self.expect:
                    try:
                        d = s.recv(65536)
                        if not d:
                            break
                        self.received += d
                        progressed = True
                    except (ssl.SSLWantReadError, ssl.SSLWantWriteError, BlockingIOError):
                        pass
                if len(view):
                    try:
                        n = s.send(view[:16384])
                        view = view[n:]
                        progressed = True
                    except (ssl.SSLWantReadError, ssl.SSLWantWriteError, BlockingIOError):
                        pass
                if not progressed:
                    select.select([s], [s] if len(view) else [], [], 0.02)
            self.ssl_sock = s
        except Exception as e:  # noqa: BLE001
            self.error = f"{type(e).__name__}: {e}"
        finally:
            self.done.set()


def _once(case: dict) -> tuple[list[str], bool]:
    seed = case["seed"]
    a_server = case.get("role", "client") == "server"
    pa = R.plaintext(seed, "blk-a2b", sum(case["a2b"]))
    pb = R.plaintext(seed, "blk-b2a", sum(case["b2a"]))
    a_sock, r1 = socket.socketpair()
    r2, b_sock = socket.socketpair()
    stop = threading.Event()
    relay = _Relay(r1, r2, case.get("frag", 4096), stop)
    peer = _Peer(b_sock, R.client_ctx("1.3") if a_server else R.server_ctx("1.3", 0), not a_server, pb, len(pa), stop)
    relay.start()
    peer.start()
    lines: list[str] = []
    received = bytearray()
    timed_out = False
    tr: Any = None
    t_end = time.monotonic() + DEADLINE
    try:
        try:
            tr = SSLStreamTransport(a_sock, R.server_ctx("1.3", 0) if a_server else R.client_ctx("1.3"), 0.5,
                                    server_side=a_server, server_hostname=None if a_server else "localhost",
                                    handshake_timeout=DEADLINE, shutdown_timeout=1.0)
        except TimeoutError:
            timed_out = True
            return lines, True
        except Exception as e:  # noqa: BLE001
            lines.append(f"viol the handshake failed: {type(e).__name__}: {e}")
            a_sock.close()
            return lines, False
        pos = 0
        rsz = case.get("recv", 16384)
        for n in case["a2b"]:
            chunk = pa[pos:pos + n]
            pos += n
            try:
                if case.get("iter"):
                    k = max(1, len(chunk) // 3)
                    tr.send_all_from_iterable([chunk[:k], b"", chunk[k:2 * k], chunk[2 * k:]], DEADLINE)
                else:
                    tr.send_all(chunk, DEADLINE)
            except TimeoutError:
                return lines, True
            except Exception as e:  # noqa: BLE001
                lines.append(f"viol send failed: {type(e).__name__}: {e}")
                return lines, False
            # both directions: take whatever the peer has sent meanwhile
            if len(received) < len(pb):
                try:
                    d = tr.recv(rsz, 0)
                    received += d
                except TimeoutError:
                    pass
                except Exception as e:  # noqa: BLE001
                    lines.append(f"viol recv failed: {type(e).__name__}: {e}")
                    return lines, False
        while len(received) < len(pb):
            left = t_end - time.monotonic()
            if left <= 0:
                return lines, True
            try:
                d = tr.recv(rsz, left)
            except TimeoutError:
                return lines, True
            except Exception as e:  # noqa: BLE001
                lines.append(f"viol recv failed: {type(e).__name__}: {e}")
                return lines, False
            if not d:
                break
            received += d
        if not peer.done.wait(max(t_end - time.monotonic(), 0.1)):
            # the peer is still waiting for plaintext that never arrives, although every send call returned
            if len(peer.received) < len(pa) and time.monotonic() >= t_end:
                timed_out = True
        return lines, timed_out
    finally:
        if not timed_out:
            lines.append(f"a2b written={fmt(pa)} received={fmt(bytes(peer.received))}")
            lines.append(f"b2a written={fmt(pb)} received={fmt(bytes(received))}")
            if peer.error:
                lines.append(f"viol peer: {peer.error}")
            elif bytes(peer.received) != pa:
                lines.append(f"viol plaintext read by the peer ({len(peer.received)} bytes) != plaintext written ({len(pa)} bytes)")
            if bytes(received) != pb and not any(ln.startswith("viol") for ln in lines):
                lines.append(f"viol plaintext read from the transport ({len(received)} bytes) != plaintext written by the peer ({len(pb)} bytes)")
            wire = bytes(relay.seen[0])
            for s in range(0, max(len(pa) - 7, 0), 256):
                if pa[s:s + 8] in wire:
                    lines.append(f"viol plaintext occurs verbatim on the wire (offset {s})")
                    break
        if tr is not None and not timed_out:
            try:
                lines.extend(decision_table(tr))
            except Exception as e:  # noqa: BLE001
                lines.append(f"viol decision table probe failed: {type(e).__name__}: {e}")
        stop.set()
        try:
            if tr is not None:
                tr.close()
            else:
                a_sock.close()
        except Exception:  # noqa: BLE001
            pass
        peer.join(2.0)
        relay.join(2.0)
        for s in (b_sock,):
            try:
                s.close()
            except OSError:
                pass


class _RaisingSocket:
    """stands in for the SSLSocket of a finished session: recv_into / send raise the scripted ssl exception"""

    def __init__(self, real, exc: BaseException) -> None:
        self._real, self._exc = real, exc

    def fileno(self) -> int:
        return self._real.fileno()

    def recv(self, *a):
        raise self._exc

    def recv_into(self, *a):
        raise self._exc

    def send(self, *a):
        raise self._exc


_EXC = {"wantr": lambda: ssl.SSLWantReadError(ssl.SSL_ERROR_WANT_READ, "want read"),
        "wantw": lambda: ssl.SSLWantWriteError(ssl.SSL_ERROR_WANT_WRITE, "want write"),
        "sysc": lambda: ssl.SSLSyscallError(ssl.SSL_ERROR_SYSCALL, "syscall"),
        "zeroret": lambda: ssl.SSLZeroReturnError(ssl.SSL_ERROR_ZERO_RETURN, "closed"),
        "reset": lambda: ConnectionResetError(104, "reset")}


def decision_table(tr) -> list[str]:
    """the real recv_noblock / send_noblock (+ _try_ssl_method) with each ssl exception injected below them"""
    import errno as _errno

    from easynetwork.lowlevel.api_sync.transports import base_selector as bs

    attr = "_SSLStreamTransport__socket"
    real = getattr(tr, attr)
    lines = []
    try:
        for what in ("recv", "send"):
            for name, mk in _EXC.items():
                setattr(tr, attr, _RaisingSocket(real, mk()))
                try:
                    res = tr.recv_noblock(8) if what == "recv" else tr.send_noblock(b"x")
                    out = f"got {core.hexs(res)}" if what == "recv" else f"ok {res}"
                except bs.WouldBlockOnRead:
                    out = "block R"
                except bs.WouldBlockOnWrite:
                    out = "block W"
                except ssl.SSLError as e:
                    out = "err ssl" + type(e).__name__[3:-5].lower()
                except OSError as e:
                    out = "err reset" if e.errno == _errno.ECONNRESET else f"err errno{e.errno}"
                lines.append(f"try {what} {name} -> {out}")
    finally:
        setattr(tr, attr, real)
    return lines


def run_blocking(case: dict) -> list[str]:
    for attempt in range(2):
        lines, timed_out = _once(case)
        if not timed_out:
            return lines
    raise core.InfraError("C08 blocking session did not finish within the harness deadline (machine load?)")
