"""
C08, blocking variant: the real SSLStreamTransport over a socketpair; a relay thread re-fragments the ciphertext in both
directions; the peer is a stdlib ssl.SSLSocket driven by a single-threaded non-blocking loop (reads and writes whenever it
can, so both directions are active while the transport under test sends).  Inputs / outputs only are judged:

    a2b written=<len:adler> received=<len:adler>       b2a …       viol <text>  (what the oracle reports)

Real threads and sockets: every wait is bounded by a generous deadline; hitting it is an INFRASTRUCTURE error (after one
retry), never a verdict.
"""
from __future__ import annotations

import atexit
import math
import os
import select
import selectors
import shutil
import socket
import ssl
import subprocess
import tempfile
import threading
import time
from typing import Any

from vlib import core
from vlib import c08_run as R
from vlib.c08_env import fmt

from easynetwork.lowlevel.api_sync.transports.socket import SSLStreamTransport

DEADLINE = 60.0
BIG_HS_TIMEOUT = 10.0        # handshake_timeout of the big-certificate sessions (they take milliseconds when nothing is stuck)
BIG_HS_TIMEOUT_AFTER = 3.0   # … once one such deadlock has been confirmed in this run (the run is a VIOLATION run by then)
_confirmed_stuck = [0]

_BIG: dict[int, tuple[ssl.SSLContext, ssl.SSLContext, ssl.SSLContext, ssl.SSLContext]] = {}
_BIG_DIR: list[str] = []


def big_ctxs(sans: int):
    """contexts around a certificate with `sans` subjectAltName entries (about 46 bytes each), made with the openssl CLI into
    a temporary directory from the key of the suite: (server, client) for a big SERVER certificate and (server, client) for a
    big CLIENT certificate (mutual TLS).  A flight carrying it does not fit in a small socket send buffer: one
    do_handshake() call wants read, then write, then read again."""
    if sans in _BIG:
        return _BIG[sans]
    if not _BIG_DIR:
        _BIG_DIR.append(tempfile.mkdtemp(prefix="verif-c08-bigcert-"))
        atexit.register(shutil.rmtree, _BIG_DIR[0], True)
    d = _BIG_DIR[0]
    names = ",".join(["DNS:localhost"] + [f"DNS:host-{i:05d}.some-long-domain-name.example.org" for i in range(sans)])
    cfg, cert = os.path.join(d, f"c{sans}.cnf"), os.path.join(d, f"c{sans}.pem")
    with open(cfg, "w") as f:
        f.write("[req]\ndistinguished_name=dn\nx509_extensions=ext\nprompt=no\n[dn]\nCN=localhost\n"
                f"[ext]\nsubjectAltName={names}\nbasicConstraints=CA:TRUE\n")
    try:
        subprocess.run(["openssl", "req", "-x509", "-new", "-key", R.KEY, "-days", "2", "-config", cfg, "-out", cert],
                       check=True, stdout=subprocess.DEVNULL, stderr=subprocess.PIPE, timeout=60)
    except Exception as e:  # noqa: BLE001
        raise core.InfraError(f"C08 blocking: cannot make the big certificate with the openssl CLI: {e}")

    def srv(own: str, verify: str | None) -> ssl.SSLContext:
        c = ssl.SSLContext(ssl.PROTOCOL_TLS_SERVER)
        c.load_cert_chain(own, R.KEY)
        c.minimum_version = ssl.TLSVersion.TLSv1_3
        c.num_tickets = 0
        if verify:
            c.verify_mode = ssl.CERT_REQUIRED
            c.load_verify_locations(verify)
        return c

    def cli(ca: str, own: str | None) -> ssl.SSLContext:
        c = ssl.create_default_context(cafile=ca)
        c.minimum_version = ssl.TLSVersion.TLSv1_3
        if own:
            c.load_cert_chain(own, R.KEY)
        return c

    _BIG[sans] = (srv(cert, None), cli(cert, None), srv(R.CERT, cert), cli(R.CERT, cert))
    return _BIG[sans]


def _spy_selector(first_wait: threading.Event, log: list):
    base = getattr(selectors, "PollSelector", selectors.SelectSelector)

    class SpySelector(base):  # type: ignore[misc,valid-type]
        """the documented selector_factory hook, used to know WHEN the transport parks (so that the peer's ClientHello comes
        after the first do_handshake()) and what its last wait was when a session does not finish"""

        def register(self, fileobj, events, data=None):
            self._ev = events
            return super().register(fileobj, events, data)

        def select(self, timeout=None):
            first_wait.set()
            res = super().select(timeout)
            log.append(("R" if self._ev == selectors.EVENT_READ else "W", bool(res)))
            return res

    return SpySelector


class _Relay(threading.Thread):
    def __init__(self, x: socket.socket, y: socket.socket, frag: int, stop: threading.Event) -> None:
        super().__init__(daemon=True)
        self.x, self.y, self.frag, self.stop_ev = x, y, frag, stop
        self.seen: dict[int, bytearray] = {0: bytearray(), 1: bytearray()}     # 0: x->y (from the transport under test)
        self.slow = 0            # the first `slow` bytes coming from the transport under test are taken slowly (3 ms per read)

    def run(self) -> None:
        socks = [self.x, self.y]
        open_ = [True, True]
        try:
            while not self.stop_ev.is_set() and any(open_):
                r, _, _ = select.select([s for s, o in zip(socks, open_) if o], [], [], 0.05)
                for s in r:
                    i = socks.index(s)
                    if i == 0 and len(self.seen[0]) < self.slow:
                        time.sleep(0.003)          # slow reader: the send buffer of the transport under test does fill up
                    try:
                        d = s.recv(self.frag)
                    except OSError:
                        d = b""
                    if not d:
                        open_[i] = False
                        try:
                            socks[1 - i].shutdown(socket.SHUT_WR)
                        except OSError:
                            pass
                        continue
                    self.seen[i] += d
                    try:
                        socks[1 - i].sendall(d)
                    except OSError:
                        open_[i] = False
        finally:
            for s in socks:
                try:
                    s.close()
                except OSError:
                    pass


class _Peer(threading.Thread):
    def __init__(self, sock: socket.socket, ctx: ssl.SSLContext, server_side: bool, to_send: bytes, expect: int,
                 stop: threading.Event, start_after: threading.Event | None = None) -> None:
        super().__init__(daemon=True)
        self.start_after = start_after
        self.sock, self.ctx, self.server_side = sock, ctx, server_side
        self.to_send, self.expect, self.stop_ev = to_send, expect, stop
        self.received = bytearray()
        self.error: str | None = None
        self.done = threading.Event()

    def run(self) -> None:
        try:
            s = self.ctx.wrap_socket(self.sock, server_side=self.server_side, do_handshake_on_connect=False,
                                     server_hostname=None if self.server_side else "localhost")
            s.settimeout(DEADLINE)
            if self.start_after is not None:
                self.start_after.wait(5.0)          # slow peer: its first flight leaves once the transport under test is parked
            s.do_handshake()
            s.setblocking(False)
            view = memoryview(self.to_send)
            while not self.stop_ev.is_set() and (len(view) or len(self.received) < self.expect):
                progressed = False
                if len(self.received) < self.expect:
                    try:
                        d = s.recv(65536)
                        if not d:
                            break
                        self.received += d
                        progressed = True
                    except (ssl.SSLWantReadError, ssl.SSLWantWriteError, BlockingIOError):
                        pass
                if len(view):
                    try:
                        n = s.send(view[:16384])
                        view = view[n:]
                        progressed = True
                    except (ssl.SSLWantReadError, ssl.SSLWantWriteError, BlockingIOError):
                        pass
                if not progressed:
                    select.select([s], [s] if len(view) else [], [], 0.02)
            self.ssl_sock = s
        except Exception as e:  # noqa: BLE001
            self.error = f"{type(e).__name__}: {e}"
        finally:
            self.done.set()


def _once(case: dict) -> tuple[list[str], bool]:
    seed = case["seed"]
    a_server = case.get("role", "client") == "server"
    pa = R.plaintext(seed, "blk-a2b", sum(case["a2b"]))
    pb = R.plaintext(seed, "blk-b2a", sum(case["b2a"]))
    a_sock, r1 = socket.socketpair()
    r2, b_sock = socket.socketpair()
    stop = threading.Event()
    relay = _Relay(r1, r2, case.get("frag", 4096), stop)
    big = int(case.get("bigcert", 0))
    first_wait = threading.Event()
    waits: list = []
    if big:
        # direction flips inside ONE do_handshake(): the certificate flight of the transport under test (server certificate, or
        # client certificate of a mutual-TLS client) overflows its tiny send buffer after it has waited for the peer's flight
        s_big, c_big, s_mtls, c_mtls = big_ctxs(big)
        a_ctx, b_ctx = (s_big, c_big) if a_server else (c_mtls, s_mtls)
        a_sock.setsockopt(socket.SOL_SOCKET, socket.SO_SNDBUF, int(case.get("sndbuf", 4096)))
        r1.setsockopt(socket.SOL_SOCKET, socket.SO_RCVBUF, int(case.get("sndbuf", 4096)))
        a_kw: dict = {"selector_factory": _spy_selector(first_wait, waits)}
        relay.slow = 98304
        a_hs_timeout = BIG_HS_TIMEOUT_AFTER if _confirmed_stuck[0] else BIG_HS_TIMEOUT
    else:
        a_ctx, b_ctx = (R.server_ctx("1.3", 0), R.client_ctx("1.3")) if a_server else (R.client_ctx("1.3"), R.server_ctx("1.3", 0))
        a_kw = {}
        a_hs_timeout = DEADLINE
    ri = case.get("retry_interval", 0.5)
    ri = math.inf if ri == "inf" else float(ri)
    peer = _Peer(b_sock, b_ctx, not a_server, pb, len(pa), stop, first_wait if big and a_server else None)
    relay.start()
    peer.start()
    lines: list[str] = []
    received = bytearray()
    timed_out = False
    tr: Any = None
    t_end = time.monotonic() + DEADLINE
    try:
        try:
            tr = SSLStreamTransport(a_sock, a_ctx, ri,
                                    server_side=a_server, server_hostname=None if a_server else "localhost",
                                    handshake_timeout=a_hs_timeout, shutdown_timeout=1.0, **a_kw)
        except TimeoutError:
            timed_out = True
            if big:
                # behaviour only: did the last wait of the transport end with nothing ready while the peer was still in its
                # handshake (waiting for the rest of the flight)?
                sig = bool(waits) and not waits[-1][1] and not peer.done.is_set()
                lines.append(f"{'stuck' if sig else 'hs-timeout'} last-wait={waits[-1][0] if waits else '-'}:"
                             f"{'ready' if waits and waits[-1][1] else 'none'} waits={len(waits)} "
                             f"peer-done={int(peer.done.is_set())} flight-forwarded={len(relay.seen[0])}")
            return lines, True
        except Exception as e:  # noqa: BLE001
            lines.append(f"viol the handshake failed: {type(e).__name__}: {e}")
            a_sock.close()
            return lines, False
        pos = 0
        rsz = case.get("recv", 16384)
        for n in case["a2b"]:
            chunk = pa[pos:pos + n]
            pos += n
            try:
                if case.get("iter"):
                    k = max(1, len(chunk) // 3)
                    tr.send_all_from_iterable([chunk[:k], b"", chunk[k:2 * k], chunk[2 * k:]], DEADLINE)
                else:
                    tr.send_all(chunk, DEADLINE)
            except TimeoutError:
                return lines, True
            except Exception as e:  # noqa: BLE001
                lines.append(f"viol send failed: {type(e).__name__}: {e}")
                return lines, False
            # both directions: take whatever the peer has sent meanwhile
            if len(received) < len(pb):
                try:
                    d = tr.recv(rsz, 0)
                    received += d
                except TimeoutError:
                    pass
                except Exception as e:  # noqa: BLE001
                    lines.append(f"viol recv failed: {type(e).__name__}: {e}")
                    return lines, False
        while len(received) < len(pb):
            left = t_end - time.monotonic()
            if left <= 0:
                return lines, True
            try:
                d = tr.recv(rsz, left)
            except TimeoutError:
                return lines, True
            except Exception as e:  # noqa: BLE001
                lines.append(f"viol recv failed: {type(e).__name__}: {e}")
                return lines, False
            if not d:
                break
            received += d
        if not peer.done.wait(max(t_end - time.monotonic(), 0.1)):
            # the peer is still waiting for plaintext that never arrives, although every send call returned
            if len(peer.received) < len(pa) and time.monotonic() >= t_end:
                timed_out = True
        return lines, timed_out
    finally:
        if not timed_out:
            lines.append(f"a2b written={fmt(pa)} received={fmt(bytes(peer.received))}")
            lines.append(f"b2a written={fmt(pb)} received={fmt(bytes(received))}")
            if peer.error:
                lines.append(f"viol peer: {peer.error}")
            elif bytes(peer.received) != pa:
                lines.append(f"viol plaintext read by the peer ({len(peer.received)} bytes) != plaintext written ({len(pa)} bytes)")
            if bytes(received) != pb and not any(ln.startswith("viol") for ln in lines):
                lines.append(f"viol plaintext read from the transport ({len(received)} bytes) != plaintext written by the peer ({len(pb)} bytes)")
            wire = bytes(relay.seen[0])
            for s in range(0, max(len(pa) - 7, 0), 256):
                if pa[s:s + 8] in wire:
                    lines.append(f"viol plaintext occurs verbatim on the wire (offset {s})")
                    break
        if tr is not None and not timed_out:
            try:
                lines.extend(decision_table(tr))
            except Exception as e:  # noqa: BLE001
                lines.append(f"viol decision table probe failed: {type(e).__name__}: {e}")
        stop.set()
        try:
            if tr is not None:
                tr.close()
            else:
                a_sock.close()
        except Exception:  # noqa: BLE001
            pass
        peer.join(2.0)
        relay.join(2.0)
        for s in (b_sock,):
            try:
                s.close()
            except OSError:
                pass


class _RaisingSocket:
    """stands in for the SSLSocket of a finished session: recv_into / send raise the scripted ssl exception"""

    def __init__(self, real, exc: BaseException) -> None:
        self._real, self._exc = real, exc

    def fileno(self) -> int:
        return self._real.fileno()

    def recv(self, *a):
        raise self._exc

    def recv_into(self, *a):
        raise self._exc

    def send(self, *a):
        raise self._exc


_EXC = {"wantr": lambda: ssl.SSLWantReadError(ssl.SSL_ERROR_WANT_READ, "want read"),
        "wantw": lambda: ssl.SSLWantWriteError(ssl.SSL_ERROR_WANT_WRITE, "want write"),
        "sysc": lambda: ssl.SSLSyscallError(ssl.SSL_ERROR_SYSCALL, "syscall"),
        "zeroret": lambda: ssl.SSLZeroReturnError(ssl.SSL_ERROR_ZERO_RETURN, "closed"),
        "reset": lambda: ConnectionResetError(104, "reset")}


def decision_table(tr) -> list[str]:
    """the real recv_noblock / send_noblock (+ _try_ssl_method) with each ssl exception injected below them"""
    import errno as _errno

    from easynetwork.lowlevel.api_sync.transports import base_selector as bs

    attr = "_SSLStreamTransport__socket"
    real = getattr(tr, attr)
    lines = []
    try:
        for what in ("recv", "send"):
            for name, mk in _EXC.items():
                setattr(tr, attr, _RaisingSocket(real, mk()))
                try:
                    res = tr.recv_noblock(8) if what == "recv" else tr.send_noblock(b"x")
                    out = f"got {core.hexs(res)}" if what == "recv" else f"ok {res}"
                except bs.WouldBlockOnRead:
                    out = "block R"
                except bs.WouldBlockOnWrite:
                    out = "block W"
                except ssl.SSLError as e:
                    out = "err ssl" + type(e).__name__[3:-5].lower()
                except OSError as e:
                    out = "err reset" if e.errno == _errno.ECONNRESET else f"err errno{e.errno}"
                lines.append(f"try {what} {name} -> {out}")
    finally:
        setattr(tr, attr, real)
    return lines


def run_blocking(case: dict) -> list[str]:
    hs = []
    for attempt in range(2):
        lines, timed_out = _once(case)
        if not timed_out:
            return lines
        hs.append([ln for ln in lines if ln.startswith(("stuck ", "hs-timeout "))])
    stuck = [x[0] for x in hs if x and x[0].startswith("stuck ")]
    if case.get("bigcert") and all(hs) and stuck:
        # watchdog confirmed by the re-run: twice, the handshake of the transport under test ended in its own TimeoutError
        # (handshake_timeout), its last wait satisfied by nothing, the peer still waiting for the rest of the flight
        _confirmed_stuck[0] += 1
        return [f"viol the handshake did not complete within its handshake_timeout (twice): the transport's last wait "
                f"({stuck[-1][6:]}) was never satisfied while the peer was waiting for the rest of its flight (deadlock)"]
    raise core.InfraError("C08 blocking session did not finish within the harness deadline (machine load?)"
                          + (f" {hs}" if any(hs) else ""))
