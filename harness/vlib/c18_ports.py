"""
C18: FIXED listening ports for the restart histories (a server that re-creates its listeners must be able to bind the
same (host, port) again right after it stopped, whatever the connections of the previous run left in the kernel).

* `reserve(kind)` -> Reservation: a loopback port BELOW the ephemeral range (20000-31999: neither the kernel's automatic
  port choice - port 0 listeners, outgoing connections of any process - nor another history of this framework can take it
  meanwhile), on which nothing is bound and nothing lingers (the test bind is made WITHOUT SO_REUSEADDR, so a port that
  still has TIME_WAIT remnants of an earlier history is not chosen), and for which this process holds an exclusive
  `flock` on /tmp/verif-c18-ports/<port>.lock until `release()` (or its death): parallel checks never share a port.
* `port_state(port, kind)` -> what the kernel knows about that local port (Linux /proc/net): listening sockets owned by this
  process / by somebody else, TIME_WAIT remnants, other connections.  Evidence for the replay reader, and the way a
  foreign listener on the reserved port (never seen) would be told apart from a refusal by the library.
"""
from __future__ import annotations

import fcntl
import os
import random
import socket

PORT_LO, PORT_HI = 20000, 32000
LOCK_DIR = "/tmp/verif-c18-ports"
HOST = "127.0.0.1"


class Reservation:
    def __init__(self, port: int, fd: int) -> None:
        self.port, self.fd = port, fd

    def release(self) -> None:
        if self.fd >= 0:
            try:
                os.close(self.fd)       # (drops the flock)
            except OSError:
                pass
            self.fd = -1


def reserve(kind: str) -> Reservation:
    os.makedirs(LOCK_DIR, exist_ok=True)
    rnd = random.Random(os.urandom(8))
    typ = socket.SOCK_STREAM if kind == "tcp" else socket.SOCK_DGRAM
    for _ in range(400):
        port = rnd.randrange(PORT_LO, PORT_HI)
        try:
            fd = os.open(os.path.join(LOCK_DIR, f"{port}.lock"), os.O_CREAT | os.O_RDWR, 0o666)
        except OSError:
            continue
        try:
            fcntl.flock(fd, fcntl.LOCK_EX | fcntl.LOCK_NB)
        except OSError:
            os.close(fd)
            continue
        s = socket.socket(socket.AF_INET, typ)
        try:
            s.bind((HOST, port))
        except OSError:
            os.close(fd)
            continue
        finally:
            s.close()
        if kind == "tcp" and port_state(port, kind)["other"]:
            os.close(fd)
            continue
        return Reservation(port, fd)
    raise OSError("no free fixed port found")


def _our_inodes() -> set[str]:
    res = set()
    try:
        for fd in os.listdir("/proc/self/fd"):
            try:
                t = os.readlink(f"/proc/self/fd/{fd}")
            except OSError:
                continue
            if t.startswith("socket:["):
                res.add(t[8:-1])
    except OSError:
        pass
    return res


def port_state(port: int, kind: str) -> dict[str, int]:
    """{"listen_ours", "listen_foreign", "time_wait", "other"} for local port `port`"""
    out = {"listen_ours": 0, "listen_foreign": 0, "time_wait": 0, "other": 0}
    inodes = _our_inodes()
    path, listen = ("/proc/net/tcp", "0A") if kind == "tcp" else ("/proc/net/udp", "07")
    try:
        with open(path) as f:
            next(f)
            for line in f:
                w = line.split()
                if len(w) < 10 or int(w[1].rsplit(":", 1)[1], 16) != port:
                    continue
                if w[3] == listen:
                    out["listen_ours" if w[9] in inodes else "listen_foreign"] += 1
                elif w[3] == "06":
                    out["time_wait"] += 1
                else:
                    out["other"] += 1
    except (OSError, StopIteration):
        pass
    return out


def state_text(port: int, kind: str) -> str:
    st = port_state(port, kind)
    return " ".join(f"{k}={v}" for k, v in st.items())
