"""
C01, round 5 — the receive ENTRY POINTS of the real endpoints, a FAMILY of converter objects, falsy packet values.

C01 used to observe at consumer level only (StreamDataConsumer / BufferedStreamDataConsumer driven by hand) with one converter
class (`streamdrive.WrapConverter`: a plain, truthy object whose business objects are truthy).  Two regions of the input space
were therefore empty:

  * the code BETWEEN the consumer and the application: `recv_packet()` of the blocking `StreamEndpoint` /
    `StreamReceiverEndpoint` and of `AsyncStreamEndpoint` / `AsyncStreamReceiverEndpoint` ("serve the buffered packets first",
    read loop, end-of-stream report), where a packet VALUE can be mistaken for "no packet": None, 0, False, "", b"", [], {} …
  * the converter OBJECT: the four `if converter is not None` sites of `protocol.py` (+ two of DatagramProtocol) only ever saw
    `None` or a truthy object.

Case kind `ep` (installed into harness/props/c01.py by `install`, oracle only, no Lean model run):

    api       consumer | sync | async | datagram      which receive entry point delivers the packets
    ep        duplex | recvonly                       StreamEndpoint / StreamReceiverEndpoint (resp. the Async ones)
    spec      serializer spec (vlib/sers.py)          path: copy = StreamProtocol, buffered = BufferedStreamProtocol (receive side)
    sendpath  copy | buffered | endpoint              which generate_chunks() builds the byte stream (endpoint: send_packet() of a
                                                      duplex endpoint of the same api over the in-memory transport)
    conv      None | {"c": plain|len0|bool0|stapled, "halves": [sent, received], "biz": wrapped|falsybool|falsylen,
                      "poison": <packet>, "falsy": [[<packet>, index into FALSY], …]}
    packets   the DTO packets (what the serializer carries); the business objects are derived from them by the converter spec
    cuts      read sizes of the in-memory transport (cyclic)   |   group: k = k whole frames per read
    maxrecv   max_recv_size of the endpoint (consumer api: the buffer hint)
    t         none | pos | zero                       timeout of every blocking recv_packet() call (zero: `timeout` answers are
                                                      legitimate and skipped by the oracle; the calls go on until end-of-stream)
    native    the transport overrides recv() (as socket transports do) instead of inheriting the recv_into()-based default
    suspend   async transports: every read really suspends (one loop turn) or completes at once

oracle (the property's sentence, seen by the application): the business objects delivered == the ones sent, in order, once each
(a converter that rejects a DTO: exactly one `err conv` at that place); the sender's byte stream is the one the serializer
produces for the DTOs (the converter was applied on the way out); then a clean end: end-of-stream is reported only after the last
packet and every further call reports it again; delivered packets keep their value (streamdrive.Retain).
"""
from __future__ import annotations

import asyncio
from typing import Any

from vlib import core, sers, streamdrive as sd

from easynetwork.converter import AbstractPacketConverter, StapledPacketConverter
from easynetwork.exceptions import DatagramProtocolParseError, PacketConversionError, StreamProtocolParseError
from easynetwork.lowlevel._stream import StreamDataProducer
from easynetwork.lowlevel.api_async.backend._asyncio.backend import AsyncIOBackend
from easynetwork.lowlevel.api_async.endpoints.stream import AsyncStreamEndpoint, AsyncStreamReceiverEndpoint
from easynetwork.lowlevel.api_async.transports.abc import AsyncStreamReadTransport, AsyncStreamTransport
from easynetwork.lowlevel.api_sync.endpoints.stream import StreamEndpoint, StreamReceiverEndpoint
from easynetwork.lowlevel.api_sync.transports.abc import StreamReadTransport, StreamTransport
from easynetwork.protocol import BufferedStreamProtocol, DatagramProtocol, StreamProtocol

# the values an `if packet:` / `if packet is not None` / `packet or default` slip loses.  (0, False and 0.0 are equal in Python:
# every lookup below compares the TYPE as well.)
FALSY: list[Any] = [None, 0, False, "", b"", [], {}, 0.0, ()]

COUNT: dict[str, int] = {}
_aux: dict[str, Any] = {}
_loop: asyncio.AbstractEventLoop | None = None
_backend = AsyncIOBackend()


def _count(key: str, n: int = 1) -> None:
    COUNT[key] = COUNT.get(key, 0) + n


# ------------------------------------------------------------------------------------------------
# business objects and converters
# ------------------------------------------------------------------------------------------------

class FalsyBool(sd.Wrapped):
    """a business object that carries its DTO and whose truth value is False (`__bool__`)"""
    __slots__ = ()

    def __bool__(self) -> bool:
        return False

    def __repr__(self) -> str:
        return f"Fb({sers.show(self.v)})"


class FalsyLen(sd.Wrapped):
    """a business object that is an empty container as far as `len()` / truth testing go (e.g. a record with no optional items)"""
    __slots__ = ()

    def __len__(self) -> int:
        return 0

    def __repr__(self) -> str:
        return f"Fl({sers.show(self.v)})"


_BIZ = {"wrapped": sd.Wrapped, "falsybool": FalsyBool, "falsylen": FalsyLen}


def _same(a: Any, b: Any) -> bool:
    return type(a) is type(b) and a == b


class FamilyConverter(AbstractPacketConverter[Any, Any]):
    """DTO <-> business object, driven by the converter spec:
       * a DTO listed in `falsy` IS the falsy business value paired with it (None, 0, "", … : "optional value" converters);
       * a DTO equal to `poison` is rejected with PacketConversionError when received (it can be sent);
       * every other DTO is carried by an object of class `biz` (truthy, or falsy by __bool__ / by __len__)."""

    def __init__(self, conv: dict, spec: dict) -> None:
        self.biz = _BIZ[conv.get("biz", "wrapped")]
        self.poison = [sers.expected_received(spec, sers.dec_val(conv["poison"]))] if conv.get("poison") is not None else []
        self.table = [(sers.dec_val(d), sers.expected_received(spec, sers.dec_val(d)), FALSY[i]) for d, i in conv.get("falsy", [])]
        self.calls = 0

    def create_from_dto_packet(self, packet: Any) -> Any:
        self.calls += 1
        for _, d, f in self.table:
            if _same(packet, d):
                return f
        if any(_same(packet, p) for p in self.poison):
            raise PacketConversionError("poison packet")
        return self.biz(packet)

    def convert_to_dto_packet(self, obj: Any) -> Any:
        self.calls += 1
        if isinstance(obj, sd.Wrapped):
            return obj.v
        for d, _, f in self.table:
            if _same(obj, f):
                return d
        raise AssertionError(f"not a business object of this converter: {obj!r}")

    def business(self, dto: Any) -> Any:
        """the business object the application sends in order to put `dto` on the wire"""
        for d, _, f in self.table:
            if _same(dto, d):
                return f
        return self.biz(dto)


class Len0Converter(FamilyConverter):
    """a converter that is also a sized registry (cache of the objects it interned) — and the registry is empty"""

    def __len__(self) -> int:
        return 0


class Bool0Converter(FamilyConverter):
    def __bool__(self) -> bool:
        return False


_CONV = {"plain": FamilyConverter, "len0": Len0Converter, "bool0": Bool0Converter}


def make_converter(conv: Any, spec: dict):
    """-> (converter object handed to the protocol | None, FamilyConverter used as reference | None)"""
    if not conv:
        return None, None
    if conv is True:
        conv = {"c": "plain"}
    if conv["c"] == "stapled":
        a, b = conv.get("halves", ["plain", "plain"])
        sent, received = _CONV[a](conv, spec), _CONV[b](conv, spec)
        return StapledPacketConverter(sent, received), received
    c = _CONV[conv["c"]](conv, spec)
    return c, c


def conv_family(conv: Any) -> str:
    if not conv:
        return "none"
    if conv is True:
        return "plain"
    name = conv["c"] if conv["c"] != "stapled" else "stapled(" + ",".join(conv.get("halves", ["plain", "plain"])) + ")"
    extra = [k for k in ("poison", "falsy") if conv.get(k)] + ([conv["biz"]] if conv.get("biz", "wrapped") != "wrapped" else [])
    return name + ("+" + "+".join(extra) if extra else "")


def _protocol(spec: dict, path: str, conv: Any):
    c, ref = make_converter(conv, spec)
    ser = sers.build(spec)
    return (BufferedStreamProtocol(ser, c) if path == "buffered" else StreamProtocol(ser, c)), ref


# ------------------------------------------------------------------------------------------------
# in-memory transports (the public transport ABCs)
# ------------------------------------------------------------------------------------------------

class _Script:
    def __init__(self, chunks: list[bytes]) -> None:
        self.chunks = [bytes(c) for c in chunks]
        self.reads: list[int] = []        # size of every read that returned data
        self.rooms: list[int] = []        # size of every buffer offered
        self.sent = bytearray()
        self.closed = False

    def take(self, n: int) -> bytes:
        self.rooms.append(n)
        while self.chunks and not self.chunks[0]:
            self.chunks.pop(0)
        if not self.chunks:
            return b""                     # end of stream
        c = self.chunks[0]
        out, rest = c[:n], c[n:]
        if rest:
            self.chunks[0] = rest
        else:
            self.chunks.pop(0)
        self.reads.append(len(out))
        return out

    def into(self, buffer: Any) -> int:
        with memoryview(buffer) as v:
            data = self.take(v.nbytes)
            v[:len(data)] = data
            return len(data)


class MemReadTransport(StreamReadTransport):
    def __init__(self, chunks: list[bytes]) -> None:
        super().__init__()
        self.s = _Script(chunks)

    def recv_into(self, buffer: Any, timeout: float) -> int:
        return self.s.into(buffer)

    def close(self) -> None:
        self.s.closed = True

    def is_closed(self) -> bool:
        return self.s.closed

    @property
    def extra_attributes(self) -> dict:
        return {}


class MemTransport(MemReadTransport, StreamTransport):
    def send(self, data: Any, timeout: float) -> int:
        with memoryview(data) as v:
            self.s.sent += bytes(v)
            return v.nbytes

    def send_eof(self) -> None:
        pass


class _NativeRecv:
    def recv(self, bufsize: int, timeout: float) -> bytes:
        return self.s.take(bufsize)          # type: ignore[attr-defined]


class NativeMemReadTransport(_NativeRecv, MemReadTransport):
    pass


class NativeMemTransport(_NativeRecv, MemTransport):
    pass


class AsyncMemReadTransport(AsyncStreamReadTransport):
    def __init__(self, chunks: list[bytes], suspend: bool) -> None:
        super().__init__()
        self.s = _Script(chunks)
        self.suspend = suspend

    async def recv_into(self, buffer: Any) -> int:
        if self.suspend:
            await asyncio.sleep(0)
        return self.s.into(buffer)

    async def aclose(self) -> None:
        self.s.closed = True

    def is_closing(self) -> bool:
        return self.s.closed

    def backend(self) -> Any:
        return _backend

    @property
    def extra_attributes(self) -> dict:
        return {}


class AsyncMemTransport(AsyncMemReadTransport, AsyncStreamTransport):
    async def send_all(self, data: Any) -> None:
        if self.suspend:
            await asyncio.sleep(0)
        with memoryview(data) as v:
            self.s.sent += bytes(v)

    async def send_eof(self) -> None:
        pass


class _AsyncNativeRecv:
    async def recv(self, bufsize: int) -> bytes:
        if self.suspend:                     # type: ignore[attr-defined]
            await asyncio.sleep(0)
        return self.s.take(bufsize)          # type: ignore[attr-defined]


class AsyncNativeMemReadTransport(_AsyncNativeRecv, AsyncMemReadTransport):
    pass


class AsyncNativeMemTransport(_AsyncNativeRecv, AsyncMemTransport):
    pass


def _sync_transport(case: dict, chunks: list[bytes]):
    duplex, native = case.get("ep", "duplex") == "duplex", bool(case.get("native"))
    cls = {(True, False): MemTransport, (True, True): NativeMemTransport,
           (False, False): MemReadTransport, (False, True): NativeMemReadTransport}[(duplex, native)]
    return cls(chunks)


def _async_transport(case: dict, chunks: list[bytes]):
    duplex, native = case.get("ep", "duplex") == "duplex", bool(case.get("native"))
    cls = {(True, False): AsyncMemTransport, (True, True): AsyncNativeMemTransport,
           (False, False): AsyncMemReadTransport, (False, True): AsyncNativeMemReadTransport}[(duplex, native)]
    return cls(chunks, bool(case.get("suspend", True)))


def _get_loop() -> asyncio.AbstractEventLoop:
    global _loop
    if _loop is None or _loop.is_closed():
        _loop = asyncio.new_event_loop()
    return _loop


# ------------------------------------------------------------------------------------------------
# the real run
# ------------------------------------------------------------------------------------------------

def _classify(e: BaseException) -> str:
    if isinstance(e, ConnectionAbortedError):
        return "eos"
    if isinstance(e, TimeoutError):
        return "timeout"
    return f"exc {type(e).__name__}: {e}"[:200]


def _timeout(case: dict):
    return {"none": None, "pos": 30.0, "zero": 0}[case.get("t", "none")]


def _send(case: dict, business: list[Any], lines: list[str]) -> list[bytes]:
    """one frame per business object, through the sending code path named by `sendpath`"""
    spec, conv, sendpath = case["spec"], case.get("conv"), case.get("sendpath", "copy")
    if sendpath == "endpoint":
        proto, _ = _protocol(spec, case["path"], conv)
        frames: list[bytes] = []
        if case["api"] == "async":
            async def main() -> None:
                tr = AsyncMemTransport([], bool(case.get("suspend", True)))
                ep = AsyncStreamEndpoint(tr, proto, max_recv_size=case["maxrecv"])
                for b in business:
                    n = len(tr.s.sent)
                    await ep.send_packet(b)
                    frames.append(bytes(tr.s.sent[n:]))
                await ep.aclose()
            _get_loop().run_until_complete(main())
        else:
            tr = MemTransport([])
            ep = StreamEndpoint(tr, proto, max_recv_size=case["maxrecv"])
            for b in business:
                n = len(tr.s.sent)
                ep.send_packet(b, timeout=_timeout(case) or None)
                frames.append(bytes(tr.s.sent[n:]))
            ep.close()
        return frames
    proto, _ = _protocol(spec, sendpath, conv)
    prod = StreamDataProducer(proto)
    return [b"".join(prod.generate(b)) for b in business]


def _chunks(case: dict, frames: list[bytes]) -> list[bytes]:
    if case.get("group"):
        k = case["group"]
        return [b"".join(frames[i:i + k]) for i in range(0, len(frames), k)]
    return sd.cut(b"".join(frames), case["cuts"])


def run_real(case: dict) -> list[str]:
    spec, conv, api = case["spec"], case.get("conv"), case["api"]
    dtos = [sers.dec_val(v) for v in case["packets"]]
    _, ref = make_converter(conv, spec)
    business = [ref.business(p) if ref is not None else p for p in dtos]
    lines: list[str] = []
    _count(f"cases api={api}")
    if api == "datagram":
        return _run_datagram(case, dtos, business, lines)
    frames = _send(case, business, lines)
    plain = sd.produce(spec, dtos)
    for i, (f, g) in enumerate(zip(frames, plain)):
        if f != g:
            lines.append(f"sent-diff #{i} {core.hexs(f)[:80]} instead of {core.hexs(g)[:80]}")
    # the sentinel frame of C01 (the last packet once more): bytes wrongly retained after the last packet would corrupt it
    frames = frames + [frames[-1]]
    chunks = _chunks(case, frames)
    aux: dict[str, Any] = {"frames": [len(f) for f in frames]}
    _aux[core.case_digest(case)] = aux
    proto, _ = _protocol(spec, case["path"], conv)
    if api == "consumer":
        if case["path"] == "copy":
            sd.drive_copy(proto, chunks, lines)
            aux["reads"] = [len(c) for c in chunks]
        else:
            actual: list[bytes] = []
            sd.drive_buffered(proto, b"".join(chunks), [len(c) for c in chunks if c] or [1], case["maxrecv"], lines, actual)
            aux["reads"] = [len(c) for c in actual]
            lines[:] = [ln for ln in lines if not ln.startswith("room ")]
        return lines
    keep = sd.Retain()
    budget = len(dtos) + 3 if case.get("t") != "zero" else len(dtos) + sum(len(f) for f in frames) + 6

    def record(fn_result: Any = None, exc: BaseException | None = None) -> bool:
        """-> stop calling"""
        if exc is None:
            keep.add(fn_result, lines)
        elif isinstance(exc, StreamProtocolParseError):
            keep.add_err(exc, lines)
        else:
            lines.append(_classify(exc))
        return lines[-2:] == ["eos", "eos"]

    try:
        if api == "sync":
            tr = _sync_transport(case, chunks)
            ep = (StreamEndpoint if case.get("ep", "duplex") == "duplex" else StreamReceiverEndpoint)(tr, proto, max_recv_size=case["maxrecv"])
            for _ in range(budget):
                try:
                    stop = record(ep.recv_packet(timeout=_timeout(case)))
                except Exception as e:  # noqa: BLE001
                    stop = record(exc=e)
                if stop:
                    break
            ep.close()
            aux["reads"] = tr.s.reads
        else:
            async def main() -> None:
                tr = _async_transport(case, chunks)
                cls = AsyncStreamEndpoint if case.get("ep", "duplex") == "duplex" else AsyncStreamReceiverEndpoint
                ep = cls(tr, proto, max_recv_size=case["maxrecv"])
                for _ in range(budget):
                    try:
                        stop = record(await ep.recv_packet())
                    except Exception as e:  # noqa: BLE001
                        stop = record(exc=e)
                    if stop:
                        break
                await ep.aclose()
                aux["reads"] = tr.s.reads
            _get_loop().run_until_complete(main())
    finally:
        keep.finish(lines)
    return lines


def _run_datagram(case: dict, dtos: list[Any], business: list[Any], lines: list[str]) -> list[str]:
    """the same converter family through DatagramProtocol (one-shot interface; one datagram per packet)"""
    spec, conv = case["spec"], case.get("conv")
    c, _ = make_converter(conv, spec)
    ser = sers.build(spec)
    proto = DatagramProtocol(ser, c)
    for i, (d, b) in enumerate(zip(dtos, business)):
        data = proto.make_datagram(b)
        if data != ser.serialize(d):
            lines.append(f"sent-diff #{i} {core.hexs(data)[:80]} instead of {core.hexs(ser.serialize(d))[:80]}")
        try:
            lines.append(sd.pkt_line(proto.build_packet_from_datagram(data)))
        except DatagramProtocolParseError as e:
            lines.append("err conv" if isinstance(e.error, PacketConversionError) else "err parse")
    return lines


# ------------------------------------------------------------------------------------------------
# oracle
# ------------------------------------------------------------------------------------------------

def expected_items(case: dict) -> list[str]:
    spec, conv = case["spec"], case.get("conv")
    _, ref = make_converter(conv, spec)
    dtos = [sers.dec_val(v) for v in case["packets"]]
    out = []
    for p in dtos + ([] if case["api"] == "datagram" else dtos[-1:]):
        e = sers.expected_received(spec, p)
        if ref is None:
            out.append(sd.pkt_line(e))
            continue
        try:
            out.append(sd.pkt_line(ref.create_from_dto_packet(e)))
        except PacketConversionError:
            out.append("err conv")
    return out


def oracle(case: dict, real: list[str]) -> str | None:
    if real and real[0].startswith("skipped:"):
        return None             # (genericfr.SKIPPED: the watchdog fired three times already in this run)
    api = case["api"]
    where = {"consumer": "the consumer", "sync": "recv_packet() of the blocking endpoint", "async": "recv_packet() of the asyncio endpoint",
             "datagram": "DatagramProtocol"}[api]
    for ln in real:
        if ln.startswith(("harness-exc", "exc ")) or ln == "crashed":
            return f"unexpected exception through {where}: {ln}"
        if ln.startswith("sent-diff"):
            return f"the byte stream sent is not the serializer's output for the converted packets ({case.get('sendpath', 'copy')} send path): {ln}"
    why = sd.mutated(real)
    if why:
        return why
    exp = expected_items(case)
    seq = [ln for ln in real if ln.startswith(("pkt ", "err ")) or ln == "eos"]
    got = seq[:seq.index("eos")] if "eos" in seq else seq
    if got != exp:
        i = next((k for k, (a, b) in enumerate(zip(got, exp)) if a != b), min(len(got), len(exp)))
        return (f"{where} ({case['path']} path, converter {conv_family(case.get('conv'))}) delivered {got[max(0, i - 1):i + 3]}… "
                f"where {exp[max(0, i - 1):i + 3]}… was sent (item #{i}; {len(got)} items for {len(exp)} sent)")
    if api in ("sync", "async"):
        tail = seq[len(got):]
        if len(tail) < 2 or any(t != "eos" for t in tail):
            return f"after the last packet {where} answered {tail} instead of end-of-stream for every further call"
    if api == "consumer":
        tail = [ln for ln in real if ln.startswith("buf ")]
        if tail and tail[-1].split()[1] != "-":
            return f"bytes left over after the last packet: {tail[-1]}"
    return None


def nontrivial(case: dict, real: list[str]) -> str | None:
    key = f"ep/{case['api']}/{case['path']}/{conv_family(case.get('conv'))}"
    if real and real[0].startswith("skipped:"):
        return None
    if case["api"] == "datagram":
        return key
    aux = _aux.get(core.case_digest(case))
    if not aux or "reads" not in aux:
        return None
    bounds, acc = set(), 0
    for n in aux["frames"]:
        acc += n
        bounds.add(acc)
    pos, inside, multi = 0, False, False
    for n in aux["reads"]:
        start, pos = pos, pos + n
        if pos not in bounds:
            inside = True
        if sum(1 for b in bounds if start < b <= pos) >= 2:
            multi = True
    if not (inside or multi):
        return None
    return key + ("/multi" if multi else "/cut-inside")


def shrink(case: dict):
    n = len(case["packets"])
    for i in range(n):
        if n > 1:
            yield {**case, "packets": case["packets"][:i] + case["packets"][i + 1:]}
    if case.get("group", 0) > 1:
        yield {**case, "group": case["group"] - 1}
    cuts = case.get("cuts") or []
    if len(cuts) > 1:
        for i in range(len(cuts)):
            yield {**case, "cuts": cuts[:i] + cuts[i + 1:]}
    for i, c in enumerate(cuts):
        if c > 1:
            yield {**case, "cuts": cuts[:i] + [c // 2] + cuts[i + 1:]}
    conv = case.get("conv")
    if isinstance(conv, dict):
        for k in ("poison", "falsy", "biz"):
            if conv.get(k):
                yield {**case, "conv": {kk: vv for kk, vv in conv.items() if kk != k}}
        if conv["c"] != "plain":
            yield {**case, "conv": {**conv, "c": "plain"}}
        yield {**case, "conv": None}
    if case.get("t", "none") != "none":
        yield {**case, "t": "none"}
    if case.get("sendpath", "copy") == "endpoint":
        yield {**case, "sendpath": "copy"}


def known_key(case: dict, real: list[str], why: str) -> str:
    return f"ep,api={case['api']},path={case['path']},ser={case['spec']['k']},conv={conv_family(case.get('conv')).split('+')[0]}"


# ------------------------------------------------------------------------------------------------
# cases
# ------------------------------------------------------------------------------------------------

ev = sers.enc_val


def _oneshot_ok(spec: dict, v: Any) -> bool:
    """the value survives the real one-shot codec unchanged, type included (the codec is a parameter of the property)"""
    try:
        ser = sers.sender(spec)
        back = ser.deserialize(ser.serialize(v))
    except Exception:  # noqa: BLE001
        return False
    return _same(back, v)


def falsy_values(spec: dict) -> list[Any]:
    """the falsy values that are valid packets of `spec` (accepted by the real sender, non-empty frame, unchanged by the codec)"""
    out = []
    leaf = sers._leaf_spec(spec)
    for v in FALSY:
        if leaf["k"] == "line" and leaf.get("keep_end"):
            break               # (keep_end: a packet ends with the newline, "" is not one)
        try:
            if sers.valid_packet(spec, v) and _oneshot_ok(spec, v):
                out.append(v)
        except Exception:  # noqa: BLE001
            continue
    return out


_JSON_FALSY = [{"id": 1}, [2, None], None, "three", 0, False, "", [], {}, None, 4, 0.0]
_APIS = [("consumer", "duplex"), ("sync", "duplex"), ("sync", "recvonly"), ("async", "duplex"), ("async", "recvonly")]
_READS: list[dict] = [{"cuts": [1 << 20]}, {"group": 2}, {"group": 1}, {"cuts": [1]}, {"cuts": [3, 1, 7]}]


def _paths(spec: dict) -> tuple[str, ...]:
    return ("copy", "buffered") if sers.is_buffered(spec) else ("copy",)


def corpus() -> list[dict]:
    out: list[dict] = []

    def add(spec, packets, conv=None, apis=_APIS, reads=_READS, maxrecvs=(16384, 5), sendpaths=("copy",), ts=("none",)):
        for path in _paths(spec):
            for sp in sendpaths:
                if sp == "buffered" and not sers.is_buffered(spec):
                    continue
                for api, epk in apis:
                    for rd in reads:
                        for mr in maxrecvs:
                            for t in (ts if api == "sync" else ("none",)):
                                if api == "consumer" and sp == "endpoint":
                                    continue
                                out.append({"kind": "ep", "api": api, "ep": epk, "spec": spec, "path": path, "sendpath": sp, "conv": conv,
                                            "packets": [ev(p) for p in packets], "maxrecv": mr, "t": t,
                                            "native": (len(out) % 3 == 0), "suspend": (len(out) % 2 == 0), **rd})

    # (a) falsy VALUES carried by the serializer itself: JSON null / 0 / false / "" / [] / {} (raw and line framing, bare and inside
    #     the wrappers), pickled None / 0 / False / "" / b"" / [] / {} / () / 0.0, empty byte strings of the file toys
    for spec in ({"k": "json", "use_lines": False, "limit": 64}, {"k": "json", "use_lines": True, "limit": 64},
                 {"k": "zlib", "inner": {"k": "json", "use_lines": True, "limit": 65536}},
                 {"k": "b64", "inner": {"k": "json", "use_lines": True, "limit": 65536}, "alphabet": "urlsafe", "checksum": True,
                  "separator": "0d0a", "limit": 256}):
        add(spec, _JSON_FALSY, ts=("none", "zero"))
    for spec in ({"k": "bz2", "inner": {"k": "pickle"}}, {"k": "b64", "inner": {"k": "pickle", "proto": 2}, "alphabet": "standard",
                                                          "checksum": False, "separator": "3c7c3e", "limit": 256},
                 {"k": "zlib", "inner": {"k": "pickle"}, "level": 1}):
        add(spec, [{"k": 1}] + FALSY + [None, 7], reads=_READS[:3], maxrecvs=(16384,))
    for k in sers.FILE_TOYS:
        add({"k": k, "limit": 64}, [b"ab", b"", b"", b"c", b""], reads=_READS[:4], maxrecvs=(16,))
    # (b) falsy BUSINESS objects: "optional value" converters over serializers whose own packets are never falsy
    line = {"k": "line", "newline": "LF", "keep_end": False, "encoding": "ascii", "limit": 64}
    crlf = {"k": "line", "newline": "CRLF", "keep_end": False, "encoding": "utf-8", "limit": 64}
    fixed = {"k": "fixed", "size": 4}
    texts = ["alice", "-", "0", "bob", "no", "nil", "-", "e", "[]", "{}", "f", "()", "last"]
    marks = [[ev("-"), 0], [ev("0"), 1], [ev("no"), 2], [ev("e"), 3], [ev("nil"), 4], [ev("[]"), 5], [ev("{}"), 6], [ev("f"), 7], [ev("()"), 8]]
    for spec in (line, crlf, {"k": "zlib", "inner": line}, {"k": "stapled", "sent": line, "received": line}):
        for c in ("plain", "len0"):
            add(spec, texts, conv={"c": c, "falsy": marks}, sendpaths=("copy", "buffered", "endpoint"), reads=_READS[:4], maxrecvs=(16384,))
    add(fixed, [b"pkt0", b"null", b"zero", b"pkt1", b"null"], conv={"c": "stapled", "halves": ["plain", "bool0"],
                                                                  "falsy": [[ev(b"null"), 0], [ev(b"zero"), 1]]},
        sendpaths=("copy", "buffered", "endpoint"))
    # (c) the converter OBJECT: plain / falsy by __len__ / falsy by __bool__ / StapledPacketConverter of any two of them / a
    #     converter that rejects some DTOs / business objects that are themselves falsy — sender and receiver through each of the
    #     four protocol code paths, every receive entry point
    js = {"k": "json", "use_lines": False, "limit": 64}
    nts = {"k": "ntstruct"}
    rot = 0
    convs: list[dict] = [{"c": "plain"}, {"c": "len0"}, {"c": "bool0"}, {"c": "stapled", "halves": ["plain", "plain"]},
                         {"c": "stapled", "halves": ["len0", "bool0"]}, {"c": "stapled", "halves": ["bool0", "plain"]},
                         {"c": "len0", "biz": "falsybool"}, {"c": "plain", "biz": "falsylen"}]
    for spec, pk in ((line, ["alice:1", "bob:2", "alice:3", "carol:0", "bob:2"]), (crlf, ["é", "x\r", "y"]),
                     ({"k": "zlib", "inner": line}, ["alice:1", "bob:2", "c"]), (fixed, [b"pkt0", b"pkt1", b"pkt2"]),
                     (js, [{"a": 1}, None, 0, "x", []]), (nts, [sers.Point(1, 2, "ab"), sers.Point(-3, 4, "")]),
                     ({"k": "stapledbuf", "sent": line, "received": line}, ["alice:1", "bob:2", "c"]),
                     ({"k": "autosep", "sep": "3c7c3e", "limit": 32, "check": True, "hold": "arg"}, [b"ab", b"c<", b"d"])):
        three = [("consumer", "duplex"), ("sync", "duplex"), ("async", "recvonly"), ("sync", "recvonly"), ("async", "duplex")]
        for conv in convs:
            # (every path x send path x chunking for each converter; the entry point cycles so that every converter object meets
            #  every entry point on some serializer)
            for sp in ("copy", "buffered", "endpoint"):
                rot += 1
                api = three[rot % 5] if sp != "endpoint" else three[1 + rot % 4]
                add(spec, pk, conv=conv, sendpaths=(sp,), reads=[{"cuts": [1 << 20]}, {"cuts": [3, 1, 7]}], maxrecvs=(16384,), apis=[api])
            if sers.is_buffered(spec) and all(_oneshot_ok(spec, p) for p in pk):
                out.append({"kind": "ep", "api": "datagram", "spec": spec, "path": "copy", "conv": conv, "packets": [ev(p) for p in pk]})
        poison = pk[1]
        for c in ("plain", "len0", "bool0"):
            rot += 1
            add(spec, pk, conv={"c": c, "poison": ev(poison)}, sendpaths=("copy", "buffered"), reads=[{"cuts": [1 << 20]}, {"cuts": [2]}],
                maxrecvs=(16384, 3)[rot % 2:][:1], apis=[three[rot % 5]])
    return out


def _gen_base(rng):
    """spec, packets, cuts as C01's generator draws them (frames strictly inside the accepted zone of the limit)"""
    for _ in range(50):
        spec = sers.gen_spec(rng, rich=True)
        lim = sers.limit_of(spec) or 65536
        sep = sers.separator(spec)
        maxlen = 12
        if sep is not None:
            maxlen = max(1, min(12, lim - len(sep) - 1 - (len(sep) if sers.keep_end(spec) else 0)))
        filetoy = sers.recv_spec(spec)["k"] in sers.FILE_TOYS
        if filetoy:
            maxlen = max(0, min(12, lim // 2 - 2))
        packets = [sers.gen_packet(rng, spec, maxlen) for _ in range(rng.randint(1, 7))]
        # falsy values where the serializer carries them
        if rng.random() < 0.6:
            fv = falsy_values(spec)
            for _ in range(rng.randint(1, 3) if fv else 0):
                packets.insert(rng.randint(0, len(packets)), rng.choice(fv))
        if sers.limit_of(spec) is not None and not filetoy:
            frames = sd.produce(spec, packets)
            if any(len(f) >= lim for f in frames):
                continue
        return spec, packets, filetoy, lim
    raise AssertionError("no spec")


def _gen_conv(rng, spec: dict, packets: list[Any]) -> Any:
    r = rng.random()
    if r < 0.3:
        return None
    kinds = ["plain", "len0", "bool0", "stapled"]
    conv: dict[str, Any] = {"c": rng.choice(kinds)}
    if conv["c"] == "stapled":
        conv["halves"] = [rng.choice(kinds[:3]), rng.choice(kinds[:3])]
    if rng.random() < 0.3:
        conv["biz"] = rng.choice(["falsybool", "falsylen"])
    distinct: list[Any] = []
    for p in packets:
        if not any(_same(p, q) for q in distinct):
            distinct.append(p)
    rng.shuffle(distinct)
    if rng.random() < 0.45 and distinct:
        k = rng.randint(1, min(3, len(distinct)))
        idx = rng.sample(range(len(FALSY)), k)
        conv["falsy"] = [[ev(d), i] for d, i in zip(distinct[:k], idx)]
        distinct = distinct[k:]
    if rng.random() < 0.25 and distinct:
        conv["poison"] = ev(distinct[0])
    return conv


def generate(rng, tier: str, boost: int):
    for _ in range((1500 if tier == "quick" else 40000) * boost):
        spec, packets, filetoy, lim = _gen_base(rng)
        path = "buffered" if (sers.is_buffered(spec) and rng.random() < 0.5) else "copy"
        api, epk = rng.choice(_APIS + [("sync", "duplex"), ("async", "duplex")])
        conv = _gen_conv(rng, spec, packets)
        if conv is not None and sers.is_buffered(spec) and rng.random() < 0.06 and all(_oneshot_ok(spec, p) for p in packets):
            yield {"kind": "ep", "api": "datagram", "spec": spec, "path": "copy", "conv": conv, "packets": [ev(p) for p in packets]}
            continue
        case: dict[str, Any] = {"kind": "ep", "api": api, "ep": epk, "spec": spec, "path": path, "conv": conv,
                                "packets": [ev(p) for p in packets],
                                "sendpath": rng.choice(["copy", "buffered" if sers.is_buffered(spec) else "copy",
                                                        "endpoint" if api != "consumer" else "copy"]),
                                "maxrecv": rng.choice([1, 2, 3, 5, 8, 64, 16384, 16384]),
                                "t": rng.choice(["none", "none", "pos", "zero"]) if api == "sync" else "none",
                                "native": rng.random() < 0.4, "suspend": rng.random() < 0.6}
        r = rng.random()
        if r < 0.3:
            case["group"] = rng.choice([1, 2, 2, 3, 100])
        elif r < 0.45:
            case["cuts"] = [1]
        elif r < 0.6:
            case["cuts"] = [1 << 20]
        else:
            case["cuts"] = [rng.choice([1, 1, 2, 3, 5, 8, 13, 40, 200]) for _ in range(rng.randint(1, 10))]
        if filetoy:
            # generic wrapper: frame + one read must stay within the limit (C07 table)
            half = max(1, lim // 2)
            case["maxrecv"] = min(case["maxrecv"], half)
            case.pop("group", None)
            case["cuts"] = [min(c, half) for c in case.get("cuts", [half])]
        yield case


# ------------------------------------------------------------------------------------------------
# installation into harness/props/c01.py
# ------------------------------------------------------------------------------------------------

def install(g: dict) -> None:
    o = {k: g.get(k) for k in ("run_real", "model_input", "model_post", "real_for_diff", "oracle", "nontrivial", "shrink",
                               "known_key", "corpus", "generate", "after_batch", "extra_coverage")}
    mine = lambda c: isinstance(c, dict) and c.get("kind") == "ep"     # noqa: E731

    def pick(name, fn, default=None):
        def f(case, *a):
            if mine(case):
                return fn(case, *a)
            return o[name](case, *a) if o[name] else default
        return f

    def corpus_():
        return (o["corpus"]() if o["corpus"] else []) + corpus()

    def generate_(rng, tier, boost):
        yield from o["generate"](rng, tier, boost)
        yield from generate(core.sub_rng(rng.getrandbits(32), "ep"), tier, boost)

    def after_batch_():
        _aux.clear()
        if o["after_batch"]:
            o["after_batch"]()

    def extra_coverage_(stats):
        d = dict(o["extra_coverage"](stats)) if o["extra_coverage"] else {}
        d["endpoint_entry_points_and_converter_family"] = dict(sorted(COUNT.items()))
        return d

    def model_input_(case, real):
        if mine(case):
            return None            # oracle only: the consumer models do not cover the endpoints' read loops / converters
        return o["model_input"](case, real) if o["model_input"] else None

    def model_post_(case, lines):
        return lines if mine(case) else (o["model_post"](case, lines) if o["model_post"] else lines)

    def real_for_diff_(case, real):
        return real if mine(case) else (o["real_for_diff"](case, real) if o["real_for_diff"] else real)

    def shrink_(case):
        return shrink(case) if mine(case) else (o["shrink"](case) if o["shrink"] else iter(()))

    def guarded(case):
        global _loop
        from vlib import genericfr
        lines = genericfr._watchdog(run_real, case)
        if lines and lines[0].startswith("harness-exc hang"):
            _loop = None          # (the loop was interrupted in the middle of a turn: never reuse it)
            # a stall of the machine is not a failure of the code under test: once more with a generous deadline; only a hang
            # that reproduces is reported
            lines = genericfr._watchdog(run_real, case, 15.0)
            if lines and lines[0].startswith("harness-exc hang"):
                _loop = None
        return lines

    g.update(run_real=pick("run_real", guarded), model_input=model_input_, model_post=model_post_, real_for_diff=real_for_diff_,
             oracle=pick("oracle", oracle), nontrivial=pick("nontrivial", nontrivial, "case"), shrink=shrink_,
             known_key=pick("known_key", known_key, ""), corpus=corpus_, generate=generate_, after_batch=after_batch_,
             extra_coverage=extra_coverage_)
