"""
C09 — blocking side: the REAL `SSLStreamTransport` over one end of a `socket.socketpair()`; the other end is served by a feeder
thread that drives an independent stdlib `SSLObject` peer (vlib/c09_env.Peer) and forwards at most `cut` bytes of the peer's
ciphertext stream to the reader, then does `shutdown(SHUT_WR)` (the reader's TCP stream ends there) while it keeps reading what
the reader sends until the reader closes.

No wall-clock criterion is ever judged: every blocking call has a generous time limit (LIMIT seconds) whose expiry is reported as
`infra-timeout` (the property module turns it into a retry, then into an InfraError / exit 2), never as a verdict.
"""
from __future__ import annotations

import math
import random
import socket
import threading
from typing import Any

from vlib import core  # noqa: F401
from vlib import c09_env as e9

from easynetwork.lowlevel.api_sync.transports.socket import SSLStreamTransport

LIMIT = 40.0


class Feeder(threading.Thread):
    def __init__(self, sock: socket.socket, peer: e9.Peer, cut: int | None, frag_seed: int, *, shut_after_script: bool = True,
                 hold_open: bool = False) -> None:
        super().__init__(daemon=True)
        self.sock = sock
        self.peer = peer
        self.cut = cut
        self.rng = random.Random(frag_seed)
        self.sent = 0
        self.shut = False
        self.shut_after_script = shut_after_script
        self.hold_open = hold_open          # never shut the write side (silent-peer close tests)
        self.problem: str | None = None
        self.received = bytearray()         # raw bytes the reader sent
        self.reader_closed = False

    def _forward(self) -> None:
        st = self.peer.stream
        lim = len(st) if self.cut is None else min(len(st), self.cut)
        while self.sent < lim:
            n = min(lim - self.sent, self.rng.choice((1, 3, 17, 100, 4096, 65536)))
            self.sock.sendall(bytes(st[self.sent:self.sent + n]))
            self.sent += n
        if self.shut or self.hold_open:
            return
        if (self.cut is not None and self.sent >= self.cut) or (self.shut_after_script and self.peer.sent_all and self.sent >= len(st)):
            self.shut = True
            try:
                self.sock.shutdown(socket.SHUT_WR)
            except OSError:
                pass

    def run(self) -> None:
        try:
            self.sock.settimeout(LIMIT)
            while True:
                self.peer.pump()
                try:
                    self._forward()
                except OSError:
                    pass    # the reader is gone
                try:
                    d = self.sock.recv(65536)
                except socket.timeout:
                    self.problem = "feeder-timeout"
                    return
                except OSError:
                    d = b""
                if not d:
                    self.reader_closed = True
                    self.peer.feed_eof()
                    self.peer.pump()
                    return
                self.received += d
                self.peer.feed(d)
        except Exception as e:  # noqa: BLE001
            self.problem = f"feeder-exc {type(e).__name__}: {e}"
        finally:
            try:
                self.sock.close()
            except OSError:
                pass


def kind(e: BaseException) -> str:
    return type(e).__name__


def run_cut(case: dict) -> tuple[list[str], dict[str, Any]]:
    """same observables as the asynchronous runner (see props/c09.py)"""
    role, tls, recs = case["role"], case["tls"], list(case["recs"])
    cut = case.get("cut")
    sc = bool(case.get("sc", True))
    peer = e9.Peer("server" if role == "client" else "client", tls, recs, bool(case.get("notify", True)))
    a, b = socket.socketpair()
    fd = Feeder(b, peer, cut, int(case.get("frag", 0)))
    fd.start()
    lines: list[str] = []
    plain = bytearray()
    tr = None
    try:
        ctx = e9.make_context(role, tls, ignore_eof=bool(case.get("ignore_eof", False)))
        kw: dict[str, Any] = {"server_hostname": "localhost"} if role == "client" else {"server_side": True}
        try:
            tr = SSLStreamTransport(a, ctx, math.inf, standard_compatible=sc, handshake_timeout=LIMIT, shutdown_timeout=LIMIT, **kw)
        except TimeoutError:
            lines.append("infra-timeout handshake")
            return lines, {}
        except Exception as e:  # noqa: BLE001
            lines.append("hs exc:" + kind(e))
            lines.append(f"inner-closed {int(a.fileno() < 0)}")
            return lines, {}
        lines.append("hs ok")
        term = 0
        bufsize = int(case.get("bufsize", 4096))
        for _ in range(100000):
            if term >= 3:
                break
            try:
                if case.get("method") == "recv_into":
                    buf = bytearray(bufsize)
                    n = tr.recv_into(buf, LIMIT)
                    d = bytes(buf[:n])
                else:
                    d = tr.recv(bufsize, LIMIT)
            except TimeoutError:
                lines.append("infra-timeout recv")
                return lines, {}
            except Exception as e:  # noqa: BLE001
                lines.append("r exc:" + kind(e))
                term += 1
                continue
            if d:
                if term:
                    lines.append(f"r late-data {len(d)}")
                    term += 1
                else:
                    plain += d
                    lines.append(f"r data {len(d)}")
            else:
                lines.append("r eof")
                term += 1
        lines.append("plain " + core.hexs(bytes(plain)))
        try:
            tr.close()
            lines.append("close ok")
        except Exception as e:  # noqa: BLE001
            lines.append("close exc:" + kind(e))
        lines.append(f"inner-closed {int(tr.is_closed())}")
        return lines, {}
    finally:
        try:
            if tr is not None:
                tr.close()
            else:
                a.close()
        except Exception:  # noqa: BLE001
            pass
        fd.join(LIMIT)
        if fd.is_alive() or fd.problem:
            lines.append("infra-timeout " + (fd.problem or "feeder-alive"))


def run_close(case: dict) -> tuple[list[str], dict[str, Any]]:
    """blocking `close()`: peer behaviours responsive | silent | closed | dropped (as in vlib/c09_run.run_session)"""
    role, tls, recs = case["role"], case["tls"], list(case["recs"])
    sc = bool(case.get("sc", True))
    mode = case.get("peer", "responsive")
    peer = e9.Peer("server" if role == "client" else "client", tls, recs, mode == "closed", reply_close=mode != "dropped")
    a, b = socket.socketpair()
    fd = Feeder(b, peer, None, int(case.get("frag", 0)), shut_after_script=mode in ("closed", "dropped"), hold_open=mode == "silent")
    fd.start()
    lines: list[str] = []
    tr = None
    try:
        ctx = e9.make_context(role, tls)
        kw: dict[str, Any] = {"server_hostname": "localhost"} if role == "client" else {"server_side": True}
        try:
            tr = SSLStreamTransport(a, ctx, math.inf, standard_compatible=sc, handshake_timeout=LIMIT,
                                    shutdown_timeout=float(case.get("shutdown_timeout", 0.25)) if mode == "silent" else LIMIT, **kw)
        except TimeoutError:
            lines.append("infra-timeout handshake")
            return lines, {}
        except Exception as e:  # noqa: BLE001
            lines.append("hs exc:" + kind(e))
            return lines, {}
        lines.append("hs ok")
        try:
            if case.get("reads") is not None:
                # only `reads` receive calls of `bufsize` bytes: application data from the peer is still unread at close time
                pre = bytearray()
                rsize = int(case.get("bufsize", 65536))
                for _ in range(int(case["reads"])):
                    if case.get("method") == "recv_into":
                        buf = bytearray(rsize)
                        nb = tr.recv_into(buf, LIMIT)
                        d = bytes(buf[:nb])
                    else:
                        d = tr.recv(rsize, LIMIT)
                    if not d:
                        break
                    pre += d
                lines.append("pre-plain " + core.hexs(bytes(pre)))
            else:
                got = 0
                want = sum(recs)
                while got < want:
                    d = tr.recv(65536, LIMIT)
                    if not d:
                        break
                    got += len(d)
            if mode == "closed" and case.get("pre_eof", True):
                d = tr.recv(65536, LIMIT)
                lines.append("pre " + ("eof" if not d else f"data {len(d)}"))
        except TimeoutError:
            lines.append("infra-timeout recv")
            return lines, {}
        except Exception as e:  # noqa: BLE001
            lines.append("pre exc:" + kind(e))
        if mode == "silent":
            peer.silent = True
        try:
            tr.close()
            lines.append("close ok")
        except Exception as e:  # noqa: BLE001
            lines.append("close exc:" + kind(e))
        lines.append(f"inner-closed {int(tr.is_closed())}")
        try:
            tr.close()
            lines.append("second ok")
        except Exception as e:  # noqa: BLE001
            lines.append("second exc:" + kind(e))
    finally:
        try:
            if tr is not None:
                tr.close()
            else:
                a.close()
        except Exception:  # noqa: BLE001
            pass
        fd.join(LIMIT)
        if fd.is_alive() or fd.problem:
            lines.append("infra-timeout " + (fd.problem or "feeder-alive"))
    if mode == "silent":
        # the silent peer did not look at what arrived while the reader was closing: let it read now
        peer.silent = False
        peer.pump()
    peer.read_reader()
    rec = e9.parse_records(bytes(fd.received))
    tail = rec[-1:] if rec else []
    lines.append("close-emitted " + (" ".join(f"{ty}:{e - s}" for ty, s, e in tail) or "-")
                 + (" ragged-tail" if rec and rec[-1][2] != len(fd.received) else ""))
    lines.append("peer " + (",".join(peer.got) or "-"))
    lines.append("tls " + tls)
    return lines, {}
